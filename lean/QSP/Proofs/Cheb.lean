/-
  Proofs for property C11: the basis conversions of `QSP/Model/Cheb.lean`
  (`chebBasis`, `cheb2poly`, `poly2cheb`, `poly2laurent`, `polyToLaurentForm`) against
  Mathlib's Chebyshev polynomials and Laurent polynomials.
-/
import QSP.Proofs.LPoly
import QSP.Model.Cheb
import Mathlib.Data.List.TakeWhile
import Mathlib.RingTheory.Polynomial.Chebyshev
import Mathlib.Algebra.Polynomial.AlgebraMap
import Mathlib.Algebra.Polynomial.Laurent
import Mathlib.Algebra.BigOperators.Intervals
import Mathlib.Tactic.Ring
import Mathlib.Tactic.Linarith
import Mathlib.Tactic.FieldSimp
import Mathlib.Tactic.LinearCombination
open LaurentPolynomial
namespace QSP

/-! ### coefficient lists as polynomials -/

section toPoly
variable {K : Type} [CommRing K]

open Polynomial in
/-- the polynomial `sum_i l[i] X^i` -/
noncomputable def toPoly : List K → Polynomial K
  | [] => 0
  | c :: cs => Polynomial.C c + Polynomial.X * toPoly cs

@[simp] theorem toPoly_nil : toPoly ([] : List K) = 0 := rfl
@[simp] theorem toPoly_cons (c : K) (cs : List K) :
    toPoly (c :: cs) = Polynomial.C c + Polynomial.X * toPoly cs := rfl

theorem toPoly_addL (a b : List K) : toPoly (addL a b) = toPoly a + toPoly b := by
  induction a generalizing b with
  | nil => simp [addL]
  | cons x xs ih =>
    cases b with
    | nil => simp [addL]
    | cons y ys => simp [addL, ih, map_add]; ring

theorem toPoly_map_mul (c : K) (l : List K) :
    toPoly (l.map (c * ·)) = Polynomial.C c * toPoly l := by
  induction l with
  | nil => simp
  | cons y ys ih => simp [ih, map_mul]; ring

theorem toPoly_map_neg (l : List K) : toPoly (l.map (- ·)) = - toPoly l := by
  induction l with
  | nil => simp
  | cons y ys ih => simp [ih]; ring

theorem toPoly_subL (a b : List K) : toPoly (subL a b) = toPoly a - toPoly b := by
  rw [subL, toPoly_addL, toPoly_map_neg, sub_eq_add_neg]

theorem toPoly_mul2x (l : List K) : toPoly (mul2x l) = 2 * Polynomial.X * toPoly l := by
  have h2 : (Polynomial.C (two : K) : Polynomial K) = 2 := by
    simp [two, one_add_one_eq_two, map_ofNat]
  rw [mul2x, toPoly_cons, toPoly_map_mul, h2]
  simp; ring

theorem toPoly_coeff (l : List K) (n : ℕ) : (toPoly l).coeff n = l.getD n 0 := by
  induction l generalizing n with
  | nil => simp
  | cons c cs ih =>
    cases n with
    | zero => simp
    | succ n => simp [Polynomial.coeff_C_succ, ih]

theorem toPoly_zeros (n : ℕ) : toPoly (zeros n : List K) = 0 := by
  induction n with
  | zero => simp [zeros]
  | succ n ih =>
    have : (zeros (n + 1) : List K) = 0 :: zeros n := by simp [zeros, List.replicate_succ]
    rw [this, toPoly_cons, ih]; simp

theorem toPoly_append_zeros (l : List K) (n : ℕ) : toPoly (l ++ zeros n) = toPoly l := by
  induction l with
  | nil => simpa using toPoly_zeros n
  | cons c cs ih => simp [ih]

/-- lists of the same length denote the same polynomial only if they are equal -/
theorem toPoly_inj {a b : List K} (hl : a.length = b.length) (h : toPoly a = toPoly b) :
    a = b := by
  apply List.ext_getElem hl
  intro i h1 h2
  have := congrArg (fun p => p.coeff i) h
  simp only [toPoly_coeff] at this
  simpa [List.getD_eq_getElem?_getD, h1, h2] using this

theorem length_addL {R : Type} [Add R] (a b : List R) :
    (addL a b).length = max a.length b.length := by
  induction a generalizing b with
  | nil => simp [addL]
  | cons x xs ih =>
    cases b with
    | nil => simp [addL]
    | cons y ys => simp [addL, ih]

theorem length_subL (a b : List K) : (subL a b).length = max a.length b.length := by
  simp [subL, length_addL]

theorem length_mul2x (l : List K) : (mul2x l).length = l.length + 1 := by simp [mul2x]

end toPoly

/-! ### the basis polynomials -/

section basis
variable {K : Type} [CommRing K]
open Polynomial (Chebyshev.T Chebyshev.U)

/-- the Chebyshev polynomial of the first (`kindU = false`) or second kind -/
noncomputable def chebP (K : Type) [CommRing K] (kindU : Bool) (n : ℕ) : Polynomial K :=
  if kindU then Polynomial.Chebyshev.U K n else Polynomial.Chebyshev.T K n

theorem chebP_add_two (kindU : Bool) (n : ℕ) :
    chebP K kindU (n + 2) = 2 * Polynomial.X * chebP K kindU (n + 1) - chebP K kindU n := by
  cases kindU
  · simp only [chebP, Bool.false_eq_true, if_false]
    push_cast
    exact Polynomial.Chebyshev.T_add_two K n
  · simp only [chebP, if_true]
    push_cast
    exact Polynomial.Chebyshev.U_add_two K n

theorem chebPair_spec (kindU : Bool) (n : ℕ) :
    toPoly (chebPair kindU n : List K × List K).1 = chebP K kindU n ∧
    toPoly (chebPair kindU n : List K × List K).2 = chebP K kindU (n + 1) := by
  induction n with
  | zero =>
    cases kindU
    · simp [chebPair, chebP]
    · simp [chebPair, chebP, two, one_add_one_eq_two, map_ofNat, mul_comm]
  | succ n ih =>
    refine ⟨ih.2, ?_⟩
    simp only [chebPair]
    rw [toPoly_subL, toPoly_mul2x, ih.1, ih.2, chebP_add_two]

theorem chebPair_length (kindU : Bool) (n : ℕ) :
    (chebPair kindU n : List K × List K).1.length = n + 1 ∧
    (chebPair kindU n : List K × List K).2.length = n + 2 := by
  induction n with
  | zero => cases kindU <;> simp [chebPair]
  | succ n ih =>
    refine ⟨ih.2, ?_⟩
    simp only [chebPair]
    rw [length_subL, length_mul2x, ih.1, ih.2]
    omega

theorem toPoly_chebBasis (kindU : Bool) (n : ℕ) :
    toPoly (chebBasis kindU n : List K) = chebP K kindU n := (chebPair_spec kindU n).1

/-- `chebBasis false n` lists the monomial coefficients of Mathlib's `T_n` -/
theorem chebBasis_T (n : ℕ) :
    toPoly (chebBasis false n : List K) = Polynomial.Chebyshev.T K n := by
  simpa [chebP] using toPoly_chebBasis (K := K) false n

/-- `chebBasis true n` lists the monomial coefficients of Mathlib's `U_n` -/
theorem chebBasis_U (n : ℕ) :
    toPoly (chebBasis true n : List K) = Polynomial.Chebyshev.U K n := by
  simpa [chebP] using toPoly_chebBasis (K := K) true n

theorem chebBasis_length (kindU : Bool) (n : ℕ) :
    (chebBasis kindU n : List K).length = n + 1 := (chebPair_length kindU n).1

theorem getLastD_eq_getD {α : Type} (l : List α) (n : ℕ) (d e : α) (h : l.length = n + 1) :
    l.getLastD d = l.getD n e := by
  induction l generalizing n d with
  | nil => simp at h
  | cons x xs ih =>
    cases xs with
    | nil =>
      simp only [List.length_cons, List.length_nil] at h
      have : n = 0 := by omega
      subst this
      simp
    | cons y ys =>
      cases n with
      | zero => simp at h
      | succ n =>
        have := ih n x (by simpa using h)
        simp only [List.getLastD_cons] at this ⊢
        simpa using this

/-- the leading coefficient used by the elimination `poly2cheb` -/
def chebLead (K : Type) [CommRing K] (kindU : Bool) (n : ℕ) : K :=
  if kindU then 2 ^ n else 2 ^ (n - 1)

theorem chebP_coeff_self [IsDomain K] [NeZero (2 : K)] (kindU : Bool) (n : ℕ) :
    (chebP K kindU n).coeff n = chebLead K kindU n := by
  cases kindU
  · have h1 := Polynomial.Chebyshev.leadingCoeff_T K (n : ℤ)
    have h2 := Polynomial.Chebyshev.natDegree_T K (n : ℤ)
    simp only [Int.natAbs_natCast] at h1 h2
    simp only [chebP, chebLead, Bool.false_eq_true, if_false]
    rw [← h1, Polynomial.leadingCoeff, h2]
  · have h1 := Polynomial.Chebyshev.leadingCoeff_U_natCast K n
    have h2 := Polynomial.Chebyshev.natDegree_U_natCast K n
    simp only [chebP, chebLead, if_true]
    rw [← h1, Polynomial.leadingCoeff, h2]

theorem chebLead_ne_zero [IsDomain K] [NeZero (2 : K)] (kindU : Bool) (n : ℕ) :
    chebLead K kindU n ≠ 0 := by
  unfold chebLead
  split <;> exact pow_ne_zero _ two_ne_zero

/-- the last entry of `chebBasis kindU n` is the leading coefficient `2^(n-1)` resp. `2^n` -/
theorem chebBasis_getLastD [IsDomain K] [NeZero (2 : K)] (kindU : Bool) (n : ℕ) (d : K) :
    (chebBasis kindU n : List K).getLastD d = chebLead K kindU n := by
  rw [getLastD_eq_getD _ n d 0 (chebBasis_length kindU n), ← toPoly_coeff, toPoly_chebBasis,
    chebP_coeff_self]

/-- … `2^(n-1)` resp. `2^n`, and it is not zero (so `poly2cheb` never divides by zero) -/
theorem chebBasis_lead [IsDomain K] [NeZero (2 : K)] (kindU : Bool) (n : ℕ) (d : K) :
    (chebBasis kindU n : List K).getLastD d = (if kindU then 2 ^ n else 2 ^ (n - 1)) ∧
    (chebBasis kindU n : List K).getLastD d ≠ 0 := by
  rw [chebBasis_getLastD]
  exact ⟨rfl, chebLead_ne_zero kindU n⟩

end basis

/-! ### `cheb2poly` -/

section cheb2poly
variable {K : Type} [CommRing K]

/-- `sum_i cs[i] * P_{k+i}` for the Chebyshev polynomials `P` of the chosen kind -/
noncomputable def chebSumFrom (kindU : Bool) : List K → ℕ → Polynomial K
  | [], _ => 0
  | c :: cs, k => Polynomial.C c * chebP K kindU k + chebSumFrom kindU cs (k + 1)

/-- the polynomial with Chebyshev coefficients `cs` : `sum_i cs[i] * P_i` -/
noncomputable def chebSum (kindU : Bool) (cs : List K) : Polynomial K := chebSumFrom kindU cs 0

@[simp] theorem chebSumFrom_nil (kindU : Bool) (k : ℕ) :
    chebSumFrom kindU ([] : List K) k = 0 := rfl
@[simp] theorem chebSumFrom_cons (kindU : Bool) (c : K) (cs : List K) (k : ℕ) :
    chebSumFrom kindU (c :: cs) k =
      Polynomial.C c * chebP K kindU k + chebSumFrom kindU cs (k + 1) := rfl

/-- `chebSumFrom` as a `Finset` sum -/
theorem chebSumFrom_eq_sum (kindU : Bool) (cs : List K) (k : ℕ) :
    chebSumFrom kindU cs k =
      ∑ i ∈ Finset.range cs.length, Polynomial.C (cs.getD i 0) * chebP K kindU (k + i) := by
  induction cs generalizing k with
  | nil => simp
  | cons c cs ih =>
    rw [chebSumFrom_cons, ih, List.length_cons, Finset.sum_range_succ']
    simp only [List.getD_cons_succ, List.getD_cons_zero, Nat.add_zero]
    rw [add_comm]
    congr 1
    apply Finset.sum_congr rfl
    intro i _
    rw [show k + 1 + i = k + (i + 1) by ring]

/-- `chebSum` as a `Finset` sum: `sum_{i < |cs|} cs[i] * P_i` -/
theorem chebSum_eq_sum (kindU : Bool) (cs : List K) :
    chebSum kindU cs =
      ∑ i ∈ Finset.range cs.length, Polynomial.C (cs.getD i 0) * chebP K kindU i := by
  unfold chebSum
  simpa using chebSumFrom_eq_sum kindU cs 0

theorem chebSumFrom_append (kindU : Bool) (a b : List K) (k : ℕ) :
    chebSumFrom kindU (a ++ b) k = chebSumFrom kindU a k + chebSumFrom kindU b (k + a.length) := by
  induction a generalizing k with
  | nil => simp
  | cons x xs ih =>
    simp only [List.cons_append, chebSumFrom_cons, ih, List.length_cons]
    rw [show k + 1 + xs.length = k + (xs.length + 1) by ring]
    ring

theorem toPoly_cheb2polyAux (kindU : Bool) (cs : List K) (k : ℕ) :
    toPoly (cheb2polyAux kindU cs k) = chebSumFrom kindU cs k := by
  induction cs generalizing k with
  | nil => simp [cheb2polyAux]
  | cons c cs ih =>
    simp only [cheb2polyAux, toPoly_addL, toPoly_map_mul, toPoly_chebBasis, ih, chebSumFrom_cons]

theorem length_cheb2polyAux (kindU : Bool) (cs : List K) (k : ℕ) (h : cs ≠ []) :
    (cheb2polyAux kindU cs k).length = k + cs.length := by
  induction cs generalizing k with
  | nil => exact absurd rfl h
  | cons c cs ih =>
    simp only [cheb2polyAux, length_addL, List.length_map, chebBasis_length, List.length_cons]
    cases cs with
    | nil => simp [cheb2polyAux]
    | cons c' cs' =>
      rw [ih (k + 1) (by simp)]
      simp only [List.length_cons]
      omega

theorem cheb2poly_eq_aux (kindU : Bool) (cs : List K) :
    cheb2poly kindU cs = cheb2polyAux kindU cs 0 := by
  cases cs with
  | nil => simp [cheb2poly, cheb2polyAux, padTo, zeros]
  | cons c cs' =>
    have hl := length_cheb2polyAux kindU (c :: cs') 0 (by simp)
    rw [Nat.zero_add] at hl
    unfold cheb2poly padTo
    rw [List.take_of_length_le (le_of_eq hl), hl]
    simp [zeros]

/-- `cheb2poly` returns the monomial coefficients of `sum_k cs[k] P_k` … -/
theorem cheb2poly_spec (kindU : Bool) (cs : List K) :
    toPoly (cheb2poly kindU cs) = chebSum kindU cs := by
  rw [cheb2poly_eq_aux, toPoly_cheb2polyAux]; rfl

/-- … in a list of the same length -/
theorem cheb2poly_length (kindU : Bool) (cs : List K) :
    (cheb2poly kindU cs).length = cs.length := by
  cases cs with
  | nil => simp [cheb2poly_eq_aux, cheb2polyAux]
  | cons c cs' =>
    rw [cheb2poly_eq_aux, length_cheb2polyAux kindU (c :: cs') 0 (by simp), Nat.zero_add]

theorem foldr_range_eq_sum {M : Type} [AddCommMonoid M] (f : ℕ → M) (n : ℕ) :
    (List.range n).foldr (fun k acc => f k + acc) 0 = ∑ i ∈ Finset.range n, f i := by
  have h1 : ∀ l : List ℕ, l.foldr (fun k acc => f k + acc) 0 = (l.map f).sum := by
    intro l
    induction l with
    | nil => simp
    | cons x xs ih => simp [ih]
  rw [h1]
  induction n with
  | zero => simp
  | succ n ih => rw [List.range_succ, List.map_append, List.sum_append, ih, Finset.sum_range_succ]; simp

/-- the same statement with the sum written as a `foldr` over the indices -/
theorem cheb2poly_spec_foldr (kindU : Bool) (cs : List K) :
    toPoly (cheb2poly kindU cs) =
      (List.range cs.length).foldr (fun k acc => Polynomial.C (cs.getD k 0) *
        (if kindU then Polynomial.Chebyshev.U K k else Polynomial.Chebyshev.T K k) + acc) 0 := by
  rw [cheb2poly_spec, chebSum_eq_sum, foldr_range_eq_sum]
  rfl

theorem chebSum_coeff_of_le (kindU : Bool) (cs : List K) (m : ℕ) (h : cs.length ≤ m) :
    (chebSum kindU cs).coeff m = 0 := by
  rw [← cheb2poly_spec, toPoly_coeff, List.getD_eq_getElem?_getD, List.getElem?_eq_none]
  · rfl
  · rw [cheb2poly_length]; exact h

end cheb2poly

/-! ### `poly2cheb` and the round trips -/

section poly2cheb
variable {K : Type} [Field K] [NeZero (2 : K)]

/-- Chebyshev coefficient lists of the same length with the same sum are equal
    (the basis polynomials have exact degrees `0, 1, 2, …`) -/
theorem chebSum_inj (kindU : Bool) {a b : List K} (hl : a.length = b.length)
    (h : chebSum kindU a = chebSum kindU b) : a = b := by
  induction a using List.reverseRecOn generalizing b with
  | nil =>
    symm
    simpa using hl.symm
  | append_singleton a' x ih =>
    rcases List.eq_nil_or_concat b with rfl | ⟨b', y, rfl⟩
    · simp at hl
    · simp only [List.concat_eq_append, List.length_append, List.length_singleton,
        Nat.add_right_cancel_iff] at hl
      simp only [List.concat_eq_append, chebSum, chebSumFrom_append, Nat.zero_add,
        chebSumFrom_cons, chebSumFrom_nil, add_zero] at h
      have hc := congrArg (fun p => p.coeff a'.length) h
      simp only [Polynomial.coeff_add, Polynomial.coeff_C_mul] at hc
      have h1 := chebSum_coeff_of_le kindU a' a'.length le_rfl
      have h2 := chebSum_coeff_of_le kindU b' a'.length (le_of_eq hl.symm)
      unfold chebSum at h1 h2
      rw [h1, ← hl, h2, chebP_coeff_self, zero_add, zero_add] at hc
      have hxy : x = y := mul_right_cancel₀ (chebLead_ne_zero kindU _) hc
      subst hxy
      rw [← hl] at h
      have := ih hl (add_right_cancel h)
      rw [this]
      simp

theorem poly2chebAux_spec (kindU : Bool) (n : ℕ) (ps acc : List K) (hn : ps.length = n) :
    ∃ cs : List K, poly2chebAux kindU n ps acc = cs ++ acc ∧ cs.length = n ∧
      chebSum kindU cs = toPoly ps := by
  induction n generalizing ps acc with
  | zero =>
    have : ps = [] := List.length_eq_zero_iff.mp hn
    subst this
    exact ⟨[], by simp [poly2chebAux], rfl, by simp [chebSum]⟩
  | succ n ih =>
    simp only [poly2chebAux]
    rw [chebBasis_getLastD]
    set c : K := ps.getD n 0 / chebLead K kindU n with hc
    set ps' : List K := subL ps ((chebBasis kindU n).map (c * ·)) with hps'
    have hlen' : ps'.length = n + 1 := by
      rw [hps', length_subL, List.length_map, chebBasis_length, hn]; simp
    have hP : toPoly ps' = toPoly ps - Polynomial.C c * chebP K kindU n := by
      rw [hps', toPoly_subL, toPoly_map_mul, toPoly_chebBasis]
    have hz : ps'.getD n 0 = 0 := by
      rw [← toPoly_coeff, hP, Polynomial.coeff_sub, Polynomial.coeff_C_mul, chebP_coeff_self,
        toPoly_coeff, hc, div_mul_cancel₀ _ (chebLead_ne_zero kindU n), sub_self]
    have htake : toPoly (ps'.take n) = toPoly ps' := by
      have hsplit : ps' = ps'.take n ++ [(0 : K)] := by
        apply List.ext_getElem
        · simp [hlen']
        · intro i h1 h2
          by_cases hi : i < n
          · rw [List.getElem_append_left (by simp [hlen']; omega)]
            simp
          · have hin : i = n := by omega
            subst hin
            rw [List.getElem_append_right (by simp [hlen'])]
            simp [hlen']
            rw [← hz, List.getD_eq_getElem?_getD]
            simp [h1]
      conv_rhs => rw [hsplit]
      have : [(0 : K)] = zeros 1 := by simp [zeros]
      rw [this, toPoly_append_zeros]
    obtain ⟨cs', h1, h2, h3⟩ := ih (ps'.take n) (c :: acc) (by simp [hlen'])
    refine ⟨cs' ++ [c], ?_, by simp [h2], ?_⟩
    · rw [h1]; simp
    · unfold chebSum at h3 ⊢
      rw [chebSumFrom_append, h3, htake, hP, h2]
      simp

/-- `poly2cheb` returns Chebyshev coefficients of the polynomial … -/
theorem poly2cheb_spec (kindU : Bool) (ps : List K) :
    chebSum kindU (poly2cheb kindU ps) = toPoly ps := by
  obtain ⟨cs, h1, _, h3⟩ := poly2chebAux_spec kindU ps.length ps [] rfl
  rw [poly2cheb, h1, List.append_nil, h3]

/-- … in a list of the same length -/
theorem poly2cheb_length (kindU : Bool) (ps : List K) :
    (poly2cheb kindU ps).length = ps.length := by
  obtain ⟨cs, h1, h2, _⟩ := poly2chebAux_spec kindU ps.length ps [] rfl
  rw [poly2cheb, h1, List.append_nil, h2]

theorem cheb2poly_poly2cheb (kindU : Bool) (ps : List K) :
    cheb2poly kindU (poly2cheb kindU ps) = ps := by
  apply toPoly_inj
  · rw [cheb2poly_length, poly2cheb_length]
  · rw [cheb2poly_spec, poly2cheb_spec]

theorem poly2cheb_cheb2poly (kindU : Bool) (cs : List K) :
    poly2cheb kindU (cheb2poly kindU cs) = cs := by
  apply chebSum_inj kindU
  · rw [poly2cheb_length, cheb2poly_length]
  · rw [poly2cheb_spec, cheb2poly_spec]

end poly2cheb

/-! ### the substitution `x = (w + 1/w)/2` -/

section cosW
variable {K : Type} [Field K] [NeZero (2 : K)]

/-- the Laurent polynomial `(w + 1/w)/2`, i.e. `cos θ` at `w = e^{iθ}` -/
noncomputable def cosW : K[T;T⁻¹] := C (1 / 2) * (T 1 + T (-1))

theorem two_mul_C_half : (2 : K[T;T⁻¹]) * C (1 / 2 : K) = 1 := by
  rw [← map_ofNat (C : K →+* K[T;T⁻¹]) 2, ← map_mul]
  rw [mul_one_div_cancel (two_ne_zero), map_one]

omit [NeZero (2 : K)] in
theorem T_one_mul_T_neg_one : (T 1 * T (-1) : K[T;T⁻¹]) = 1 := by
  rw [← T_add]; simp

/-- `T_k((w + 1/w)/2) = (w^k + w^(-k))/2` -/
theorem aeval_cosW_T (k : ℕ) :
    Polynomial.aeval (cosW : K[T;T⁻¹]) (Polynomial.Chebyshev.T K k) =
      C (1 / 2) * (T k + T (-(k : ℤ))) := by
  induction k using Nat.twoStepInduction with
  | zero =>
    simp only [Nat.cast_zero, Polynomial.Chebyshev.T_zero, map_one, neg_zero, T_zero]
    linear_combination (-1 : K[T;T⁻¹]) * two_mul_C_half (K := K)
  | one => simp [cosW]
  | more n ih0 ih1 =>
    have e1 : (((n + 2 : ℕ) : ℤ)) = (n : ℤ) + 2 := by push_cast; ring
    have e2 : (((n + 1 : ℕ) : ℤ)) = (n : ℤ) + 1 := by push_cast; ring
    rw [e1, Polynomial.Chebyshev.T_add_two, map_sub, map_mul, map_mul, Polynomial.aeval_X]
    rw [e2] at ih1
    rw [ih0, ih1, map_ofNat]
    have h2 := two_mul_C_half (K := K)
    have hT := T_one_mul_T_neg_one (K := K)
    have a1 : (T ((n : ℤ) + 1) : K[T;T⁻¹]) = T n * T 1 := T_add _ _
    have a2 : (T (-((n : ℤ) + 1)) : K[T;T⁻¹]) = T (-(n : ℤ)) * T (-1) := by
      rw [← T_add]; congr 1; ring
    have a3 : (T ((n : ℤ) + 2) : K[T;T⁻¹]) = T n * T 1 * T 1 := by
      rw [← T_add, ← T_add]; congr 1
    have a4 : (T (-((n : ℤ) + 2)) : K[T;T⁻¹]) = T (-(n : ℤ)) * T (-1) * T (-1) := by
      rw [← T_add, ← T_add]; congr 1; ring
    rw [a1, a2, a3, a4, cosW]
    linear_combination (C (1 / 2) * (T 1 + T (-1)) * (T n * T 1 + T (-(n : ℤ)) * T (-1))) * h2 +
      (C (1 / 2 : K) * (T n + T (-(n : ℤ)))) * hT

end cosW

/-! ### parity splitting of coefficient lists -/

section parity

theorem evens_cons {α : Type} (x : α) (l : List α) : evens (x :: l) = x :: odds l := by
  cases l <;> rfl

theorem odds_cons {α : Type} (x : α) (l : List α) : odds (x :: l) = evens l := rfl

theorem evens_odds_map {α β : Type} (f : α → β) (l : List α) :
    evens (l.map f) = (evens l).map f ∧ odds (l.map f) = (odds l).map f := by
  induction l with
  | nil => exact ⟨rfl, rfl⟩
  | cons x xs ih =>
    rw [List.map_cons, evens_cons, evens_cons, odds_cons, odds_cons, ih.1, ih.2]
    exact ⟨rfl, rfl⟩

/-- `evens l` / `odds l` list the entries of `l` at the even / odd indices -/
theorem evens_odds_getD {α : Type} (l : List α) (d : α) (j : ℕ) :
    (evens l).getD j d = l.getD (2 * j) d ∧ (odds l).getD j d = l.getD (2 * j + 1) d := by
  induction l generalizing j with
  | nil => simp [evens, odds]
  | cons x xs ih =>
    rw [evens_cons, odds_cons]
    refine ⟨?_, by rw [(ih j).1, List.getD_cons_succ]⟩
    cases j with
    | zero => simp
    | succ j => rw [List.getD_cons_succ, (ih j).2, show 2 * (j + 1) = (2 * j + 1) + 1 by ring,
        List.getD_cons_succ]

variable {R : Type} [CommRing R]

/-- `sum_i C (cs[i]) * T (d + i)` (all powers, step 1) -/
noncomputable def den1 : List R → ℤ → R[T;T⁻¹]
  | [], _ => 0
  | c :: cs, d => C c * T d + den1 cs (d + 1)

theorem den1_eq (l : List R) (d : ℤ) :
    den1 l d = denL (evens l) d + denL (odds l) (d + 1) := by
  induction l generalizing d with
  | nil => simp [den1, evens, odds]
  | cons x xs ih =>
    rw [den1, ih, evens_cons, odds_cons, denL_cons, show d + 1 + 1 = d + 2 by ring]
    ring

/-- the mirrored vector built from the odd coefficients -/
theorem denL_sym_odd (h : List R) :
    denL (h.reverse ++ h) (-((h.reverse ++ h).length : ℤ) + 1) =
      invert (denL h 1) + denL h 1 := by
  have e1 : -((h.reverse ++ h).length : ℤ) + 1 = -(2 * (h.length : ℤ) + 1 - 2) := by
    simp only [List.length_append, List.length_reverse]; push_cast; ring
  have e2 : -(2 * (h.length : ℤ) + 1 - 2) + 2 * ((h.reverse.length : ℕ) : ℤ) = 1 := by
    simp only [List.length_reverse]; ring
  rw [denL_append, e1, e2, denL_reverse]

/-- the mirrored vector with doubled centre built from the even coefficients -/
theorem denL_sym_even (l0 : R) (rest : List R) :
    denL (rest.reverse ++ [2 * l0] ++ rest)
        (-((rest.reverse ++ [2 * l0] ++ rest).length : ℤ) + 1) =
      invert (denL (l0 :: rest) 0) + denL (l0 :: rest) 0 := by
  have e1 : -((rest.reverse ++ [2 * l0] ++ rest).length : ℤ) + 1 =
      -(2 * (rest.length : ℤ) + 2 - 2) := by
    simp only [List.length_append, List.length_reverse, List.length_singleton]; push_cast; ring
  have e2 : -(2 * (rest.length : ℤ) + 2 - 2) + 2 * ((rest.reverse.length : ℕ) : ℤ) = 0 := by
    simp only [List.length_reverse]; ring
  have e3 : -(2 * (rest.length : ℤ) + 2 - 2) + 2 * (((rest.reverse ++ [2 * l0]).length : ℕ) : ℤ)
      = 0 + 2 := by
    simp only [List.length_append, List.length_reverse, List.length_singleton]; push_cast; ring
  rw [denL_append, denL_append, e1, e2, e3, denL_reverse]
  simp only [denL_cons, denL_nil, add_zero, T_zero, mul_one, map_add, invert_C, map_mul,
    map_ofNat, zero_add]
  ring

end parity

/-! ### `poly2laurent` -/

section poly2laurent

/-- `f + f(1/w)` -/
noncomputable def symm (f : ℚ[T;T⁻¹]) : ℚ[T;T⁻¹] := invert f + f

theorem aeval_chebSumFrom (cs : List ℚ) (k : ℕ) :
    Polynomial.aeval (cosW : ℚ[T;T⁻¹]) (chebSumFrom false cs k) =
      symm (den1 (cs.map (· / 2)) k) := by
  induction cs generalizing k with
  | nil => simp [symm, den1]
  | cons c cs ih =>
    have hk : chebP ℚ false k = Polynomial.Chebyshev.T ℚ k := by simp [chebP]
    have hc : (C (c / 2) : ℚ[T;T⁻¹]) = C c * C (1 / 2) := by
      rw [← map_mul]; congr 1; ring
    have e : (((k + 1 : ℕ)) : ℤ) = (k : ℤ) + 1 := by push_cast; ring
    rw [chebSumFrom_cons, map_add, map_mul, ih, hk, aeval_cosW_T, Polynomial.aeval_C,
      ← C_eq_algebraMap, List.map_cons, den1, e]
    simp only [symm, map_add, map_mul, invert_C, invert_T, hc]
    ring

/-- `p((w+1/w)/2)` split into the contributions of the even and of the odd Chebyshev
    coefficients of `p` -/
theorem aeval_cosW_toPoly (ps : List ℚ) :
    Polynomial.aeval (cosW : ℚ[T;T⁻¹]) (toPoly ps) =
      symm (denL ((evens (poly2cheb false ps)).map (· / 2)) 0) +
      symm (denL ((odds (poly2cheb false ps)).map (· / 2)) 1) := by
  rw [← poly2cheb_spec false ps, chebSum, aeval_chebSumFrom, den1_eq,
    (evens_odds_map _ _).1, (evens_odds_map _ _).2]
  simp only [symm, map_add, Nat.cast_zero, zero_add]
  ring

theorem qabs_zero : qabs 0 = 0 := by decide +kernel

theorem maxAbs_eq_zero {l : List ℚ} (h : ∀ c ∈ l, c = 0) : maxAbs l = 0 := by
  unfold maxAbs
  induction l with
  | nil => rfl
  | cons x xs ih =>
    have hx : x = 0 := h x (by simp)
    subst hx
    rw [List.foldl_cons, qabs_zero, if_neg (lt_irrefl _)]
    exact ih (fun c hc => h c (by simp [hc]))

/-- what `poly2laurent` returns denotes the symmetrised kept half of the coefficients -/
theorem poly2laurent_den_kept (thr : ℚ) (ps l : List ℚ) (h : poly2laurent thr ps = .ok l) :
    denL l (-(l.length : ℤ) + 1) =
      if thr < maxAbs (odds (poly2cheb false ps))
      then symm (denL ((odds (poly2cheb false ps)).map (· / 2)) 1)
      else symm (denL ((evens (poly2cheb false ps)).map (· / 2)) 0) := by
  unfold poly2laurent at h
  simp only [gt_iff_lt] at h
  by_cases hO : thr < maxAbs (odds (poly2cheb false ps))
  · by_cases hE : thr < maxAbs (evens (poly2cheb false ps))
    · simp [hO, hE] at h
    · simp only [hO, hE, decide_true, decide_false, Bool.false_and, Bool.false_eq_true,
        if_false, if_true] at h
      cases h
      rw [if_pos hO, denL_sym_odd]; rfl
  · simp only [hO, decide_false, Bool.and_false, Bool.false_eq_true, if_false] at h
    rw [if_neg hO]
    cases hl : (evens (poly2cheb false ps)).map (· / 2) with
    | nil =>
      rw [hl] at h
      cases h
      simp [symm]
    | cons l0 rest =>
      rw [hl] at h
      cases h
      rw [denL_sym_even]; rfl

/-- `poly2laurent` is exact when the coefficients it drops are exactly zero -/
theorem den_poly2laurent_of_dropped (thr : ℚ) (ps l : List ℚ) (h : poly2laurent thr ps = .ok l)
    (hdrop : ∀ c ∈ (if thr < maxAbs (odds (poly2cheb false ps))
      then evens (poly2cheb false ps) else odds (poly2cheb false ps)), c = 0) :
    denL l (-(l.length : ℤ) + 1) = Polynomial.aeval (cosW : ℚ[T;T⁻¹]) (toPoly ps) := by
  rw [poly2laurent_den_kept thr ps l h, aeval_cosW_toPoly]
  have hz : ∀ (m : List ℚ) (d : ℤ), (∀ c ∈ m, c = 0) → symm (denL (m.map (· / 2)) d) = 0 := by
    intro m d hm
    rw [symm, denL_eq_zero_of_forall]
    · simp
    · intro x hx
      obtain ⟨y, hy, rfl⟩ := List.mem_map.mp hx
      rw [hm y hy]; simp
  split
  · rename_i hO
    rw [if_pos hO] at hdrop
    rw [hz _ 0 hdrop, zero_add]
  · rename_i hO
    rw [if_neg hO] at hdrop
    rw [hz _ 1 hdrop, add_zero]

/-- the vector returned by `poly2laurent`, placed on the powers `-d, -d+2, …, d`, is exactly
    `p((w+1/w)/2)` when `p` has definite parity (and, for odd `p`, passes the threshold) -/
theorem den_poly2laurent (thr : ℚ) (ps l : List ℚ) (h : poly2laurent thr ps = .ok l)
    (hpar : (∀ c ∈ odds (poly2cheb false ps), c = 0) ∨
      ((∀ c ∈ evens (poly2cheb false ps), c = 0) ∧ thr < maxAbs (odds (poly2cheb false ps))))
    (hthr : 0 ≤ thr) :
    denL l (-(l.length : ℤ) + 1) = Polynomial.aeval (cosW : ℚ[T;T⁻¹]) (toPoly ps) := by
  apply den_poly2laurent_of_dropped thr ps l h
  rcases hpar with ho | ⟨he, hO⟩
  · rw [if_neg (by rw [maxAbs_eq_zero ho]; exact not_lt.mpr hthr)]
    exact ho
  · rw [if_pos hO]; exact he

theorem poly2laurent_refuses (thr : ℚ) (ps : List ℚ)
    (h1 : maxAbs (evens (poly2cheb false ps)) > thr)
    (h2 : maxAbs (odds (poly2cheb false ps)) > thr) :
    poly2laurent thr ps = .error .parity := by
  simp [poly2laurent, h1, h2]

end poly2laurent

/-! ### `polyToLaurentForm` -/

section polyToLaurentForm

theorem den_cosLP : den (LP.mk' [(1 / 2 : ℚ), 1 / 2] (-1)) = cosW := by
  rw [den_mk']
  simp only [denL_cons, denL_nil, add_zero, cosW]
  norm_num
  ring

theorem go_spec (cs : List ℚ) (k : ℕ) (pw acc p : LP ℚ) (hpw : pw.WF) (hacc : acc.WF)
    (h : polyToLaurentForm.go (1 / 2) cs k pw acc = .ok p) :
    den p = den acc + den pw * Polynomial.aeval (cosW : ℚ[T;T⁻¹]) (toPoly cs) ∧ p.WF := by
  induction cs generalizing k pw acc with
  | nil =>
    simp only [polyToLaurentForm.go] at h
    cases h
    exact ⟨by simp, hacc⟩
  | cons c rest ih =>
    simp only [polyToLaurentForm.go] at h
    have hnext := den_mul pw (LP.mk' [(1 / 2 : ℚ), 1 / 2] (-1)) hpw (WF_mk' _ _)
    rw [den_cosLP] at hnext
    have hA : Polynomial.aeval (cosW : ℚ[T;T⁻¹]) (toPoly (c :: rest)) =
        C c + cosW * Polynomial.aeval (cosW : ℚ[T;T⁻¹]) (toPoly rest) := by
      rw [toPoly_cons, map_add, map_mul, Polynomial.aeval_C, Polynomial.aeval_X,
        ← C_eq_algebraMap]
    split at h
    · rename_i hc
      obtain ⟨h1, h2⟩ := ih _ _ _ hnext.2 hacc h
      refine ⟨?_, h2⟩
      rw [h1, hnext.1, hA, hc]; simp; ring
    · cases hadd : acc.add (LP.smul c pw) with
      | error e => rw [hadd] at h; cases h
      | ok acc' =>
        rw [hadd] at h
        have hs := den_smul c pw hpw
        obtain ⟨g1, g2⟩ := add_ok hacc hs.2 hadd
        obtain ⟨h1, h2⟩ := ih _ _ _ hnext.2 g2 h
        refine ⟨?_, h2⟩
        rw [h1, g1, hs.1, hnext.1, hA]; ring

/-- whenever `polyToLaurentForm` returns, the result denotes `p((w+1/w)/2)` -/
theorem den_polyToLaurentForm (ps : List ℚ) (p : LP ℚ) (h : polyToLaurentForm ps = .ok p) :
    den p = Polynomial.aeval (cosW : ℚ[T;T⁻¹]) (toPoly ps) ∧ p.WF := by
  have := go_spec ps 0 (LP.mk' [1] 0) LP.zero p (WF_mk' _ _) den_zero.2 h
  rw [den_zero.1, den_mk'] at this
  simpa using this

end polyToLaurentForm

/-! ### when `polyToLaurentForm` returns -/

section totality
variable {R : Type} [CommRing R]

theorem add_eq_ok {p q r : LP R} (h : p.add q = .ok r) :
    (p.iszero = true ∧
      r = if q.iszero then LP.mk' [] q.dmin else LP.mk' q.coefs q.dmin) ∨
    (p.iszero = false ∧ q.iszero = true ∧ r = LP.mk' p.coefs p.dmin) ∨
    (p.iszero = false ∧ q.iszero = false ∧ p.parity = q.parity ∧
      ∃ a b : List R, r = LP.mk' (zipAdd a b) (min p.dmin q.dmin) ∧
        p.coefs.length ≤ a.length ∧ q.coefs.length ≤ b.length) := by
  unfold LP.add at h
  by_cases hpz : p.iszero = true
  · rw [if_pos hpz] at h; cases h; exact Or.inl ⟨hpz, rfl⟩
  rw [if_neg hpz] at h
  have hp0 : p.iszero = false := by simpa using hpz
  by_cases hqz : q.iszero = true
  · rw [if_pos hqz] at h; cases h; exact Or.inr (Or.inl ⟨hp0, hqz, rfl⟩)
  rw [if_neg hqz] at h
  have hq0 : q.iszero = false := by simpa using hqz
  by_cases hpar : p.parity = q.parity
  · rw [if_neg (by simpa using hpar)] at h
    have hA := aligned_nonzero hp0 (lo := min p.dmin q.dmin) (hi := max p.dmax q.dmax)
      (by omega) (by omega)
    have hB := aligned_nonzero hq0 (lo := min p.dmin q.dmin) (hi := max p.dmax q.dmax)
      (by omega) (by omega)
    dsimp only at h
    rw [hA, hB] at h
    cases h
    exact Or.inr (Or.inr ⟨hp0, hq0, hpar, _, _, rfl,
      by simp only [List.length_append]; omega, by simp only [List.length_append]; omega⟩)
  · rw [if_pos hpar] at h; cases h

theorem add_parity {p q r : LP R} (h : p.add q = .ok r) (π : ℤ)
    (hp : p.iszero = true ∨ p.parity = π) (hq : q.parity = π) : r.parity = π := by
  rcases add_eq_ok h with ⟨_, rfl⟩ | ⟨hp0, _, rfl⟩ | ⟨hp0, _, hpar, a, b, rfl, _, _⟩
  · unfold LP.parity at *; split <;> (rw [dmin_mk']; exact hq)
  · rcases hp with hp | hp
    · rw [hp0] at hp; cases hp
    · unfold LP.parity at *; rw [dmin_mk']; exact hp
  · rcases hp with hp | hp
    · rw [hp0] at hp; cases hp
    · unfold LP.parity at *; rw [dmin_mk']; omega

theorem add_iszero_false {p q r : LP R} (hp : p.WF) (hq : q.WF) (h : p.add q = .ok r)
    (hq0 : q.iszero = false) : r.iszero = false := by
  rcases add_eq_ok h with ⟨_, rfl⟩ | ⟨_, hq1, _⟩ | ⟨_, _, _, a, b, rfl, ha, hb⟩
  · rw [hq0, if_neg Bool.false_ne_true]; exact iszero_mk'_of_ne_nil hq.1 _
  · rw [hq0] at hq1; cases hq1
  · apply iszero_mk'_of_ne_nil
    intro hz
    have hlen := congrArg List.length hz
    simp only [zipAdd, List.length_zipWith, List.length_nil] at hlen
    have h1 := List.length_pos_of_ne_nil hp.1
    have h2 := List.length_pos_of_ne_nil hq.1
    omega

theorem addL_cons_ne_nil (a : List R) (y : R) (ys : List R) : addL a (y :: ys) ≠ [] := by
  cases a <;> simp [addL]

theorem convL_ne_nil_cheb {a : List R} (b : List R) (h : a ≠ []) : convL a b ≠ [] := by
  cases a with
  | nil => exact absurd rfl h
  | cons x xs => exact addL_cons_ne_nil _ _ _

/-- invariant of the running power `((w+1/w)/2)^k` in `polyToLaurentForm` -/
def PwInv (k : ℕ) (pw : LP ℚ) : Prop := pw.WF ∧ pw.iszero = false ∧ pw.dmin = -(k : ℤ)

theorem pwInv_zero : PwInv 0 (LP.mk' [1] 0) := ⟨WF_mk' _ _, by simp [LP.mk'], by simp [LP.mk']⟩

theorem pwInv_next {k : ℕ} {pw : LP ℚ} (h : PwInv k pw) :
    PwInv (k + 1) (pw.mul (LP.mk' [(1 / 2 : ℚ), 1 / 2] (-1))) := by
  obtain ⟨h1, h2, h3⟩ := h
  have hq : (LP.mk' [(1 / 2 : ℚ), 1 / 2] (-1)).iszero = false := by simp [LP.mk']
  have hm : pw.mul (LP.mk' [(1 / 2 : ℚ), 1 / 2] (-1)) =
      LP.mk' (convL pw.coefs (LP.mk' [(1 / 2 : ℚ), 1 / 2] (-1)).coefs)
        (pw.dmin + (LP.mk' [(1 / 2 : ℚ), 1 / 2] (-1)).dmin) := by
    simp only [LP.mul, h2, hq, Bool.or_false, Bool.false_eq_true, if_false]
  rw [hm]
  refine ⟨WF_mk' _ _, iszero_mk'_of_ne_nil (convL_ne_nil_cheb _ h1.1) _, ?_⟩
  rw [dmin_mk', dmin_mk', h3]; push_cast; ring

theorem smul_of_pwInv {k : ℕ} {pw : LP ℚ} (c : ℚ) (h : PwInv k pw) :
    (LP.smul c pw).WF ∧ (LP.smul c pw).iszero = false ∧
      (LP.smul c pw).parity = (-(k : ℤ)) % 2 := by
  obtain ⟨h1, h2, h3⟩ := h
  have hm : LP.smul c pw = LP.mk' (pw.coefs.map (c * ·)) pw.dmin := by simp [LP.smul, h2]
  rw [hm]
  refine ⟨WF_mk' _ _, iszero_mk'_of_ne_nil (by simpa using h1.1) _, ?_⟩
  unfold LP.parity
  rw [dmin_mk', h3]

theorem go_returns (cs : List ℚ) (k : ℕ) (pw acc : LP ℚ) (hpw : PwInv k pw) (hacc : acc.WF)
    (π : ℤ) (hπ : acc.iszero = true ∨ acc.parity = π)
    (hcs : ∀ i, cs.getD i 0 ≠ 0 → (-((k + i : ℕ) : ℤ)) % 2 = π) :
    ∃ p, polyToLaurentForm.go (1 / 2) cs k pw acc = .ok p := by
  induction cs generalizing k pw acc with
  | nil => exact ⟨acc, by simp only [polyToLaurentForm.go]⟩
  | cons c rest ih =>
    simp only [polyToLaurentForm.go]
    have hshift : ∀ i, rest.getD i 0 ≠ 0 → (-((k + 1 + i : ℕ) : ℤ)) % 2 = π := by
      intro i hi
      have := hcs (i + 1) (by simpa using hi)
      rw [show k + 1 + i = k + (i + 1) by ring]; exact this
    split
    · exact ih (k + 1) _ _ (pwInv_next hpw) hacc hπ hshift
    · rename_i hc
      have hk := hcs 0 (by simpa using hc)
      rw [Nat.add_zero] at hk
      obtain ⟨s1, s2, s3⟩ := smul_of_pwInv c hpw
      have hg : acc.iszero = true ∨ (LP.smul c pw).iszero = true ∨
          acc.parity = (LP.smul c pw).parity := by
        rcases hπ with h | h
        · exact Or.inl h
        · exact Or.inr (Or.inr (by rw [h, s3, hk]))
      obtain ⟨r, hr, _, hrwf⟩ := den_add acc (LP.smul c pw) hacc s1 hg
      rw [hr]
      exact ih (k + 1) _ r (pwInv_next hpw) hrwf
        (Or.inr (add_parity hr π hπ (s3.trans hk))) hshift

theorem go_refuses_aux (cs : List ℚ) (k : ℕ) (pw acc : LP ℚ) (hpw : PwInv k pw) (hacc : acc.WF)
    (hz : acc.iszero = false) (m : ℕ) (hm : cs.getD m 0 ≠ 0)
    (hpar : (-((k + m : ℕ) : ℤ)) % 2 ≠ acc.parity) :
    polyToLaurentForm.go (1 / 2) cs k pw acc = .error .parity := by
  induction cs generalizing k pw acc m with
  | nil => simp at hm
  | cons c rest ih =>
    simp only [polyToLaurentForm.go]
    split
    · rename_i hc
      have hm0 : m ≠ 0 := by
        rintro rfl
        exact hm (by simpa using hc)
      obtain ⟨m', rfl⟩ : ∃ m', m = m' + 1 := ⟨m - 1, by omega⟩
      apply ih (k + 1) _ _ (pwInv_next hpw) hacc hz m' (by simpa using hm)
      rw [show k + 1 + m' = k + (m' + 1) by ring]; exact hpar
    · obtain ⟨s1, s2, s3⟩ := smul_of_pwInv c hpw
      by_cases hk : (-(k : ℤ)) % 2 = acc.parity
      · obtain ⟨r, hr, _, hrwf⟩ := den_add acc (LP.smul c pw) hacc s1
          (Or.inr (Or.inr (hk.symm.trans s3.symm)))
        rw [hr]
        have hm0 : m ≠ 0 := by
          rintro rfl
          exact hpar (by simpa using hk)
        obtain ⟨m', rfl⟩ : ∃ m', m = m' + 1 := ⟨m - 1, by omega⟩
        apply ih (k + 1) _ r (pwInv_next hpw) hrwf (add_iszero_false hacc s1 hr s2) m'
          (by simpa using hm)
        rw [add_parity hr acc.parity (Or.inr rfl) (s3.trans hk),
          show k + 1 + m' = k + (m' + 1) by ring]
        exact hpar
      · rw [add_refuses acc (LP.smul c pw) hz s2 (by rw [s3]; exact Ne.symm hk)]

theorem go_refuses (cs : List ℚ) (k : ℕ) (pw acc : LP ℚ) (hpw : PwInv k pw)
    (hz : acc.iszero = true) (i j : ℕ) (hi : cs.getD i 0 ≠ 0) (hj : cs.getD j 0 ≠ 0)
    (hij : (i + j) % 2 = 1) :
    polyToLaurentForm.go (1 / 2) cs k pw acc = .error .parity := by
  induction cs generalizing k pw acc i j with
  | nil => simp at hi
  | cons c rest ih =>
    simp only [polyToLaurentForm.go]
    split
    · rename_i hc
      have hi0 : i ≠ 0 := by
        rintro rfl
        exact hi (by simpa using hc)
      have hj0 : j ≠ 0 := by
        rintro rfl
        exact hj (by simpa using hc)
      obtain ⟨i', rfl⟩ : ∃ i', i = i' + 1 := ⟨i - 1, by omega⟩
      obtain ⟨j', rfl⟩ : ∃ j', j = j' + 1 := ⟨j - 1, by omega⟩
      exact ih (k + 1) _ _ (pwInv_next hpw) hz i' j' (by simpa using hi) (by simpa using hj)
        (by omega)
    · obtain ⟨s1, s2, s3⟩ := smul_of_pwInv c hpw
      have hr : acc.add (LP.smul c pw) =
          .ok (LP.mk' (LP.smul c pw).coefs (LP.smul c pw).dmin) := by
        simp [LP.add, hz, s2]
      rw [hr]
      have hrpar : (LP.mk' (LP.smul c pw).coefs (LP.smul c pw).dmin).parity = (-(k : ℤ)) % 2 := by
        rw [← s3]; unfold LP.parity; rw [dmin_mk']
      -- the index among `i, j` that is odd
      obtain ⟨m, hm, hmodd⟩ : ∃ m, (c :: rest).getD m 0 ≠ 0 ∧ m % 2 = 1 := by
        by_cases h : i % 2 = 1
        · exact ⟨i, hi, h⟩
        · exact ⟨j, hj, by omega⟩
      obtain ⟨m', rfl⟩ : ∃ m', m = m' + 1 := ⟨m - 1, by omega⟩
      apply go_refuses_aux rest (k + 1) _ _ (pwInv_next hpw) (WF_mk' _ _)
        (iszero_mk'_of_ne_nil s1.1 _) m' (by simpa using hm)
      rw [hrpar]
      push_cast
      omega

/-- `polyToLaurentForm` returns when all nonzero monomial coefficients sit at indices of one
    parity … -/
theorem polyToLaurentForm_returns (ps : List ℚ) (π : ℕ)
    (h : ∀ i, ps.getD i 0 ≠ 0 → i % 2 = π) : ∃ p, polyToLaurentForm ps = .ok p := by
  apply go_returns ps 0 _ _ pwInv_zero den_zero.2 ((-(π : ℤ)) % 2)
    (Or.inl (by simp [LP.zero, LP.mk']))
  intro i hi
  have := h i hi
  push_cast
  omega

/-- … and returns the parity error when nonzero coefficients occur at an even and at an odd
    index -/
theorem polyToLaurentForm_refuses (ps : List ℚ) (i j : ℕ) (hi : ps.getD i 0 ≠ 0)
    (hj : ps.getD j 0 ≠ 0) (hij : (i + j) % 2 = 1) :
    polyToLaurentForm ps = .error .parity :=
  go_refuses ps 0 _ _ pwInv_zero (by simp [LP.zero, LP.mk']) i j hi hj hij

end totality

end QSP

/-! ### NumPy's trailing-zero trimming in front of `poly2laurent` -/
namespace QSP

theorem exists_eq_trim_append (l : List ℚ) :
    ∃ k, l = (l.reverse.dropWhile (· == 0)).reverse ++ zeros k := by
  have h := List.takeWhile_append_dropWhile (p := (· == (0 : ℚ))) (l := l.reverse)
  have hz : ∀ x ∈ (l.reverse.takeWhile (· == (0 : ℚ))), x = 0 := by
    intro x hx
    have := List.mem_takeWhile_imp hx
    simpa using this
  refine ⟨(l.reverse.takeWhile (· == (0 : ℚ))).length, ?_⟩
  have h2 : l = (l.reverse.dropWhile (· == 0)).reverse ++ (l.reverse.takeWhile (· == (0 : ℚ))).reverse := by
    have := congrArg List.reverse h
    rw [List.reverse_append, List.reverse_reverse] at this
    exact this.symm
  have h3 : (l.reverse.takeWhile (· == (0 : ℚ))).reverse = zeros (l.reverse.takeWhile (· == (0 : ℚ))).length := by
    have : l.reverse.takeWhile (· == (0 : ℚ)) = List.replicate (l.reverse.takeWhile (· == (0 : ℚ))).length 0 :=
      List.eq_replicate_iff.mpr ⟨rfl, hz⟩
    unfold zeros
    rw [← List.reverse_replicate, ← this]
  rw [← h3]; exact h2

theorem toPoly_trimZeros (l : List ℚ) : toPoly (trimZeros l) = toPoly l := by
  obtain ⟨k, hk⟩ := exists_eq_trim_append l
  unfold trimZeros
  split
  · next heq =>
    -- everything was zero: `l = zeros k`
    rw [heq] at hk
    simp only [List.nil_append] at hk
    rw [hk]
    cases k with
    | zero => simp [zeros]
    | succ k =>
      have : (zeros (k + 1) : List ℚ).take 1 = zeros 1 := by simp [zeros, List.replicate_succ]
      rw [this, toPoly_zeros, toPoly_zeros]
  · next t ht =>
    conv_rhs => rw [hk]
    rw [toPoly_append_zeros]

/-- the routine as the code runs it (NumPy trims trailing zeros first): the returned vector,
    placed on powers `-d..d`, is exactly `p((w + 1/w)/2)` -/
theorem den_poly2laurentNp (thr : ℚ) (ps l : List ℚ) (h : poly2laurentNp thr ps = .ok l)
    (hdrop : ∀ c ∈ (if thr < maxAbs (odds (poly2cheb false (trimZeros ps)))
      then evens (poly2cheb false (trimZeros ps)) else odds (poly2cheb false (trimZeros ps))), c = 0) :
    denL l (-(l.length : ℤ) + 1) = Polynomial.aeval (cosW : ℚ[T;T⁻¹]) (toPoly ps) := by
  rw [← toPoly_trimZeros ps]
  exact den_poly2laurent_of_dropped thr (trimZeros ps) l h hdrop

end QSP

/-
  Property C12 (Jacobian clause), algorithm level — ring-hom naturality of the model
  `JacImpl.jacImplPt`: the list computed over `R`, mapped by a ring homomorphism `f : R →+* S`,
  is the list computed over `S` at the mapped inputs.  With `f = Rat.castHom ℝ`: what the driver
  computes at rational inputs, cast to `ℝ`, IS the real model at the cast inputs.
-/
import QSP.Model.JacImpl
import Mathlib.Algebra.Ring.Hom.Defs
import Mathlib.Data.List.GetD
import Mathlib.Tactic.Ring

namespace QSP
namespace JacImpl
variable {R S : Type} [CommRing R] [CommRing S] (f : R →+* S)

/-- a 3-vector mapped componentwise -/
def m3 (v : V3 R) : V3 S := (f v.1, f v.2.1, f v.2.2)
/-- a 3×3 matrix mapped entrywise -/
def mM (M : Mat3 R) : Mat3 S := (m3 f M.1, m3 f M.2.1, m3 f M.2.2)

theorem m3_vecMat (w : V3 R) (M : Mat3 R) : m3 f (vecMat w M) = vecMat (m3 f w) (mM f M) := by
  simp only [vecMat, m3, mM, map_add, map_mul]

theorem m3_matVec (M : Mat3 R) (v : V3 R) : m3 f (matVec M v) = matVec (mM f M) (m3 f v) := by
  simp only [matVec, m3, mM, map_add, map_mul]

theorem map_dot (w v : V3 R) : f (dot w v) = dot (m3 f w) (m3 f v) := by
  simp only [dot, m3, map_add, map_mul]

theorem map_two : f (two : R) = (two : S) := by
  simp only [two, map_add, map_one]

theorem m3_dbl3 (w : V3 R) : m3 f (dbl3 w) = dbl3 (m3 f w) := by
  simp only [dbl3, m3, map_mul, map_two]

theorem mM_rzMat (p : R × R) : mM f (rzMat p) = rzMat (Prod.map f f p) := by
  simp only [rzMat, mM, m3, Prod.map, map_neg, map_zero, map_one]

theorem mM_dMat (p : R × R) : mM f (dMat p) = dMat (Prod.map f f p) := by
  simp only [dMat, mM, m3, Prod.map, map_neg, map_zero]

theorem mM_bMat (c2 s2 : R) : mM f (bMat c2 s2) = bMat (f c2) (f s2) := by
  simp only [bMat, mM, m3, map_neg, map_zero, map_one]

theorem m3_e2 : m3 f ((0, 1, 0) : V3 R) = (0, 1, 0) := by simp only [m3, map_zero, map_one]
theorem m3_z3 : m3 f ((0, 0, 0) : V3 R) = (0, 0, 0) := by simp only [m3, map_zero]
theorem m3_e1 : m3 f ((1, 0, 0) : V3 R) = (1, 0, 0) := by simp only [m3, map_zero, map_one]
theorem pm_10 : Prod.map f f ((1, 0) : R × R) = (1, 0) := by simp only [Prod.map, map_zero, map_one]

theorem headD_map' {α β : Type} (g : α → β) (l : List α) (d : α) :
    (l.map g).headD (g d) = g (l.headD d) := by
  cases l <;> rfl

theorem lRows_map (B : Mat3 R) (qs : List (R × R)) :
    (lRows B qs).map (m3 f) = lRows (mM f B) (qs.map (Prod.map f f)) := by
  induction qs with
  | nil => simp only [lRows, List.map_cons, List.map_nil, m3_e2]
  | cons q qs ih =>
    simp only [lRows, List.map_cons, m3_vecMat, mM_rzMat, ← ih]
    rw [← m3_e2 f, headD_map']

theorem rCols_map (B : Mat3 R) (v : V3 R) (ps : List (R × R)) :
    (rCols B v ps).map (m3 f) = rCols (mM f B) (m3 f v) (ps.map (Prod.map f f)) := by
  induction ps generalizing v with
  | nil => rfl
  | cons p ps ih => simp only [rCols, List.map_cons, ih, m3_matVec, mM_rzMat]

theorem jacImplCore_map (B : Mat3 R) (r0 : V3 R) (pairs2 : List (R × R)) :
    (jacImplCore B r0 pairs2).map f
      = jacImplCore (mM f B) (m3 f r0) (pairs2.map (Prod.map f f)) := by
  have hL : ∀ k, (lRows (mM f B) (pairs2.map (Prod.map f f)).tail).getD k (0, 1, 0)
      = m3 f ((lRows B pairs2.tail).getD k (0, 1, 0)) := by
    intro k
    rw [← List.map_tail, ← lRows_map, ← m3_e2 f, List.getD_map]
  have hR : ∀ k, (rCols (mM f B) (m3 f r0) (pairs2.map (Prod.map f f))).getD k (0, 0, 0)
      = m3 f ((rCols B r0 pairs2).getD k (0, 0, 0)) := by
    intro k
    rw [← rCols_map, ← m3_z3 f, List.getD_map]
  have hP : ∀ k, (pairs2.map (Prod.map f f)).getD k (1, 0)
      = Prod.map f f (pairs2.getD k (1, 0)) := by
    intro k
    rw [← pm_10 f, List.getD_map]
  simp only [jacImplCore, List.map_append, List.map_map, List.map_cons, List.map_nil,
    List.length_map, hL, hR, hP, ← mM_rzMat, ← mM_dMat, ← m3_dbl3, ← m3_vecMat, ← map_dot]
  rfl

/-- ring-hom naturality of `gen_poly_jacobian_components` -/
theorem jacImplPt_map (par : ℕ) (pairs2 : List (R × R)) (ct st : R) :
    (jacImplPt par pairs2 ct st).map f
      = jacImplPt par (pairs2.map (Prod.map f f)) (f ct) (f st) := by
  unfold jacImplPt
  rw [List.length_map]
  split_ifs with h0 hp
  · rfl
  · rw [jacImplCore_map, mM_bMat, m3_e1]
    simp only [map_sub, map_mul, map_two]
  · rw [jacImplCore_map, mM_bMat]
    simp only [map_sub, map_mul, map_two, m3, map_zero]

end JacImpl
end QSP

/-
  Property C10: the executable model of `ComputeQSPResponse` (`QSP/Model/Response.lean`)
  against the mathematical definition of the response (`QSP/Proofs/RespDef.lean`), the
  relation between the Wx and Wz conventions, unitarity, and the soundness of the
  enclosure `respBall` (`QSP/Model/Ball.lean`).
-/
import QSP.Model.Ball
import QSP.Proofs.RespDef
import QSP.Proofs.Trig
import QSP.Proofs.Ball
import QSP.Proofs.L2Kit
import Mathlib.Tactic.Abel
import Mathlib.Tactic.Push

set_option linter.unusedSectionVars false
set_option linter.unusedSimpArgs false

open Matrix Complex
open scoped Matrix.Norms.L2Operator
namespace QSP

/-! ## the model for valid names, as pure functions (any coefficient type) -/

section generic
variable {R : Type} [Zero R] [One R] [Add R] [Mul R] [Neg R]

theorem bracket_x (half : R) (U : M2 R) :
    bracket half (some "x") U = .ok (half * (((U.a + U.b) + U.c) + U.d)) := rfl

theorem bracket_z (half : R) (U : M2 R) : bracket half (some "z") U = .ok U.a := rfl

theorem bracket_other (half : R) (m : String) (h1 : m ≠ "x") (h2 : m ≠ "z") (U : M2 R) :
    bracket half (some m) U = .error .response := by
  unfold bracket
  split
  · simp_all
  · simp_all
  · rfl

theorem mapM_ok {α β : Type} (f : α → Except Err β) (g : α → β) (hf : ∀ x, f x = .ok (g x))
    (l : List α) : l.mapM f = .ok (l.map g) := by
  induction l with
  | nil => rfl
  | cons x xs ih => rw [List.mapM_cons, hf, ih]; rfl

/-- the signal operator for a valid name -/
def sigM (ι half : R) (so : SigOp) (a b : R) : M2 R :=
  match so with
  | .Wx => sigX ι a b
  | .Wz => hconj half (sigX ι a b)

/-- the phase operator for a valid name -/
def phM (ι half : R) (so : SigOp) (cs : R × R) : M2 R :=
  match so with
  | .Wx => phaseZ ι cs
  | .Wz => hconj half (phaseZ ι cs)

theorem sigOp_name (ι half : R) (so : SigOp) (a b : R) :
    sigOp ι half so.name a b = .ok (sigM ι half so a b) := by
  cases so <;> simp [sigOp, SigOp.name, sigM]

theorem qspOp_name (ι half : R) (so : SigOp) (cs : R × R) :
    qspOp ι half so.name cs = .ok (phM ι half so cs) := by
  cases so <;> simp [qspOp, SigOp.name, phM]

theorem defaultMeas_name (so : SigOp) (me : Option Meas) :
    defaultMeas so.name (me.map Meas.name) = some (me.getD so.defaultMeas).name := by
  cases so <;> cases me <;> simp [defaultMeas, SigOp.name, SigOp.defaultMeas, Meas.name]

theorem response_name (ι half : R) (so : SigOp) (meas : Option String) (p : R × R)
    (ps : List (R × R)) (a b : R) :
    response ι half so.name meas (p :: ps) a b
      = bracket half (defaultMeas so.name meas)
          (respProd (sigM ι half so a b) (phM ι half so p) (ps.map (phM ι half so))) := by
  unfold response
  rw [sigOp_name, mapM_ok _ _ (qspOp_name ι half so)]
  rfl

/-- an unknown signal-operator name is refused -/
theorem response_refuses_so (ι half : R) (so : String) (h1 : so ≠ "Wx") (h2 : so ≠ "Wz")
    (meas : Option String) (phases : List (R × R)) (a b : R) :
    response ι half so meas phases a b = .error .response := by
  simp only [response, sigOp, h1, h2, if_false]
  rfl

/-- an unknown measurement name is refused -/
theorem response_refuses_meas (ι half : R) (so : SigOp) (m : String) (hm1 : m ≠ "x")
    (hm2 : m ≠ "z") (phases : List (R × R)) (hp : phases ≠ []) (a b : R) :
    response ι half so.name (some m) phases a b = .error .response := by
  cases phases with
  | nil => exact absurd rfl hp
  | cons p ps =>
    rw [response_name]
    exact bracket_other half m hm1 hm2 _

/-- the empty phase list is an error (the code raises `IndexError`) -/
theorem response_nil (ι half : R) (so : SigOp) (meas : Option String) (a b : R) :
    response ι half so.name meas [] a b = .error .other := by
  unfold response
  rw [sigOp_name]
  rfl

end generic

/-! ## from the model's 2×2 structures to complex matrices -/

section bridge
variable {R : Type} [Zero R] [One R] [Add R] [Mul R] [Neg R]

/-- maps into `ℂ` preserving the operations the model uses -/
structure HomLike (f : R → ℂ) : Prop where
  zero : f 0 = 0
  one : f 1 = 1
  add : ∀ x y, f (x + y) = f x + f y
  mul : ∀ x y, f (x * y) = f x * f y
  neg : ∀ x, f (-x) = -f x

theorem homLike_id : HomLike (fun z : ℂ => z) := ⟨rfl, rfl, fun _ _ => rfl, fun _ _ => rfl,
  fun _ => rfl⟩

noncomputable def toM22 (f : R → ℂ) (m : M2 R) : M22 := !![f m.a, f m.b; f m.c, f m.d]

/-- `√2 ·` Hadamard -/
noncomputable def had2 : M22 := !![1, 1; 1, -1]

theorem HadMat_eq : HadMat = ((1 / Real.sqrt 2 : ℝ) : ℂ) • had2 := rfl

theorem had_conj_eq (M : M22) : HadMat * M * HadMat = (1 / 2 : ℂ) • (had2 * M * had2) := by
  rw [HadMat_eq, Matrix.smul_mul, Matrix.smul_mul, Matrix.mul_smul, smul_smul, inv_sqrt_two_sq]

variable {f : R → ℂ}

theorem toM22_mul (hf : HomLike f) (x y : M2 R) :
    toM22 f (x.mul y) = toM22 f x * toM22 f y := by
  apply Matrix.ext; intro i j
  fin_cases i <;> fin_cases j <;>
    simp [toM22, M2.mul, Matrix.mul_apply, Fin.sum_univ_two, hf.add, hf.mul]

theorem toM22_had (hf : HomLike f) : toM22 f (M2.had : M2 R) = had2 := by
  apply Matrix.ext; intro i j
  fin_cases i <;> fin_cases j <;> simp [toM22, M2.had, had2, hf.one, hf.neg]

theorem toM22_scale (hf : HomLike f) (k : R) (m : M2 R) :
    toM22 f (M2.scale k m) = f k • toM22 f m := by
  apply Matrix.ext; intro i j
  fin_cases i <;> fin_cases j <;> simp [toM22, M2.scale, hf.mul]

theorem toM22_hconj (hf : HomLike f) (half : R) (hh : f half = 1 / 2) (m : M2 R) :
    toM22 f (hconj half m) = HadMat * toM22 f m * HadMat := by
  rw [had_conj_eq, hconj, toM22_scale hf, toM22_mul hf, toM22_mul hf, toM22_had hf, hh]

/-- Hadamard conjugation for the Wz convention, nothing for Wx -/
noncomputable def conjH : SigOp → M22 → M22
  | .Wx, M => M
  | .Wz, M => HadMat * M * HadMat

/-- generic signal operator from `(a, b)` -/
noncomputable def sigG (so : SigOp) (a b : ℂ) : M22 := conjH so (rotC a b)

/-- generic phase operator from `(c, s)` -/
noncomputable def phaseG (so : SigOp) (cs : ℂ × ℂ) : M22 := conjH so (diagC cs.1 cs.2)

/-- the product of the definition with generic factors -/
noncomputable def UG (so : SigOp) (a b : ℂ) : List (ℂ × ℂ) → M22
  | [] => 1
  | p :: ps => ps.foldl (fun U q => U * sigG so a b * phaseG so q) (phaseG so p)

/-- the bracket `<m|U|m>` -/
noncomputable def brG (me : Meas) (U : M22) : ℂ := ketDef me ⬝ᵥ (U *ᵥ ketDef me)

theorem toM22_sigX (hf : HomLike f) (ι : R) (hι : f ι = I) (a b : R) :
    toM22 f (sigX ι a b) = rotC (f a) (f b) := by
  apply Matrix.ext; intro i j
  fin_cases i <;> fin_cases j <;> simp [toM22, sigX, rotC, hf.mul, hι]

theorem toM22_phaseZ (hf : HomLike f) (ι : R) (hι : f ι = I) (cs : R × R) :
    toM22 f (phaseZ ι cs) = diagC (f cs.1) (f cs.2) := by
  apply Matrix.ext; intro i j
  fin_cases i <;> fin_cases j <;>
    simp [toM22, phaseZ, diagC, hf.mul, hf.add, hf.neg, hf.zero, hι, sub_eq_add_neg]

theorem toM22_sigM (hf : HomLike f) (ι half : R) (hι : f ι = I) (hh : f half = 1 / 2)
    (so : SigOp) (a b : R) : toM22 f (sigM ι half so a b) = sigG so (f a) (f b) := by
  cases so
  · exact toM22_sigX hf ι hι a b
  · simp only [sigM, sigG, conjH]; rw [toM22_hconj hf half hh, toM22_sigX hf ι hι]

theorem toM22_phM (hf : HomLike f) (ι half : R) (hι : f ι = I) (hh : f half = 1 / 2)
    (so : SigOp) (cs : R × R) : toM22 f (phM ι half so cs) = phaseG so (f cs.1, f cs.2) := by
  cases so
  · exact toM22_phaseZ hf ι hι cs
  · simp only [phM, phaseG, conjH]; rw [toM22_hconj hf half hh, toM22_phaseZ hf ι hι]

theorem toM22_respProd (hf : HomLike f) (W U : M2 R) (Ps : List (M2 R)) :
    toM22 f (respProd W U Ps)
      = Ps.foldl (fun V P => V * toM22 f W * toM22 f P) (toM22 f U) := by
  induction Ps generalizing U with
  | nil => rfl
  | cons P Ps ih =>
    simp only [respProd, List.foldl_cons]
    rw [ih, toM22_mul hf, toM22_mul hf]

theorem brG_z (U : M22) : brG .z U = U 0 0 := by
  simp [brG, ketDef, dotProduct, mulVec, Fin.sum_univ_two]

theorem brG_x (U : M22) : brG .x U = (1 / 2 : ℂ) * (((U 0 0 + U 0 1) + U 1 0) + U 1 1) := by
  have h := inv_sqrt_two_sq
  simp only [brG, ketDef, dotProduct, mulVec, Fin.sum_univ_two, Pi.smul_apply, smul_eq_mul,
    Matrix.cons_val_zero, Matrix.cons_val_one]
  generalize ((1 / Real.sqrt 2 : ℝ) : ℂ) = k at h ⊢
  linear_combination (((U 0 0 + U 0 1) + U 1 0) + U 1 1) * h

theorem bracket_toC (hf : HomLike f) (half : R) (hh : f half = 1 / 2) (me : Meas) (U : M2 R) :
    ∃ r, bracket half (some me.name) U = .ok r ∧ f r = brG me (toM22 f U) := by
  cases me
  · refine ⟨_, bracket_x half U, ?_⟩
    rw [brG_x, hf.mul, hf.add, hf.add, hf.add, hh]
    simp [toM22]
  · refine ⟨_, bracket_z half U, ?_⟩
    rw [brG_z]
    simp [toM22]

/-- the model run over `R`, mapped to `ℂ`, is the bracket of the generic product -/
theorem response_toC (hf : HomLike f) (ι half : R) (hι : f ι = I) (hh : f half = 1 / 2)
    (so : SigOp) (me : Option Meas) (p : R × R) (ps : List (R × R)) (a b : R) :
    ∃ r, response ι half so.name (me.map Meas.name) (p :: ps) a b = .ok r ∧
      f r = brG (me.getD so.defaultMeas)
        (UG so (f a) (f b) ((p :: ps).map (fun q : R × R => (f q.1, f q.2)))) := by
  rw [response_name, defaultMeas_name]
  obtain ⟨r, h1, h2⟩ := bracket_toC hf half hh (me.getD so.defaultMeas)
    (respProd (sigM ι half so a b) (phM ι half so p) (ps.map (phM ι half so)))
  refine ⟨r, h1, ?_⟩
  rw [h2, toM22_respProd hf, toM22_sigM hf ι half hι hh, toM22_phM hf ι half hι hh]
  simp only [UG, List.map_cons, List.foldl_map]
  congr 1
  apply List.foldl_ext
  intro V q _
  rw [toM22_phM hf ι half hι hh]

end bridge

/-! ## the generic product at the true cosines / sines is the definition -/

theorem sigG_eq_sigDef (so : SigOp) (a : ℝ) :
    sigG so (a : ℂ) ((Real.sqrt (1 - a ^ 2) : ℝ) : ℂ) = sigDef so a := by
  cases so <;> rfl

theorem phaseG_eq_phaseDef (so : SigOp) (φ : ℝ) :
    phaseG so (((Real.cos φ : ℝ) : ℂ), ((Real.sin φ : ℝ) : ℂ)) = phaseDef so φ := by
  cases so <;> simp only [phaseG, conjH, phaseDef, PzMat_eq]

theorem UG_eq_Udef (so : SigOp) (a : ℝ) (φs : List ℝ) :
    UG so (a : ℂ) ((Real.sqrt (1 - a ^ 2) : ℝ) : ℂ)
      (φs.map (fun φ : ℝ => (((Real.cos φ : ℝ) : ℂ), ((Real.sin φ : ℝ) : ℂ)))) = Udef so a φs := by
  cases φs with
  | nil => rfl
  | cons φ φs =>
    simp only [UG, Udef, List.map_cons, List.foldl_map, sigG_eq_sigDef, phaseG_eq_phaseDef]

/-- Item 1: the executable model, run at `ℂ` on the true cosines and sines, is the documented
    product and bracket -/
theorem response_eq_def (so : SigOp) (me : Option Meas) (φs : List ℝ) (hφ : φs ≠ []) (a : ℝ) :
    response (R := ℂ) Complex.I (1 / 2) so.name (me.map Meas.name)
      (φs.map (fun φ : ℝ => (((Real.cos φ : ℝ) : ℂ), ((Real.sin φ : ℝ) : ℂ))))
      (a : ℂ) ((Real.sqrt (1 - a ^ 2) : ℝ) : ℂ)
      = .ok (respDef so (me.getD so.defaultMeas) φs a) := by
  cases φs with
  | nil => exact absurd rfl hφ
  | cons φ φs =>
    obtain ⟨r, h1, h2⟩ := response_toC homLike_id Complex.I (1 / 2) rfl rfl so me
      (((Real.cos φ : ℝ) : ℂ), ((Real.sin φ : ℝ) : ℂ))
      (φs.map (fun φ : ℝ => (((Real.cos φ : ℝ) : ℂ), ((Real.sin φ : ℝ) : ℂ))))
      (a : ℂ) ((Real.sqrt (1 - a ^ 2) : ℝ) : ℂ)
    rw [List.map_cons, h1]
    simp only [List.map_id'] at h2
    rw [← List.map_cons (f := fun φ : ℝ => (((Real.cos φ : ℝ) : ℂ), ((Real.sin φ : ℝ) : ℂ))),
      UG_eq_Udef] at h2
    rw [h2]; rfl

/-! ## Wx and Wz conventions -/

theorem had_cancel (Y : M22) : HadMat * (HadMat * Y) = Y := by
  rw [← Matrix.mul_assoc, HadMat_mul_self, Matrix.one_mul]

theorem foldl_Wz (a : ℝ) (φs : List ℝ) (X : M22) :
    φs.foldl (fun U ψ => U * sigDef .Wz a * phaseDef .Wz ψ) (HadMat * X * HadMat)
      = HadMat * φs.foldl (fun U ψ => U * sigDef .Wx a * phaseDef .Wx ψ) X * HadMat := by
  induction φs generalizing X with
  | nil => rfl
  | cons φ φs ih =>
    simp only [List.foldl_cons]
    rw [← ih]
    congr 1
    simp only [sigDef, phaseDef, Matrix.mul_assoc, had_cancel]

/-- Item 3: the Wz product is the Hadamard conjugate of the Wx product -/
theorem Udef_Wz (a : ℝ) (φs : List ℝ) : Udef .Wz a φs = HadMat * Udef .Wx a φs * HadMat := by
  cases φs with
  | nil => simp only [Udef, Matrix.mul_one, HadMat_mul_self]
  | cons φ φs =>
    simp only [Udef]
    rw [← foldl_Wz]
    rfl

theorem had2_conj (M : M22) : had2 * M * had2
    = !![M 0 0 + M 0 1 + M 1 0 + M 1 1, M 0 0 - M 0 1 + M 1 0 - M 1 1;
         M 0 0 + M 0 1 - M 1 0 - M 1 1, M 0 0 - M 0 1 - M 1 0 + M 1 1] := by
  apply Matrix.ext; intro i j
  fin_cases i <;> fin_cases j <;>
    simp [had2, Matrix.mul_apply, Fin.sum_univ_two, vecMul, dotProduct] <;> ring

theorem brG_z_had (M : M22) : brG .z (HadMat * M * HadMat) = brG .x M := by
  rw [brG_z, brG_x, had_conj_eq, had2_conj]
  simp

theorem brG_x_had (M : M22) : brG .x (HadMat * M * HadMat) = brG .z M := by
  rw [brG_z, brG_x, had_conj_eq, had2_conj]
  simp
  ring

theorem respDef_eq_brG (so : SigOp) (me : Meas) (φs : List ℝ) (a : ℝ) :
    respDef so me φs a = brG me (Udef so a φs) := rfl

theorem resp_Wx_x_eq_Wz_z (φs : List ℝ) (a : ℝ) : respDef .Wx .x φs a = respDef .Wz .z φs a := by
  rw [respDef_eq_brG, respDef_eq_brG, Udef_Wz, brG_z_had]

theorem resp_Wz_x_eq_Wx_z (φs : List ℝ) (a : ℝ) : respDef .Wz .x φs a = respDef .Wx .z φs a := by
  rw [respDef_eq_brG, respDef_eq_brG, Udef_Wz, brG_x_had]

/-! ## unitarity -/

theorem unitary_mul (A B : M22) (hA : Aᴴ * A = 1) (hB : Bᴴ * B = 1) :
    (A * B)ᴴ * (A * B) = 1 := by
  rw [Matrix.conjTranspose_mul, Matrix.mul_assoc, ← Matrix.mul_assoc Aᴴ, hA, Matrix.one_mul, hB]

theorem HadMat_unitary : HadMatᴴ * HadMat = 1 := by
  rw [HadMat_conjTranspose, HadMat_mul_self]

theorem had_conj_unitary (M : M22) (h : Mᴴ * M = 1) :
    (HadMat * M * HadMat)ᴴ * (HadMat * M * HadMat) = 1 :=
  unitary_mul _ _ (unitary_mul _ _ HadMat_unitary h) HadMat_unitary

theorem sigDef_unitary (so : SigOp) (a : ℝ) (ha : a ∈ Set.Icc (-1 : ℝ) 1) :
    (sigDef so a)ᴴ * sigDef so a = 1 := by
  cases so
  · exact WxMat_unitary a ha
  · exact had_conj_unitary _ (WxMat_unitary a ha)

theorem phaseDef_unitary (so : SigOp) (φ : ℝ) : (phaseDef so φ)ᴴ * phaseDef so φ = 1 := by
  cases so
  · exact PzMat_unitary φ
  · exact had_conj_unitary _ (PzMat_unitary φ)

/-- Item 4: for a signal in `[-1, 1]` the product is unitary -/
theorem Udef_unitary (so : SigOp) (a : ℝ) (ha : a ∈ Set.Icc (-1 : ℝ) 1) (φs : List ℝ) :
    (Udef so a φs)ᴴ * Udef so a φs = 1 := by
  cases φs with
  | nil => simp [Udef]
  | cons φ φs =>
    simp only [Udef]
    have key : ∀ (l : List ℝ) (X : M22), Xᴴ * X = 1 →
        (l.foldl (fun U ψ => U * sigDef so a * phaseDef so ψ) X)ᴴ
          * l.foldl (fun U ψ => U * sigDef so a * phaseDef so ψ) X = 1 := by
      intro l
      induction l with
      | nil => intro X hX; exact hX
      | cons ψ l ih =>
        intro X hX
        simp only [List.foldl_cons]
        exact ih _ (unitary_mul _ _ (unitary_mul _ _ hX (sigDef_unitary so a ha))
          (phaseDef_unitary so ψ))
    exact key φs _ (phaseDef_unitary so φ)

/-- Item 4: … and the response has modulus at most 1 -/
theorem norm_respDef_le_one (so : SigOp) (me : Meas) (φs : List ℝ) (a : ℝ)
    (ha : a ∈ Set.Icc (-1 : ℝ) 1) : ‖respDef so me φs a‖ ≤ 1 :=
  (norm_bracket_le _ me).trans (norm_le_one_of_unitary _ (Udef_unitary so a ha φs))

/-! ## the Wz convention as X rotations and diagonal signals -/

theorem had_conj_diagC (c s : ℂ) : HadMat * diagC c s * HadMat = rotC c s := by
  rw [had_conj_eq]
  apply Matrix.ext; intro i j
  fin_cases i <;> fin_cases j <;>
    simp [had2, diagC, rotC, Matrix.mul_apply, Fin.sum_univ_two] <;> ring

theorem had_conj_rotC (c s : ℂ) : HadMat * rotC c s * HadMat = diagC c s := by
  rw [had_conj_eq]
  apply Matrix.ext; intro i j
  fin_cases i <;> fin_cases j <;>
    simp [had2, diagC, rotC, Matrix.mul_apply, Fin.sum_univ_two] <;> ring

theorem phaseDef_Wz (φ : ℝ) : phaseDef .Wz φ = rotC (Real.cos φ) (Real.sin φ) := by
  simp only [phaseDef, PzMat_eq, had_conj_diagC]

theorem sigDef_Wz_cos (θ : ℝ) (hθ : 0 ≤ Real.sin θ) : sigDef .Wz (Real.cos θ) = wC θ := by
  have h : Real.sqrt (1 - Real.cos θ ^ 2) = Real.sin θ := by
    rw [← Real.sin_sq, Real.sqrt_sq hθ]
  simp only [sigDef, WxMat_eq, h, had_conj_rotC, wC_eq, PzMat_eq]

/-- Item 5: Wz convention = X rotations interleaved with the diagonal signal `diag(e^{±iθ})` -/
theorem Udef_Wz_eq_prod (θ : ℝ) (hθ : 0 ≤ Real.sin θ) (φ : ℝ) (φs : List ℝ) :
    Udef .Wz (Real.cos θ) (φ :: φs)
      = φs.foldl (fun U ψ => U * (wC θ * rotC (Real.cos ψ) (Real.sin ψ)))
          (rotC (Real.cos φ) (Real.sin φ)) := by
  simp only [Udef, phaseDef_Wz, sigDef_Wz_cos θ hθ, Matrix.mul_assoc]

theorem respDef_Wz_z (φs : List ℝ) (a : ℝ) : respDef .Wz .z φs a = (Udef .Wz a φs) 0 0 := by
  rw [respDef_eq_brG, brG_z]

/-! ## soundness of the enclosure `respBall` -/

/-- complex rationals as complex numbers -/
noncomputable def Cx.toC (z : Cx) : ℂ := ⟨(z.re : ℝ), (z.im : ℝ)⟩

theorem Cx.zero_def : (0 : Cx) = ⟨0, 0⟩ := rfl
theorem Cx.one_def : (1 : Cx) = ⟨1, 0⟩ := rfl
theorem Cx.add_def (x y : Cx) : x + y = ⟨x.re + y.re, x.im + y.im⟩ := rfl
theorem Cx.neg_def (x : Cx) : -x = ⟨-x.re, -x.im⟩ := rfl
theorem Cx.mul_def (x y : Cx) :
    x * y = ⟨x.re * y.re - x.im * y.im, x.re * y.im + x.im * y.re⟩ := rfl

theorem toC_ofRat (q : ℚ) : Cx.toC (Cx.ofRat q) = ((q : ℝ) : ℂ) := by
  apply Complex.ext <;> simp [Cx.toC, Cx.ofRat]

theorem toC_I : Cx.toC Cx.I = Complex.I := by
  apply Complex.ext <;> simp [Cx.toC, Cx.I]

theorem toC_half : Cx.toC (Cx.ofRat (1 / 2)) = 1 / 2 := by
  rw [toC_ofRat]; push_cast; rfl

theorem homLike_toC : HomLike Cx.toC where
  zero := by apply Complex.ext <;> simp [Cx.toC, Cx.zero_def]
  one := by apply Complex.ext <;> simp [Cx.toC, Cx.one_def]
  add x y := by apply Complex.ext <;> simp [Cx.toC, Cx.add_def]
  mul x y := by apply Complex.ext <;> simp [Cx.toC, Cx.mul_def]
  neg x := by apply Complex.ext <;> simp [Cx.toC, Cx.neg_def]

theorem conjH_sub (so : SigOp) (A B : M22) : conjH so (A - B) = conjH so A - conjH so B := by
  cases so
  · rfl
  · simp only [conjH, Matrix.mul_sub, Matrix.sub_mul]

theorem norm_conjH_le (so : SigOp) (M : M22) : ‖conjH so M‖ ≤ ‖M‖ := by
  cases so
  · exact le_rfl
  · exact norm_had_conj_le M

theorem diagC_sub (c s c' s' : ℂ) : diagC c s - diagC c' s' = diagC (c - c') (s - s') := by
  apply Matrix.ext; intro i j
  fin_cases i <;> fin_cases j <;> simp [diagC] <;> ring

theorem rotC_sub (c s c' s' : ℂ) : rotC c s - rotC c' s' = rotC (c - c') (s - s') := by
  apply Matrix.ext; intro i j
  fin_cases i <;> fin_cases j <;> simp [rotC] <;> ring

theorem norm_phaseG_sub_le (so : SigOp) (p p' : ℂ × ℂ) :
    ‖phaseG so p - phaseG so p'‖ ≤ ‖p.1 - p'.1‖ + ‖p.2 - p'.2‖ := by
  unfold phaseG
  rw [← conjH_sub, diagC_sub]
  exact (norm_conjH_le _ _).trans (norm_diagC_le _ _)

theorem norm_sigG_sub_le (so : SigOp) (a b b' : ℂ) : ‖sigG so a b - sigG so a b'‖ ≤ ‖b - b'‖ := by
  unfold sigG
  rw [← conjH_sub, rotC_sub]
  refine (norm_conjH_le _ _).trans ((norm_rotC_le _ _).trans ?_)
  simp

theorem norm_phaseDef_le (so : SigOp) (φ : ℝ) : ‖phaseDef so φ‖ ≤ 1 :=
  norm_le_one_of_unitary _ (phaseDef_unitary so φ)

theorem norm_sigDef_le (so : SigOp) (a : ℝ) (ha : a ∈ Set.Icc (-1 : ℝ) 1) : ‖sigDef so a‖ ≤ 1 :=
  norm_le_one_of_unitary _ (sigDef_unitary so a ha)

/-- enclosure centre of the phase operator for the rational phase `q` -/
noncomputable def phaseT (so : SigOp) (bits : ℕ) (q : ℚ) : M22 :=
  phaseG so ((((trigEncl q bits).c : ℝ) : ℂ), (((trigEncl q bits).s : ℝ) : ℂ))

/-- enclosure centre of the signal operator -/
noncomputable def sigT (so : SigOp) (bits : ℕ) (a : ℚ) : M22 :=
  sigG so ((a : ℝ) : ℂ) (((sqrtLo (1 - a * a) bits : ℚ) : ℝ) : ℂ)

theorem phase_encl (so : SigOp) (bits : ℕ) (q : ℚ) :
    ‖phaseDef so (q : ℝ) - phaseT so bits q‖ ≤ ((2 * (trigEncl q bits).δ : ℚ) : ℝ) ∧
    ‖phaseT so bits q‖ ≤ ((1 + 2 * (trigEncl q bits).δ : ℚ) : ℝ) := by
  obtain ⟨hc, hs⟩ := trigEncl_sound q bits
  have h1 : ‖phaseDef so (q : ℝ) - phaseT so bits q‖ ≤ 2 * ((trigEncl q bits).δ : ℝ) := by
    rw [← phaseG_eq_phaseDef, phaseT]
    refine (norm_phaseG_sub_le _ _ _).trans ?_
    simp only
    rw [← Complex.ofReal_sub, ← Complex.ofReal_sub, Complex.norm_real, Complex.norm_real,
      Real.norm_eq_abs, Real.norm_eq_abs]
    linarith
  constructor
  · push_cast; exact h1
  · have e : phaseT so bits q = phaseDef so (q : ℝ) - (phaseDef so (q : ℝ) - phaseT so bits q) := by
      abel
    rw [e]
    refine (norm_sub_le _ _).trans ?_
    push_cast
    linarith [norm_phaseDef_le so (q : ℝ)]

theorem sig_encl (so : SigOp) (bits : ℕ) (a : ℚ) (ha : (a : ℝ) ∈ Set.Icc (-1 : ℝ) 1) :
    ‖sigDef so (a : ℝ) - sigT so bits a‖ ≤ ((1 / (2 : ℚ) ^ bits : ℚ) : ℝ) ∧
    ‖sigT so bits a‖ ≤ ((1 + 1 / (2 : ℚ) ^ bits : ℚ) : ℝ) := by
  have hq : (0 : ℚ) ≤ 1 - a * a := by
    have : (0 : ℝ) ≤ ((1 - a * a : ℚ) : ℝ) := by push_cast; nlinarith [ha.1, ha.2]
    exact_mod_cast this
  obtain ⟨_, hlo, hhi⟩ := sqrtLo_sound (1 - a * a) bits hq
  have hcast : ((1 - a * a : ℚ) : ℝ) = 1 - (a : ℝ) ^ 2 := by push_cast; ring
  rw [hcast] at hlo hhi
  have h1 : ‖sigDef so (a : ℝ) - sigT so bits a‖ ≤ 1 / 2 ^ bits := by
    rw [← sigG_eq_sigDef, sigT]
    refine (norm_sigG_sub_le _ _ _ _).trans ?_
    rw [← Complex.ofReal_sub, Complex.norm_real, Real.norm_eq_abs, abs_le]
    constructor <;> linarith [show (0 : ℝ) ≤ 1 / 2 ^ bits by positivity]
  constructor
  · push_cast; exact h1
  · have e : sigT so bits a = sigDef so (a : ℝ) - (sigDef so (a : ℝ) - sigT so bits a) := by abel
    rw [e]
    refine (norm_sub_le _ _).trans ?_
    push_cast
    linarith [norm_sigDef_le so (a : ℝ) ha]

/-- one factor `W P` of the product against `W̃ P̃` -/
theorem factor_bound (W W' P P' : M22) (w d : ℝ) (hW : ‖W‖ ≤ 1) (hWe : ‖W - W'‖ ≤ w)
    (hW' : ‖W'‖ ≤ 1 + w) (hPe : ‖P - P'‖ ≤ d) (hP' : ‖P'‖ ≤ 1 + d) :
    ‖W' * P'‖ ≤ (1 + w) * (1 + d) ∧ ‖W * P - W' * P'‖ ≤ w * (1 + d) + d := by
  have hw0 : 0 ≤ w := (norm_nonneg _).trans hWe
  have hd0 : 0 ≤ d := (norm_nonneg _).trans hPe
  constructor
  · exact (norm_mul_le _ _).trans (mul_le_mul hW' hP' (norm_nonneg _) (by linarith))
  · have e : W * P - W' * P' = (W - W') * P' + W * (P - P') := by
      rw [Matrix.sub_mul, Matrix.mul_sub]; abel
    rw [e]
    refine (norm_add_le _ _).trans (add_le_add ?_ ?_)
    · exact (norm_mul_le _ _).trans (mul_le_mul hWe hP' (norm_nonneg _) hw0)
    · calc ‖W * (P - P')‖ ≤ ‖W‖ * ‖P - P'‖ := norm_mul_le _ _
        _ ≤ 1 * d := mul_le_mul hW hPe (norm_nonneg _) zero_le_one
        _ = d := one_mul d

theorem brG_sub (me : Meas) (A B : M22) : brG me (A - B) = brG me A - brG me B := by
  unfold brG
  rw [Matrix.sub_mulVec, dotProduct_sub]

/-- the product of the enclosure centres against the product of the definition -/
theorem UG_err (so : SigOp) (bits : ℕ) (a : ℚ) (ha : (a : ℝ) ∈ Set.Icc (-1 : ℝ) 1) (q : ℚ)
    (qs : List ℚ) :
    ‖Udef so (a : ℝ) ((q :: qs).map (fun x : ℚ => (x : ℝ)))
        - qs.foldl (fun U x => U * sigT so bits a * phaseT so bits x) (phaseT so bits q)‖
      ≤ (((prodErr (respBounds (1 / (2 : ℚ) ^ bits) (enclList bits (q :: qs))) (1, 0)).2 : ℚ) : ℝ) := by
  obtain ⟨hWe, hW'⟩ := sig_encl so bits a ha
  have hW := norm_sigDef_le so (a : ℝ) ha
  obtain ⟨hP0e, hP0'⟩ := phase_encl so bits q
  set wη : ℚ := 1 / (2 : ℚ) ^ bits with hwη
  let l : List (M22 × M22 × ℚ × ℚ) := qs.map (fun x : ℚ =>
    (sigDef so (a : ℝ) * phaseDef so (x : ℝ), sigT so bits a * phaseT so bits x,
      (1 + wη) * (1 + 2 * (trigEncl x bits).δ),
      wη * (1 + 2 * (trigEncl x bits).δ) + 2 * (trigEncl x bits).δ))
  have hl : ∀ e ∈ l, ‖e.2.1‖ ≤ ((e.2.2.1 : ℚ) : ℝ) ∧ ‖e.1 - e.2.1‖ ≤ ((e.2.2.2 : ℚ) : ℝ) := by
    intro e he
    obtain ⟨x, _, rfl⟩ := List.mem_map.mp he
    obtain ⟨hPe, hP'⟩ := phase_encl so bits x
    have := factor_bound _ _ _ _ _ _ hW hWe (by push_cast at hW' ⊢; exact hW') hPe
      (by push_cast at hP' ⊢; exact hP')
    simp only
    push_cast at this ⊢
    exact this
  have key := (prodErr_sound l hl (phaseDef so (q : ℝ)) (phaseT so bits q)
    (1 + 2 * (trigEncl q bits).δ) (2 * (trigEncl q bits).δ) hP0' hP0e).2.1
  have e1 : l.foldl (fun acc e => acc * e.1) (phaseDef so (q : ℝ))
      = Udef so (a : ℝ) ((q :: qs).map (fun x : ℚ => (x : ℝ))) := by
    simp only [l, Udef, List.map_cons, List.foldl_map, Matrix.mul_assoc]
  have e2 : l.foldl (fun acc e => acc * e.2.1) (phaseT so bits q)
      = qs.foldl (fun U x => U * sigT so bits a * phaseT so bits x) (phaseT so bits q) := by
    simp only [l, List.foldl_map, Matrix.mul_assoc]
  have e3 : prodErr (respBounds wη (enclList bits (q :: qs))) (1, 0)
      = prodErr (l.map (fun e => (e.2.2.1, e.2.2.2)))
          (1 + 2 * (trigEncl q bits).δ, 2 * (trigEncl q bits).δ) := by
    simp only [l, enclList, List.map_cons, respBounds, Encl.rotBound, prodErr_cons, List.map_map,
      one_mul, zero_mul, zero_add]
    rfl
  rw [e1, e2] at key
  rw [e3]
  exact key

/-- Item 7: the value returned by `respBall` is within the returned bound of the response of
    the mathematical definition (for a signal in `[-1, 1]`) -/
theorem respBall_sound (so : SigOp) (me : Option Meas) (bits : ℕ) (a : ℚ)
    (ha : (a : ℝ) ∈ Set.Icc (-1 : ℝ) 1) (φs : List ℚ) (z : Cx) (E : ℚ)
    (h : respBall so.name (me.map Meas.name) bits a φs = .ok (z, E)) :
    ‖(⟨(z.re : ℝ), (z.im : ℝ)⟩ : ℂ)
        - respDef so (me.getD so.defaultMeas) (φs.map (fun q : ℚ => (q : ℝ))) (a : ℝ)‖
      ≤ (E : ℝ) := by
  cases φs with
  | nil =>
    simp only [respBall, enclList, List.map_nil, response_nil] at h
    exact absurd h (by intro h'; cases h')
  | cons q qs =>
    simp only [respBall, enclList, List.map_cons] at h
    obtain ⟨r, h1, h2⟩ := response_toC homLike_toC Cx.I (Cx.ofRat (1 / 2)) toC_I toC_half so me
      (Cx.ofRat (trigEncl q bits).c, Cx.ofRat (trigEncl q bits).s)
      ((qs.map (fun x => trigEncl x bits)).map (fun e => (Cx.ofRat e.c, Cx.ofRat e.s)))
      (Cx.ofRat a) (Cx.ofRat (sqrtLo (1 - a * a) bits))
    rw [h1] at h
    have h' : (Except.ok (r, (prodErr (respBounds (1 / (2 : ℚ) ^ bits)
        (trigEncl q bits :: qs.map (fun x => trigEncl x bits))) (1, 0)).2) : Except Err (Cx × ℚ))
        = .ok (z, E) := h
    injection h' with h'
    injection h' with hz hE
    subst hz hE
    have hU : UG so (Cx.toC (Cx.ofRat a)) (Cx.toC (Cx.ofRat (sqrtLo (1 - a * a) bits)))
        (((Cx.ofRat (trigEncl q bits).c, Cx.ofRat (trigEncl q bits).s) ::
          (qs.map (fun x => trigEncl x bits)).map (fun e => (Cx.ofRat e.c, Cx.ofRat e.s))).map
            (fun p : Cx × Cx => (Cx.toC p.1, Cx.toC p.2)))
        = qs.foldl (fun U x => U * sigT so bits a * phaseT so bits x) (phaseT so bits q) := by
      simp only [UG, List.map_cons, List.foldl_map, toC_ofRat, sigT, phaseT]
    rw [hU] at h2
    have h3 : (⟨(r.re : ℝ), (r.im : ℝ)⟩ : ℂ) = Cx.toC r := rfl
    rw [h3, h2, respDef_eq_brG, ← brG_sub]
    refine (norm_bracket_le _ _).trans ?_
    rw [norm_sub_rev]
    exact UG_err so bits a ha q qs

/-- `respBall_sound` with the signal range stated over `ℚ` -/
theorem respBall_sound_rat (so : SigOp) (me : Option Meas) (bits : ℕ) (a : ℚ)
    (ha : -1 ≤ a ∧ a ≤ 1) (φs : List ℚ) (z : Cx) (E : ℚ)
    (h : respBall so.name (me.map Meas.name) bits a φs = .ok (z, E)) :
    ‖(⟨(z.re : ℝ), (z.im : ℝ)⟩ : ℂ)
        - respDef so (me.getD so.defaultMeas) (φs.map (fun q : ℚ => (q : ℝ))) (a : ℝ)‖
      ≤ (E : ℝ) :=
  respBall_sound so me bits a ⟨by exact_mod_cast ha.1, by exact_mod_cast ha.2⟩ φs z E h

/-- `respBall` returns on every non-empty phase list (valid names) -/
theorem respBall_total (so : SigOp) (me : Option Meas) (bits : ℕ) (a : ℚ) (φs : List ℚ)
    (hφ : φs ≠ []) : ∃ z E, respBall so.name (me.map Meas.name) bits a φs = .ok (z, E) := by
  cases φs with
  | nil => exact absurd rfl hφ
  | cons q qs =>
    obtain ⟨r, h1, _⟩ := response_toC homLike_toC Cx.I (Cx.ofRat (1 / 2)) toC_I toC_half so me
      (Cx.ofRat (trigEncl q bits).c, Cx.ofRat (trigEncl q bits).s)
      ((qs.map (fun x => trigEncl x bits)).map (fun e => (Cx.ofRat e.c, Cx.ofRat e.s)))
      (Cx.ofRat a) (Cx.ofRat (sqrtLo (1 - a * a) bits))
    refine ⟨r, (prodErr (respBounds (1 / (2 : ℚ) ^ bits)
        (trigEncl q bits :: qs.map (fun x => trigEncl x bits))) (1, 0)).2, ?_⟩
    simp only [respBall, enclList, List.map_cons]
    rw [h1]
    rfl

end QSP

/-
  Proofs of the property theorems of `QSP/Properties/C09.lean`: the list model `LP R`
  of `pyqsp/LPoly.py` computes exact arithmetic of Laurent polynomials.
-/
import QSP.Proofs.Den
import QSP.Model.Hist
import Mathlib.Algebra.Order.Ring.Rat
open LaurentPolynomial
namespace QSP
variable {R : Type} [CommRing R]

/-! ### the constructor -/

theorem den_mk' (cs : List R) (d : ℤ) : den (LP.mk' cs d) = denL cs d := by
  cases cs with
  | nil => simp [LP.mk', den]
  | cons c cs => simp [LP.mk', den]

theorem WF_mk' (cs : List R) (d : ℤ) : (LP.mk' cs d).WF := by
  cases cs with
  | nil => simp [LP.mk', LP.WF]
  | cons c cs => simp [LP.mk', LP.WF]

theorem dmin_mk' (cs : List R) (d : ℤ) : (LP.mk' cs d).dmin = d := by
  cases cs <;> simp [LP.mk']

theorem iszero_mk'_of_ne_nil {cs : List R} (h : cs ≠ []) (d : ℤ) :
    (LP.mk' cs d).iszero = false := by
  cases cs with
  | nil => exact absurd rfl h
  | cons c cs => simp [LP.mk']

theorem den_of_iszero {p : LP R} (hp : p.WF) (h : p.iszero = true) : den p = 0 := by
  simp [den, hp.2 h]

theorem den_zero : den (LP.zero : LP R) = 0 ∧ (LP.zero : LP R).WF :=
  ⟨by simp [LP.zero, den_mk'], WF_mk' _ _⟩

/-! ### ring operations -/

theorem den_mul (p q : LP R) (hp : p.WF) (hq : q.WF) :
    den (p.mul q) = den p * den q ∧ (p.mul q).WF := by
  unfold LP.mul
  split
  · rename_i h
    refine ⟨?_, den_zero.2⟩
    rw [den_zero.1]
    rcases Bool.or_eq_true _ _ |>.mp h with h | h
    · rw [den_of_iszero hp h, zero_mul]
    · rw [den_of_iszero hq h, mul_zero]
  · exact ⟨by rw [den_mk', denL_convL]; rfl, WF_mk' _ _⟩

theorem den_neg (p : LP R) (hp : p.WF) : den p.neg = - den p ∧ p.neg.WF := by
  unfold LP.neg
  split
  · rename_i h
    exact ⟨by rw [den_mk', den_of_iszero hp h]; simp, WF_mk' _ _⟩
  · exact ⟨by rw [den_mk', denL_map_neg]; rfl, WF_mk' _ _⟩

theorem den_smul (c : R) (p : LP R) (hp : p.WF) :
    den (LP.smul c p) = C c * den p ∧ (LP.smul c p).WF := by
  unfold LP.smul
  split
  · rename_i h
    exact ⟨by rw [den_of_iszero hp h]; simp [den], by simp [LP.WF]⟩
  · exact ⟨by rw [den_mk', denL_map_mul]; rfl, WF_mk' _ _⟩

theorem den_inv (p : LP R) (hp : p.WF) :
    den p.inv = invert (den p) ∧ p.inv.WF := by
  unfold LP.inv
  split
  · rename_i h
    exact ⟨by rw [den_mk', den_of_iszero hp h]; simp [invert], WF_mk' _ _⟩
  · exact ⟨by rw [den_mk']; exact denL_reverse _ _, WF_mk' _ _⟩

/-! ### coefficients and support -/

theorem getItem_eq (p : LP R) (k : ℤ) : p.getItem k = (den p).coeff k := by
  unfold LP.getItem den
  rw [denL_coeff]
  by_cases h : (k - p.dmin) % 2 = 0
  · simp only [h, ne_eq, not_true_eq_false, if_false, true_and]
    by_cases h2 : (k - p.dmin) / 2 < p.coefs.length ∧ (k - p.dmin) / 2 ≥ 0
    · rw [if_pos h2, if_pos ⟨h2.2, h2.1⟩]
    · rw [if_neg h2, if_neg (fun h3 => h2 ⟨h3.2, h3.1⟩)]
  · simp [h]

theorem support_range (p : LP R) (k : ℤ) (h : (den p).coeff k ≠ 0) :
    p.dmin ≤ k ∧ k ≤ p.dmax ∧ (k - p.dmin) % 2 = 0 ∧ |k| ≤ p.degree ∧ k % 2 = p.parity := by
  have := denL_coeff_ne_zero h
  unfold LP.dmax LP.degree LP.parity LP.dmax
  refine ⟨by omega, by omega, by omega, abs_le.mpr ⟨by omega, by omega⟩, by omega⟩

/-! ### alignment and sums -/

theorem aligned_nonzero {p : LP R} (h0 : p.iszero = false) {lo hi : ℤ}
    (hlo : lo ≤ p.dmin) (hhi : hi ≥ p.dmax) :
    p.aligned lo hi =
      .ok (zeros ((p.dmin - lo) / 2).toNat ++ p.coefs ++ zeros ((hi - p.dmax) / 2).toNat) := by
  simp [LP.aligned, h0, hlo, hhi]

theorem length_zeros (n : ℕ) : (zeros n : List R).length = n := by simp [zeros]

theorem den_aligned (p : LP R) (hp : p.WF) (lo hi : ℤ) (l : List R)
    (hpar : p.iszero = true ∨ (p.dmin - lo) % 2 = 0) (h : p.aligned lo hi = .ok l) :
    denL l lo = den p ∧
      (p.iszero = false → (hi - p.dmax) % 2 = 0 → (l.length : ℤ) = (hi - lo) / 2 + 1) := by
  unfold LP.aligned at h
  split at h
  · rename_i hz
    refine ⟨?_, fun h0 => by simp [hz] at h0⟩
    rw [den_of_iszero hp hz]
    dsimp only at h
    split at h
    · cases h
    · cases h; exact denL_zeros _ _
  · rename_i hz
    have hz' : p.iszero = false := by simpa using hz
    have hpar' : (p.dmin - lo) % 2 = 0 := by
      rcases hpar with h1 | h1
      · exact absurd h1 hz
      · exact h1
    split at h
    · rename_i hw
      cases h
      refine ⟨?_, fun _ hhi => ?_⟩
      · rw [denL_append, denL_append, denL_zeros, denL_zeros, zero_add, add_zero, length_zeros]
        have : lo + 2 * (((p.dmin - lo) / 2).toNat : ℤ) = p.dmin := by omega
        rw [this]; rfl
      · simp only [List.length_append, length_zeros]
        unfold LP.dmax at hw hhi ⊢
        push_cast
        omega
    · cases h

theorem den_add (p q : LP R) (hp : p.WF) (hq : q.WF)
    (h : p.iszero = true ∨ q.iszero = true ∨ p.parity = q.parity) :
    ∃ r, p.add q = .ok r ∧ den r = den p + den q ∧ r.WF := by
  unfold LP.add
  by_cases hpz : p.iszero = true
  · rw [if_pos hpz]
    by_cases hqz : q.iszero = true
    · rw [if_pos hqz]
      exact ⟨_, rfl, by rw [den_mk', den_of_iszero hp hpz, den_of_iszero hq hqz, zero_add]; simp, WF_mk' _ _⟩
    · rw [if_neg hqz]
      exact ⟨_, rfl, by rw [den_mk', den_of_iszero hp hpz, zero_add]; rfl, WF_mk' _ _⟩
  rw [if_neg hpz]
  by_cases hqz : q.iszero = true
  · rw [if_pos hqz]
    exact ⟨_, rfl, by rw [den_mk', den_of_iszero hq hqz, add_zero]; rfl, WF_mk' _ _⟩
  rw [if_neg hqz]
  have hpar : p.parity = q.parity := by
    rcases h with h | h | h
    · exact absurd h hpz
    · exact absurd h hqz
    · exact h
  rw [if_neg (by simpa using hpar)]
  have hp0 : p.iszero = false := by simpa using hpz
  have hq0 : q.iszero = false := by simpa using hqz
  have hA := aligned_nonzero hp0 (lo := min p.dmin q.dmin) (hi := max p.dmax q.dmax)
    (by omega) (by omega)
  have hB := aligned_nonzero hq0 (lo := min p.dmin q.dmin) (hi := max p.dmax q.dmax)
    (by omega) (by omega)
  unfold LP.parity at hpar
  have hdp : p.dmax = 2 * p.coefs.length + p.dmin - 2 := rfl
  have hdq : q.dmax = 2 * q.coefs.length + q.dmin - 2 := rfl
  obtain ⟨hA1, hA2⟩ := den_aligned p hp _ _ _ (Or.inr (by omega)) hA
  obtain ⟨hB1, hB2⟩ := den_aligned q hq _ _ _ (Or.inr (by omega)) hB
  have hlen := (hA2 hp0 (by omega)).trans (hB2 hq0 (by omega)).symm
  dsimp only
  rw [hA, hB]
  refine ⟨_, rfl, ?_, WF_mk' _ _⟩
  rw [den_mk', denL_zipAdd _ _ _ (by exact_mod_cast hlen), hA1, hB1]

theorem add_refuses (p q : LP R) (hp : p.iszero = false) (hq : q.iszero = false)
    (h : p.parity ≠ q.parity) : p.add q = .error .parity := by
  simp [LP.add, hp, hq, h]

theorem neg_iszero (q : LP R) (hq : q.WF) : q.neg.iszero = q.iszero := by
  unfold LP.neg
  split
  · rename_i h; simp [LP.mk', h]
  · rename_i h
    rw [iszero_mk'_of_ne_nil (by simpa using hq.1)]
    simpa using h

theorem neg_dmin (q : LP R) : q.neg.dmin = q.dmin := by
  unfold LP.neg; split <;> exact dmin_mk' _ _

theorem den_sub (p q : LP R) (hp : p.WF) (hq : q.WF)
    (h : p.iszero = true ∨ q.iszero = true ∨ p.parity = q.parity) :
    ∃ r, p.sub q = .ok r ∧ den r = den p - den q ∧ r.WF := by
  have hn := den_neg q hq
  have h' : p.iszero = true ∨ q.neg.iszero = true ∨ p.parity = q.neg.parity := by
    rw [neg_iszero q hq]
    unfold LP.parity at h ⊢
    rw [neg_dmin]
    exact h
  obtain ⟨r, h1, h2, h3⟩ := den_add p q.neg hp hn.2 h'
  exact ⟨r, h1, by rw [h2, hn.1, sub_eq_add_neg], h3⟩

/-! ### truncation -/

omit [CommRing R] in
theorem mem_sliceNegEnd [Zero R] {l : List R} {s e : ℤ} {x : R} (h : x ∈ sliceNegEnd l s e) : x ∈ l := by
  unfold sliceNegEnd at h
  dsimp only at h
  split at h
  · simp at h
  · exact List.mem_of_mem_take (List.mem_of_mem_drop h)

theorem forall_zero_of_denL_eq_zero {l : List R} {d : ℤ} (h : denL l d = 0) : ∀ x ∈ l, x = 0 := by
  induction l generalizing d with
  | nil => simp
  | cons c cs ih =>
    have hc : c = 0 := by
      have := congrArg (fun f => f.coeff d) h
      simpa [coeff_C_mul_T, denL_coeff_of_lt] using this
    have hcs : denL cs (d + 2) = 0 := by simpa [hc] using h
    intro x hx
    rcases List.mem_cons.mp hx with rfl | hx
    · exact hc
    · exact ih hcs x hx

theorem truncate_eq {p : LP R} {lo hi : ℤ} {arr : List R}
    (h : p.aligned (min lo p.dmin) (max hi p.dmax + 2) = .ok arr) :
    p.truncate lo hi = .ok (LP.mk' (sliceNegEnd arr ((lo - min lo p.dmin) / 2)
      ((hi - max hi p.dmax) / 2 - 1)) lo) := by
  simp only [LP.truncate, h]

/-- truncation of a value whose denotation is zero (whatever its flag, parity and window) -/
theorem truncate_of_den_zero (p : LP R) (hp : p.WF) (h0 : den p = 0) (lo hi : ℤ) :
    ∃ r, p.truncate lo hi = .ok r ∧ r.WF ∧ den r = 0 := by
  have hall : ∀ x ∈ p.coefs, x = 0 := forall_zero_of_denL_eq_zero h0
  have harr : ∃ arr, p.aligned (min lo p.dmin) (max hi p.dmax + 2) = .ok arr ∧ ∀ x ∈ arr, x = 0 := by
    by_cases hz : p.iszero = true
    · have hc := hp.2 hz
      have hd : p.dmax = p.dmin := by simp [LP.dmax, hc]
      have hn : ¬ ((max hi p.dmax + 2 - min lo p.dmin) / 2 + 1 < 0) := by omega
      refine ⟨_, by simp only [LP.aligned, hz, if_true, if_neg hn]; rfl, ?_⟩
      intro x hx
      exact (List.mem_replicate.mp hx).2
    · have hz' : p.iszero = false := by simpa using hz
      refine ⟨_, aligned_nonzero hz' (by omega) (by omega), ?_⟩
      intro x hx
      simp only [List.mem_append] at hx
      rcases hx with (hx | hx) | hx
      · exact (List.mem_replicate.mp hx).2
      · exact hall x hx
      · exact (List.mem_replicate.mp hx).2
  obtain ⟨arr, ha, hzero⟩ := harr
  refine ⟨_, truncate_eq ha, WF_mk' _ _, ?_⟩
  rw [den_mk']
  exact denL_eq_zero_of_forall (fun x hx => hzero x (mem_sliceNegEnd hx)) _

/-- truncation, main case: a non-zero-flagged value and a lower window end of its parity
    (the upper end may have either parity) -/
theorem truncate_of_parity (p : LP R) (hp : p.WF) (hz : p.iszero = false) (lo hi : ℤ)
    (hpar : (lo - p.dmin) % 2 = 0) :
    ∃ r, p.truncate lo hi = .ok r ∧ r.WF ∧
      ∀ k, (den r).coeff k = if lo ≤ k ∧ k ≤ hi then (den p).coeff k else 0 := by
  have hd : p.dmax = 2 * p.coefs.length + p.dmin - 2 := rfl
  have ha := aligned_nonzero hz (lo := min lo p.dmin) (hi := max hi p.dmax + 2)
    (by omega) (by omega)
  obtain ⟨hden, -⟩ := den_aligned p hp _ _ _ (Or.inr (by omega)) ha
  refine ⟨_, truncate_eq ha, WF_mk' _ _, fun k => ?_⟩
  rw [den_mk']
  generalize harr : zeros ((p.dmin - min lo p.dmin) / 2).toNat ++ p.coefs ++
    zeros ((max hi p.dmax + 2 - p.dmax) / 2).toNat = arr at hden
  have hlen : (arr.length : ℤ) = ((p.dmin - min lo p.dmin) / 2).toNat + p.coefs.length +
      ((max hi p.dmax + 2 - p.dmax) / 2).toNat := by
    rw [← harr]; simp only [List.length_append, length_zeros]; push_cast; rfl
  have hsupp : ∀ {k}, (den p).coeff k ≠ 0 →
      (k - p.dmin) % 2 = 0 ∧ p.dmin ≤ k ∧ k ≤ p.dmin + 2 * p.coefs.length - 2 :=
    fun h => denL_coeff_ne_zero h
  unfold sliceNegEnd
  dsimp only
  split
  · rename_i he
    rw [denL_nil, AddMonoidAlgebra.coeff_zero, Finsupp.zero_apply]
    by_cases hc : (den p).coeff k = 0
    · simp [hc]
    · have := hsupp hc
      rw [if_neg (by omega)]
  · rename_i he
    have hlo : lo = min lo p.dmin + 2 * (((lo - min lo p.dmin) / 2).toNat : ℤ) := by omega
    have key := denL_drop_coeff
      (List.take ((hi - max hi p.dmax) / 2 - 1 + (arr.length : ℤ)).toNat arr)
      ((lo - min lo p.dmin) / 2).toNat (min lo p.dmin) k
    rw [← hlo] at key
    rw [key, denL_take_coeff, hden]
    by_cases hc : (den p).coeff k = 0
    · simp [hc]
    · have := hsupp hc
      have e1 : (k < min lo p.dmin +
          2 * (((hi - max hi p.dmax) / 2 - 1 + (arr.length : ℤ)).toNat : ℤ)) ↔ k ≤ hi := by omega
      simp only [e1]
      by_cases h1 : lo ≤ k <;> by_cases h2 : k ≤ hi <;> simp [h1, h2]

/-- truncation under the weakest parity condition: the lower window end has the parity of
    every power that actually occurs in `p` -/
theorem den_truncate' (p : LP R) (hp : p.WF) (lo hi : ℤ)
    (hpar : ∀ k, (den p).coeff k ≠ 0 → (lo - k) % 2 = 0) :
    ∃ r, p.truncate lo hi = .ok r ∧ r.WF ∧
      ∀ k, (den r).coeff k = if lo ≤ k ∧ k ≤ hi then (den p).coeff k else 0 := by
  by_cases h : p.iszero = false ∧ (lo - p.dmin) % 2 = 0
  · exact truncate_of_parity p hp h.1 lo hi h.2
  · have h0 : den p = 0 := by
      by_cases hz : p.iszero = true
      · exact den_of_iszero hp hz
      · have hz' : p.iszero = false := by simpa using hz
        apply LaurentPolynomial.ext
        intro k
        by_contra hne
        have h1 := hpar k hne
        have h2 := denL_coeff_ne_zero hne
        exact h ⟨hz', by omega⟩
    obtain ⟨r, h1, h2, h3⟩ := truncate_of_den_zero p hp h0 lo hi
    exact ⟨r, h1, h2, fun k => by simp [h3, h0]⟩

theorem den_truncate (p : LP R) (hp : p.WF) (lo hi : ℤ)
    (hpar : p.iszero = true ∨ ((lo - p.dmin) % 2 = 0 ∧ (hi - p.dmin) % 2 = 0)) :
    ∃ r, p.truncate lo hi = .ok r ∧ r.WF ∧
      ∀ k, (den r).coeff k = if lo ≤ k ∧ k ≤ hi then (den p).coeff k else 0 := by
  apply den_truncate' p hp lo hi
  intro k hk
  rcases hpar with hz | ⟨h1, -⟩
  · rw [den_of_iszero hp hz] at hk; simp at hk
  · have := denL_coeff_ne_zero hk
    omega

/-! ### halves -/

theorem den_posHalf (p : LP R) (k : ℤ) :
    (den p.posHalf).coeff k = if p.dmin + 2 * (p.nhalf : ℤ) ≤ k then (den p).coeff k else 0 := by
  unfold LP.posHalf
  rw [den_mk', denL_append, denL_zeros, zero_add, length_zeros, denL_drop_coeff]
  rfl

theorem den_negHalf (p : LP R) (k : ℤ) :
    (den p.negHalf).coeff k = if k < p.dmin + 2 * (p.nhalf : ℤ) then (den p).coeff k else 0 := by
  unfold LP.negHalf
  rw [den_mk', denL_append, denL_zeros, add_zero, denL_take_coeff]
  rfl

theorem halves_symmetric (p : LP R) (hs : p.dmin = -p.dmax) (k : ℤ) :
    (den p.posHalf).coeff k = (if 0 < k then (den p).coeff k else 0) ∧
    (den p.negHalf).coeff k = (if k ≤ 0 then (den p).coeff k else 0) := by
  rw [den_posHalf, den_negHalf]
  by_cases hc : (den p).coeff k = 0
  · simp [hc]
  · have h1 := denL_coeff_ne_zero hc
    have hn : (p.nhalf : ℤ) = (p.coefs.length + 1) / 2 := by
      unfold LP.nhalf; push_cast; rfl
    unfold LP.dmax at hs
    have e1 : p.dmin + 2 * (p.nhalf : ℤ) ≤ k ↔ 0 < k := by omega
    have e2 : k < p.dmin + 2 * (p.nhalf : ℤ) ↔ k ≤ 0 := by omega
    simp only [e1, e2, and_self]

/-! ### evaluation, norm, rounding -/

theorem evalAt_zero (w w' : R) : (LP.zero : LP R).evalAt w w' = 0 := by
  simp [LP.evalAt, LP.zero, LP.mk']

theorem evalAt_eq (p : LP R) (hp : p.WF) (u : Rˣ) :
    p.evalAt (u : R) ((u⁻¹ : Rˣ) : R) = LaurentPolynomial.eval₂ (RingHom.id R) u (den p) := by
  unfold LP.evalAt
  split
  · rename_i hz
    rw [den_of_iszero hp hz, map_zero]
  · exact evalL_eq u _ _

theorem normSq_eq (p : LP R) : p.normSq = (den p * invert (den p)).coeff 0 :=
  (normSqL_eq p.coefs p.dmin).symm

theorem roundZeros_spec (t : ℚ) (p : LP ℚ) :
    (p.roundZeros t).coefs = p.coefs.map (fun c => if |c| < t then 0 else c) ∧
    (p.roundZeros t).dmin = p.dmin := by
  refine ⟨?_, rfl⟩
  unfold LP.roundZeros
  apply List.map_congr_left
  intro c _
  by_cases hc : c < 0
  · simp [hc, abs_of_neg hc]
  · simp [hc, abs_of_nonneg (not_lt.mp hc)]

/-! ### histories -/

/-- one step of the abstract interpreter: registers hold Laurent polynomials, a missing
    register reads as `0`, the operations are the ring operations; `trunc` may return any
    Laurent polynomial that has exactly the coefficients of the window (there is only one) -/
inductive StepAbs : List R[T;T⁻¹] → Op R → List R[T;T⁻¹] → Prop
  | mul (env : List R[T;T⁻¹]) (d a b : ℕ) :
      StepAbs env (.mul d a b) (env.set d (env.getD a 0 * env.getD b 0))
  | add (env : List R[T;T⁻¹]) (d a b : ℕ) :
      StepAbs env (.add d a b) (env.set d (env.getD a 0 + env.getD b 0))
  | sub (env : List R[T;T⁻¹]) (d a b : ℕ) :
      StepAbs env (.sub d a b) (env.set d (env.getD a 0 - env.getD b 0))
  | neg (env : List R[T;T⁻¹]) (d a : ℕ) :
      StepAbs env (.neg d a) (env.set d (- env.getD a 0))
  | inv (env : List R[T;T⁻¹]) (d a : ℕ) :
      StepAbs env (.inv d a) (env.set d (invert (env.getD a 0)))
  | smul (env : List R[T;T⁻¹]) (d a : ℕ) (c : R) :
      StepAbs env (.smul d a c) (env.set d (C c * env.getD a 0))
  | trunc (env : List R[T;T⁻¹]) (d a : ℕ) (lo hi : ℤ) (v : R[T;T⁻¹])
      (hv : ∀ k, v.coeff k = if lo ≤ k ∧ k ≤ hi then (env.getD a 0).coeff k else 0) :
      StepAbs env (.trunc d a lo hi) (env.set d v)
  | zero (env : List R[T;T⁻¹]) (d : ℕ) :
      StepAbs env (.zero d) (env.set d 0)

/-- runs of the abstract interpreter along a list of operations -/
inductive RunAbs : List (Op R) → List R[T;T⁻¹] → List R[T;T⁻¹] → Prop
  | nil (env : List R[T;T⁻¹]) : RunAbs [] env env
  | cons {op : Op R} {ops : List (Op R)} {env e env' : List R[T;T⁻¹]} :
      StepAbs env op e → RunAbs ops e env' → RunAbs (op :: ops) env env'

/-- side condition of a `trunc` step: the lower window end `lo` has the parity of every
    power that occurs in the operand (no condition when the operand denotes 0, and none on
    the upper window end) -/
def TruncGuard (f : R[T;T⁻¹]) (lo : ℤ) : Prop := ∀ k, f.coeff k ≠ 0 → (lo - k) % 2 = 0

/-- the executable form of the guard implies it -/
theorem truncGuard_of_parity (p : LP R) (hp : p.WF) (lo : ℤ)
    (h : p.iszero = true ∨ (lo - p.dmin) % 2 = 0) : TruncGuard (den p) lo := by
  intro k hk
  rcases h with hz | h1
  · rw [den_of_iszero hp hz] at hk; simp at hk
  · have := denL_coeff_ne_zero hk
    omega

/-- guard of one operation in a register file: only `trunc` has one -/
def StepOK (env : List (LP R)) : Op R → Prop
  | .trunc _ a lo _ => TruncGuard (den (rd env a)) lo
  | _ => True

/-- every `trunc` that the model history executes satisfies `TruncGuard` -/
def TruncOK : List (Op R) → List (LP R) → Prop
  | [], _ => True
  | op :: ops, env => StepOK env op ∧ ∀ e, step env op = .ok e → TruncOK ops e

theorem rd_WF {env : List (LP R)} (henv : ∀ p ∈ env, p.WF) (i : ℕ) : (rd env i).WF := by
  unfold rd
  rw [List.getD_eq_getElem?_getD]
  cases h : env[i]? with
  | none => exact den_zero.2
  | some q => exact henv q (List.mem_of_getElem? h)

theorem getD_map_den (env : List (LP R)) (i : ℕ) :
    (env.map den).getD i 0 = den (rd env i) := by
  unfold rd
  rw [List.getD_eq_getElem?_getD, List.getD_eq_getElem?_getD, List.getElem?_map]
  cases env[i]? with
  | none => exact (den_zero (R := R)).1.symm
  | some q => rfl

theorem set_WF {env : List (LP R)} (henv : ∀ p ∈ env, p.WF) (d : ℕ) {r : LP R} (hr : r.WF) :
    ∀ p ∈ env.set d r, p.WF := by
  intro p hp
  rcases List.mem_or_eq_of_mem_set hp with h | h
  · exact henv p h
  · exact h ▸ hr

theorem add_ok {p q r : LP R} (hp : p.WF) (hq : q.WF) (h : p.add q = .ok r) :
    den r = den p + den q ∧ r.WF := by
  by_cases hg : p.iszero = true ∨ q.iszero = true ∨ p.parity = q.parity
  · obtain ⟨r', h1, h2, h3⟩ := den_add p q hp hq hg
    rw [h1] at h; cases h; exact ⟨h2, h3⟩
  · have h1 : p.iszero = false := by
      cases hz : p.iszero
      · rfl
      · exact absurd (Or.inl hz) hg
    have h2 : q.iszero = false := by
      cases hz : q.iszero
      · rfl
      · exact absurd (Or.inr (Or.inl hz)) hg
    rw [add_refuses p q h1 h2 (fun h3 => hg (Or.inr (Or.inr h3)))] at h
    cases h

theorem sub_ok {p q r : LP R} (hp : p.WF) (hq : q.WF) (h : p.sub q = .ok r) :
    den r = den p - den q ∧ r.WF := by
  have hn := den_neg q hq
  obtain ⟨h1, h2⟩ := add_ok hp hn.2 h
  exact ⟨by rw [h1, hn.1, sub_eq_add_neg], h2⟩

theorem step_refines (env : List (LP R)) (henv : ∀ p ∈ env, p.WF) (op : Op R)
    (hok : StepOK env op) (e : List (LP R)) (h : step env op = .ok e) :
    StepAbs (env.map den) op (e.map den) ∧ ∀ p ∈ e, p.WF := by
  cases op with
  | mul d a b =>
    cases h
    have := den_mul _ _ (rd_WF henv a) (rd_WF henv b)
    rw [List.map_set, this.1, ← getD_map_den, ← getD_map_den]
    exact ⟨StepAbs.mul _ d a b, set_WF henv d this.2⟩
  | add d a b =>
    simp only [step] at h
    cases hr : (rd env a).add (rd env b) with
    | error err => rw [hr] at h; cases h
    | ok r =>
      rw [hr] at h; cases h
      have := add_ok (rd_WF henv a) (rd_WF henv b) hr
      rw [List.map_set, this.1, ← getD_map_den, ← getD_map_den]
      exact ⟨StepAbs.add _ d a b, set_WF henv d this.2⟩
  | sub d a b =>
    simp only [step] at h
    cases hr : (rd env a).sub (rd env b) with
    | error err => rw [hr] at h; cases h
    | ok r =>
      rw [hr] at h; cases h
      have := sub_ok (rd_WF henv a) (rd_WF henv b) hr
      rw [List.map_set, this.1, ← getD_map_den, ← getD_map_den]
      exact ⟨StepAbs.sub _ d a b, set_WF henv d this.2⟩
  | neg d a =>
    cases h
    have := den_neg _ (rd_WF henv a)
    rw [List.map_set, this.1, ← getD_map_den]
    exact ⟨StepAbs.neg _ d a, set_WF henv d this.2⟩
  | inv d a =>
    cases h
    have := den_inv _ (rd_WF henv a)
    rw [List.map_set, this.1, ← getD_map_den]
    exact ⟨StepAbs.inv _ d a, set_WF henv d this.2⟩
  | smul d a c =>
    cases h
    have := den_smul c _ (rd_WF henv a)
    rw [List.map_set, this.1, ← getD_map_den]
    exact ⟨StepAbs.smul _ d a c, set_WF henv d this.2⟩
  | trunc d a lo hi =>
    simp only [step] at h
    obtain ⟨r, h1, h2, h3⟩ := den_truncate' _ (rd_WF henv a) lo hi hok
    rw [h1] at h; cases h
    rw [List.map_set]
    refine ⟨StepAbs.trunc _ d a lo hi _ ?_, set_WF henv d h2⟩
    rw [getD_map_den]
    exact h3
  | zero d =>
    cases h
    rw [List.map_set, (den_zero (R := R)).1]
    exact ⟨StepAbs.zero _ d, set_WF henv d den_zero.2⟩

/-- every history that the model completes (with guarded `trunc` steps) is a run of the
    abstract interpreter, and well-formedness of the registers is preserved -/
theorem run_refines (ops : List (Op R)) (env : List (LP R)) (henv : ∀ p ∈ env, p.WF)
    (hok : TruncOK ops env) (env' : List (LP R)) (h : run ops env = .ok env') :
    RunAbs ops (env.map den) (env'.map den) ∧ ∀ p ∈ env', p.WF := by
  induction ops generalizing env with
  | nil => cases h; exact ⟨RunAbs.nil _, henv⟩
  | cons op ops ih =>
    simp only [run] at h
    cases he : step env op with
    | error err => rw [he] at h; cases h
    | ok e =>
      rw [he] at h
      obtain ⟨h1, h2⟩ := step_refines env henv op hok.1 e he
      obtain ⟨h3, h4⟩ := ih e h2 (hok.2 e he) h
      exact ⟨RunAbs.cons h1 h3, h4⟩

end QSP

/-
  Property C12 (Jacobian clause), algorithm level, part 4 — the theorem.

  For the palindromic layouts of both parities, the full product `Ucirc θ (layout par red)` and
  the derivative matrix `jacD θ par red j` (`QSP/Proofs/Jacobian.lean`: the true partial
  derivative with respect to reduced phase `j`, `hasDerivAt_layout`) are SYMMETRIC matrices
  `symM v` whose 3-vectors are the chains of 3×3 maps that `gen_poly_jacobian_components` runs;
  hence every entry of the list the model `jacImplPt` returns is the imaginary part of the
  `<+|·|+>` corner of the corresponding matrix.
-/
import QSP.Proofs.JacImplNest

set_option linter.unusedSimpArgs false

open Matrix Complex
namespace QSP
namespace JacImpl

/-! ## lists -/

theorem getD_rev_append_left {α : Type} (H T : List α) (j : ℕ) (hj : j < H.length) (d : α) :
    (H.reverse ++ T).getD (H.length - 1 - j) d = H.getD j d := by
  rw [List.getD_eq_getElem _ _ (by simp; omega), List.getD_eq_getElem _ _ hj,
    List.getElem_append_left (by simp; omega), List.getElem_reverse]
  congr 1
  omega

theorem set_rev_append_left {α : Type} (H T : List α) (j : ℕ) (hj : j < H.length) (a : α) :
    (H.reverse ++ T).set (H.length - 1 - j) a = (H.set j a).reverse ++ T := by
  rw [reverse_set _ _ hj, List.set_append_left _ _ (by simp; omega)]

theorem getD_rev_append_right {α : Type} (H T : List α) (j : ℕ) (d : α) :
    (H.reverse ++ T).getD (H.length + j) d = T.getD j d := by
  rw [List.getD_append_right _ _ _ _ (by simp)]
  simp

theorem set_rev_append_right {α : Type} (H T : List α) (j : ℕ) (a : α) :
    (H.reverse ++ T).set (H.length + j) a = H.reverse ++ T.set j a := by
  rw [List.set_append_right _ _ (by simp)]
  simp

/-! ## `jacDPairs` on palindromic pair lists as nests -/

theorem jacDPairs_odd (θ : ℝ) (H : List (ℂ × ℂ)) (j : ℕ) (hj : j < H.length) :
    jacDPairs θ 1 H.length (H.reverse ++ H) j
      = nestG θ (wC (-θ)) (H.set j (dP (H.getD j (1, 0)))) H
        + nestG θ (wC (-θ)) H (H.set j (dP (H.getD j (1, 0)))) := by
  have hne : H ≠ [] := ne_nil_of_lt_length hj
  unfold jacDPairs positions
  simp only [if_true, List.map_cons, List.map_nil, List.sum_cons, List.sum_nil, add_zero,
    Rat.cast_one, Complex.ofReal_one, one_smul]
  rw [getD_rev_append_left _ _ _ hj, set_rev_append_left _ _ _ hj, getD_rev_append_right,
    set_rev_append_right]
  rw [UcircPairs_even_len θ _ _ (by simp) (by simpa using hne),
    UcircPairs_even_len θ _ _ (by simp) hne]
  rfl

theorem jacDPairs_even_zero (θ : ℝ) (H : List (ℂ × ℂ)) (e : ℂ × ℂ) :
    jacDPairs θ 0 (H.length + 1) (H.reverse ++ e :: H) 0
      = (2 : ℂ) • nestG θ (rotC (dP e).1 (dP e).2) H H := by
  unfold jacDPairs positions
  simp only [zero_ne_one, if_false, if_true, List.map_cons, List.map_nil, List.sum_cons,
    List.sum_nil, add_zero, Nat.add_sub_cancel]
  have h1 := getD_rev_append_right H (e :: H) 0 ((1 : ℂ), (0 : ℂ))
  have h2 := fun a => set_rev_append_right H (e :: H) 0 a
  simp only [Nat.add_zero, List.getD_cons_zero, List.set_cons_zero] at h1 h2
  rw [h1, h2, UcircPairs_odd_len θ _ _ _ rfl]
  norm_num [dP]

theorem jacDPairs_even_succ (θ : ℝ) (H : List (ℂ × ℂ)) (e : ℂ × ℂ) (i : ℕ) (hi : i < H.length) :
    jacDPairs θ 0 (H.length + 1) (H.reverse ++ e :: H) (i + 1)
      = nestG θ (rotC e.1 e.2) (H.set i (dP (H.getD i (1, 0)))) H
        + nestG θ (rotC e.1 e.2) H (H.set i (dP (H.getD i (1, 0)))) := by
  unfold jacDPairs positions
  simp only [zero_ne_one, if_false, Nat.add_eq_zero_iff, one_ne_zero, and_false, List.map_cons,
    List.map_nil, List.sum_cons, List.sum_nil, add_zero, Rat.cast_one, Complex.ofReal_one,
    one_smul, Nat.add_sub_cancel]
  have e1 : H.length - (i + 1) = H.length - 1 - i := by omega
  rw [e1, getD_rev_append_left _ _ _ hi, set_rev_append_left _ _ _ hi, getD_rev_append_right,
    set_rev_append_right]
  simp only [List.getD_cons_succ, List.set_cons_succ]
  rw [UcircPairs_odd_len θ _ _ _ (by simp), UcircPairs_odd_len θ _ _ _ (by simp)]
  rfl

/-! ## exact pairs -/

/-- `(cos x, sin x)` -/
noncomputable def csP (x : ℝ) : ℝ × ℝ := (Real.cos x, Real.sin x)

/-- what the code feeds to the recurrences: `(cos 2φ_k, sin 2φ_k)` for the reduced phases -/
noncomputable def pairs2Of (red : List ℝ) : List (ℝ × ℝ) :=
  red.map fun x => (Real.cos (2 * x), Real.sin (2 * x))

theorem map_cR_csP (red : List ℝ) : (red.map csP).map cR = red.map prC := by
  rw [List.map_map]; rfl

theorem dblP_csP (x : ℝ) : dblP (csP x) = (Real.cos (2 * x), Real.sin (2 * x)) := by
  unfold dblP csP
  refine Prod.ext ?_ ?_
  · simp only
    rw [Real.cos_two_mul]
    linear_combination -(Real.sin_sq_add_cos_sq x)
  · simp only [two]
    rw [Real.sin_two_mul]; ring

theorem map_dblP_csP (red : List ℝ) : (red.map csP).map dblP = pairs2Of red := by
  rw [List.map_map]
  unfold pairs2Of
  congr 1
  funext x
  exact dblP_csP x

theorem unit_csP (red : List ℝ) : ∀ h ∈ red.map csP, h.1 * h.1 + h.2 * h.2 = 1 := by
  intro h hh
  obtain ⟨x, _, rfl⟩ := List.mem_map.mp hh
  have := Real.cos_sq_add_sin_sq x
  simp only [csP]
  linear_combination this

theorem cs_sq (θ : ℝ) : Real.cos θ * Real.cos θ + Real.sin θ * Real.sin θ = 1 := by
  have := Real.cos_sq_add_sin_sq θ
  linear_combination this

/-- the 3-vector of the centre: `B·w0 = R[:,0]` -/
noncomputable def w0 (par : ℕ) (θ : ℝ) : V3 ℝ :=
  if par = 0 then
    (Real.cos θ * Real.cos θ - Real.sin θ * Real.sin θ, 0, -(two * Real.cos θ * Real.sin θ))
  else (Real.cos θ, 0, -Real.sin θ)

theorem matVec_w0 (par : ℕ) (θ : ℝ) :
    matVec (bTh θ) (w0 par θ) = if par = 0 then (1, 0, 0) else (Real.cos θ, 0, Real.sin θ) := by
  have h := cs_sq θ
  unfold w0 bTh
  split_ifs
  · simp only [matVec, bMat, two]
    refine Prod.ext ?_ (Prod.ext ?_ ?_) <;> simp only
    · linear_combination (Real.cos θ * Real.cos θ + Real.sin θ * Real.sin θ + 1) * h
    · ring
    · ring
  · simp only [matVec, bMat, two]
    refine Prod.ext ?_ (Prod.ext ?_ ?_) <;> simp only
    · linear_combination (Real.cos θ) * h
    · ring
    · linear_combination (Real.sin θ) * h

theorem wC_neg_symM (θ : ℝ) : wC (-θ) = symM (Real.cos θ, 0, -Real.sin θ) := by
  rw [wC_eq, PzMat_eq, Real.cos_neg, Real.sin_neg]
  apply Matrix.ext; intro i j
  fin_cases i <;> fin_cases j <;> simp [diagC, symM]

/-- the model on real cos/sin inputs is `jacImplCore` started from `B·w0` -/
theorem jacImplPt_eq_core (par : ℕ) (pairs2 : List (ℝ × ℝ)) (hne : pairs2 ≠ []) (θ : ℝ) :
    jacImplPt par pairs2 (Real.cos θ) (Real.sin θ)
      = jacImplCore (bTh θ) (matVec (bTh θ) (w0 par θ)) pairs2 := by
  unfold jacImplPt
  rw [if_neg (by simpa using hne), matVec_w0]
  rfl

theorem pairs2Of_ne {red : List ℝ} (h : red ≠ []) : pairs2Of red ≠ [] := by
  unfold pairs2Of; simpa using h

theorem pairs2Of_length (red : List ℝ) : (pairs2Of red).length = red.length := by
  unfold pairs2Of; simp

/-! ## the full product and the derivative matrices are symmetric, with the code's 3-vectors -/

theorem vecU_w0_even (θ : ℝ) (p : ℝ × ℝ) (ps : List (ℝ × ℝ)) :
    vecU (bTh θ) (w0 0 θ) (p :: ps) = vecU (bTh θ) (p.1, p.2, 0) ps := by
  simp only [vecU, matVec_w0, if_true]
  congr 1
  simp [matVec, rzMat]

theorem Ucirc_layout_symM (par : ℕ) (hpar : par ≤ 1) (red : List ℝ) (hne : red ≠ []) (θ : ℝ) :
    Ucirc θ (layout (par : ℤ) red) = symM (vecU (bTh θ) (w0 par θ) (pairs2Of red)) := by
  rw [Ucirc_eq_pairs]
  by_cases h1 : par = 1
  · subst h1
    simp only [layout, Nat.cast_one, if_true, List.map_append, List.map_reverse]
    rw [← map_cR_csP, UcircPairs_even_len θ _ _ rfl (by simpa using hne), wC_neg_symM,
      nestG_val θ _ (unit_csP red), map_dblP_csP]
    rfl
  · have h0 : par = 0 := by omega
    subst h0
    cases red with
    | nil => exact absurd rfl hne
    | cons x rest =>
      simp only [layout, Nat.cast_zero, zero_ne_one, if_false, List.map_append, List.map_reverse,
        List.map_cons, List.map_nil, List.append_assoc, List.cons_append, List.nil_append]
      rw [← map_cR_csP, UcircPairs_odd_len θ _ _ _ rfl]
      have hx : (two : ℝ) * x = 2 * x := by unfold two; ring
      have he : rotC (prC (two * x)).1 (prC (two * x)).2
          = symM (Real.cos (2 * x), Real.sin (2 * x), 0) := by
        rw [hx]; exact symM_rotC (Real.cos (2 * x), Real.sin (2 * x))
      rw [he, nestG_val θ _ (unit_csP rest), map_dblP_csP]
      unfold pairs2Of
      rw [List.map_cons, vecU_w0_even]

theorem jacD_symM (par : ℕ) (hpar : par ≤ 1) (red : List ℝ) (θ : ℝ) (j : ℕ)
    (hj : j < red.length) :
    jacD θ par red j
      = symM (vecU (bTh θ) (dbl3 (matVec (dMat ((pairs2Of red).getD j (1, 0)))
          (matVec (bTh θ) (vecU (bTh θ) (w0 par θ) ((pairs2Of red).take j)))))
          ((pairs2Of red).drop (j + 1))) := by
  rw [jacD_eq_jacDPairs]
  by_cases h1 : par = 1
  · subst h1
    simp only [layout, Nat.cast_one, if_true, List.map_append, List.map_reverse]
    rw [← map_cR_csP]
    have hl : red.length = ((red.map csP).map cR).length := by simp
    rw [hl, jacDPairs_odd θ _ j (by simpa using hj), wC_neg_symM,
      nestG_dsum θ _ (unit_csP red) _ j (by simpa using hj), map_dblP_csP]
    rfl
  · have h0 : par = 0 := by omega
    subst h0
    cases red with
    | nil => simp at hj
    | cons x rest =>
      simp only [layout, Nat.cast_zero, zero_ne_one, if_false, List.map_append, List.map_reverse,
        List.map_cons, List.map_nil, List.append_assoc, List.cons_append, List.nil_append]
      rw [← map_cR_csP]
      have hl : (x :: rest).length = ((rest.map csP).map cR).length + 1 := by simp
      have hx : (two : ℝ) * x = 2 * x := by unfold two; ring
      rw [hl, hx]
      have hp : pairs2Of (x :: rest) = (Real.cos (2 * x), Real.sin (2 * x)) :: pairs2Of rest := rfl
      cases j with
      | zero =>
        rw [jacDPairs_even_zero]
        have he : rotC (dP (prC (2 * x))).1 (dP (prC (2 * x))).2
            = symM (-Real.sin (2 * x), Real.cos (2 * x), 0) := by
          have := symM_rotC (-Real.sin (2 * x), Real.cos (2 * x))
          simp only [Complex.ofReal_neg] at this
          exact this
        rw [he, nestG_val θ _ (unit_csP rest), map_dblP_csP, smul_two_symM, ← vecU_dbl3, hp]
        simp only [List.getD_cons_zero, List.take_zero, vecU, List.drop_succ_cons, List.drop_zero,
          matVec_w0, if_true]
        congr 3
        simp [matVec, dMat]
      | succ i =>
        simp only [List.length_cons, Nat.add_lt_add_iff_right] at hj
        rw [jacDPairs_even_succ θ _ _ i (by simpa using hj)]
        have he : rotC (prC (2 * x)).1 (prC (2 * x)).2
            = symM (Real.cos (2 * x), Real.sin (2 * x), 0) :=
          symM_rotC (Real.cos (2 * x), Real.sin (2 * x))
        rw [he, nestG_dsum θ _ (unit_csP rest) _ i (by simpa using hj), map_dblP_csP, hp]
        simp only [List.getD_cons_succ, List.take_succ_cons, List.drop_succ_cons]
        rw [vecU_w0_even]

/-! ## the entries of the model's list -/

theorem jacImplPt_length (par : ℕ) (red : List ℝ) (hne : red ≠ []) (θ : ℝ) :
    (jacImplPt par (pairs2Of red) (Real.cos θ) (Real.sin θ)).length = red.length + 1 := by
  rw [jacImplPt_eq_core par _ (pairs2Of_ne hne), jacImplCore_length, pairs2Of_length]

/-- the last entry `y[n]` is `Im <+|U|+>` of the full product -/
theorem jacImplPt_last_brG (par : ℕ) (hpar : par ≤ 1) (red : List ℝ) (hne : red ≠ []) (θ : ℝ) :
    (jacImplPt par (pairs2Of red) (Real.cos θ) (Real.sin θ)).getD red.length 0
      = (brG .x (Ucirc θ (layout (par : ℤ) red))).im := by
  rw [jacImplPt_eq_core par _ (pairs2Of_ne hne), ← pairs2Of_length red,
    jacImplCore_getD_last _ _ _ (pairs2Of_ne hne), Ucirc_layout_symM par hpar red hne,
    brG_x_symM_im]

/-- entry `k < n` is `Im <+| jacD |+>`, `jacD` the derivative matrix of reduced phase `k` -/
theorem jacImplPt_col_brG (par : ℕ) (hpar : par ≤ 1) (red : List ℝ) (θ : ℝ) (k : ℕ)
    (hk : k < red.length) :
    (jacImplPt par (pairs2Of red) (Real.cos θ) (Real.sin θ)).getD k 0
      = (brG .x (jacD θ par red k)).im := by
  have hne : red ≠ [] := ne_nil_of_lt_length hk
  rw [jacImplPt_eq_core par _ (pairs2Of_ne hne),
    jacImplCore_getD_lt _ _ _ k (by rw [pairs2Of_length]; exact hk), jacD_symM par hpar red θ k hk,
    brG_x_symM_im]

end JacImpl
end QSP

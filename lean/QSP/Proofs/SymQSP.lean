/-
  Proofs for property C12: the phase layout of `SymmetricQSPProtocol`, the history invariant
  of `update_reduced_phases`, the parity of the response and the symmetric structure of the
  product.
-/
import QSP.Model.SymQSP
import QSP.Proofs.Response
import Mathlib.Algebra.Ring.Defs
import Mathlib.Algebra.Ring.Parity
import Mathlib.LinearAlgebra.Matrix.Symmetric
import Mathlib.Data.List.GetD
open Matrix Complex
set_option linter.unusedSectionVars false
namespace QSP

/-! ## A1, A2: the layout -/

section layout
variable {R : Type} [Zero R] [One R] [Add R] [Mul R] [Neg R]

theorem layout_palindrome (parity : ℤ) (r : List R) :
    (layout parity r).reverse = layout parity r := by
  unfold layout
  split_ifs with h
  · simp
  · cases r with
    | nil => rfl
    | cons x rest => simp

theorem layout_length_odd (r : List R) : (layout 1 r).length = 2 * r.length := by
  simp only [layout, if_true, List.length_append, List.length_reverse]
  omega

theorem layout_length_even (parity : ℤ) (h : parity ≠ 1) (r : List R) (hr : r ≠ []) :
    (layout parity r).length = 2 * r.length - 1 := by
  cases r with
  | nil => exact absurd rfl hr
  | cons x rest =>
    simp only [layout, if_neg h, List.length_append, List.length_reverse, List.length_cons,
      List.length_nil]
    omega

theorem layout_centre (parity : ℤ) (h : parity ≠ 1) (x : R) (rest : List R) :
    (layout parity (x :: rest)).getD rest.length 0 = two * x := by
  simp only [layout, if_neg h, List.append_assoc]
  rw [List.getD_append_right _ _ _ _ (by simp)]
  simp

/-- every entry of the even layout: mirror images of the tail around the doubled head -/
theorem layout_even_getD (parity : ℤ) (h : parity ≠ 1) (x : R) (rest : List R) (i : ℕ)
    (hi : i < rest.length) :
    (layout parity (x :: rest)).getD (rest.length + 1 + i) 0 = rest.getD i 0 ∧
    (layout parity (x :: rest)).getD (rest.length - 1 - i) 0 = rest.getD i 0 := by
  simp only [layout, if_neg h, List.append_assoc]
  constructor
  · rw [List.getD_append_right _ _ _ _ (by simp; omega)]
    simp only [List.length_reverse]
    have : rest.length + 1 + i - rest.length = i + 1 := by omega
    rw [this]
    simp
  · rw [List.getD_append _ _ _ _ (by simp; omega)]
    rw [List.getD_eq_getElem _ _ (by simp; omega), List.getElem_reverse,
      List.getD_eq_getElem _ _ hi]
    congr 1
    omega

/-- every entry of the odd layout -/
theorem layout_odd_getD (r : List R) (i : ℕ) (hi : i < r.length) :
    (layout 1 r).getD (r.length + i) 0 = r.getD i 0 ∧
    (layout 1 r).getD (r.length - 1 - i) 0 = r.getD i 0 := by
  simp only [layout, if_true]
  constructor
  · rw [List.getD_append_right _ _ _ _ (by simp)]
    simp
  · rw [List.getD_append _ _ _ _ (by simp; omega)]
    rw [List.getD_eq_getElem _ _ (by simp; omega), List.getElem_reverse,
      List.getD_eq_getElem _ _ hi]
    congr 1
    omega

/-! ## A3: construction and history -/

theorem update_eq_init (s : Proto R) (r : List R) : s.update r = Proto.init r s.parity := rfl

theorem init_parity (r : List R) (p : Option ℤ) : (Proto.init r p).parity = p := by
  unfold Proto.init Proto.build
  cases p with
  | none => rfl
  | some q => by_cases h : r.isEmpty <;> simp [h]

theorem update_history (p : Option ℤ) (r0 : List R) (hist : List (List R)) :
    hist.foldl Proto.update (Proto.init r0 p)
      = Proto.init ((r0 :: hist).getLast (by simp)) p := by
  induction hist generalizing r0 with
  | nil => rfl
  | cons r hist ih =>
    simp only [List.foldl_cons, update_eq_init, init_parity]
    rw [ih]
    simp [List.getLast_cons]

theorem init_spec (p : ℤ) (r : List R) (hr : r ≠ []) :
    (Proto.init r (some p)).full = some (layout p r) ∧
    (Proto.init r (some p)).deg = some ((layout p r).length - 1) ∧
    (Proto.init r (some p)).reduced = r := by
  have : r.isEmpty = false := by
    cases r with
    | nil => exact absurd rfl hr
    | cons _ _ => rfl
  simp [Proto.init, Proto.build, this]

theorem init_none (r : List R) : (Proto.init r none).full = none ∧ (Proto.init r none).deg = none ∧
    (Proto.init r none).reduced = r := ⟨rfl, rfl, rfl⟩

theorem init_nil (p : Option ℤ) : (Proto.init ([] : List R) p).full = none ∧
    (Proto.init ([] : List R) p).deg = none := by
  cases p <;> exact ⟨rfl, rfl⟩

/-- the degree of the protocol: `2k - 1` for parity 1, `2k - 2` otherwise -/
theorem init_deg (p : ℤ) (r : List R) (hr : r ≠ []) :
    (Proto.init r (some p)).deg
      = some (if p = 1 then 2 * r.length - 1 else 2 * r.length - 2) := by
  rw [(init_spec p r hr).2.1]
  split_ifs with h
  · subst h
    rw [layout_length_odd]
  · rw [layout_length_even p h r hr]
    rfl

end layout

/-! ## A4: parity of the response -/

/-- Pauli Z -/
noncomputable def ZMat : M22 := !![1, 0; 0, -1]

theorem ZMat_mul_self : ZMat * ZMat = 1 := by
  apply Matrix.ext; intro i j
  fin_cases i <;> fin_cases j <;> simp [ZMat, Matrix.mul_apply, Fin.sum_univ_two]

theorem WxMat_neg (a : ℝ) : WxMat (-a) = -(ZMat * WxMat a * ZMat) := by
  apply Matrix.ext; intro i j
  fin_cases i <;> fin_cases j <;>
    simp [ZMat, WxMat]

theorem ZMat_PzMat (φ : ℝ) : ZMat * PzMat φ = PzMat φ * ZMat := by
  apply Matrix.ext; intro i j
  fin_cases i <;> fin_cases j <;>
    simp [ZMat, PzMat, Matrix.mul_apply, Fin.sum_univ_two]

theorem ZMat_conj_PzMat (φ : ℝ) : ZMat * PzMat φ * ZMat = PzMat φ := by
  rw [ZMat_PzMat, Matrix.mul_assoc, ZMat_mul_self, Matrix.mul_one]

theorem ZMat_conj_apply00 (M : M22) : (ZMat * M * ZMat) 0 0 = M 0 0 := by
  simp [ZMat, Matrix.mul_apply, Fin.sum_univ_two, Matrix.vecMul, dotProduct]

theorem foldl_Wx_neg (a : ℝ) (φs : List ℝ) (c : ℂ) (X : M22) :
    φs.foldl (fun U ψ => U * sigDef .Wx (-a) * phaseDef .Wx ψ) (c • (ZMat * X * ZMat))
      = (c * (-1) ^ φs.length) •
          (ZMat * φs.foldl (fun U ψ => U * sigDef .Wx a * phaseDef .Wx ψ) X * ZMat) := by
  induction φs generalizing c X with
  | nil => simp
  | cons φ φs ih =>
    simp only [List.foldl_cons, List.length_cons]
    have step : c • (ZMat * X * ZMat) * sigDef .Wx (-a) * phaseDef .Wx φ
        = (-c) • (ZMat * (X * sigDef .Wx a * phaseDef .Wx φ) * ZMat) := by
      simp only [sigDef, phaseDef, WxMat_neg]
      have h1 : ZMat * X * ZMat * (ZMat * WxMat a * ZMat) * PzMat φ
          = ZMat * (X * WxMat a * PzMat φ) * ZMat := by
        calc ZMat * X * ZMat * (ZMat * WxMat a * ZMat) * PzMat φ
            = ZMat * X * (ZMat * ZMat) * WxMat a * (ZMat * PzMat φ) := by
              simp only [Matrix.mul_assoc]
          _ = ZMat * (X * WxMat a * PzMat φ) * ZMat := by
              rw [ZMat_mul_self, ZMat_PzMat]
              simp only [Matrix.mul_assoc, Matrix.mul_one]
      rw [Matrix.smul_mul, Matrix.mul_neg, Matrix.smul_mul, Matrix.neg_mul, h1, neg_smul,
        smul_neg]
    rw [step, ih]
    congr 1
    ring

theorem Udef_Wx_neg (a : ℝ) (φ : ℝ) (φs : List ℝ) :
    Udef .Wx (-a) (φ :: φs)
      = ((-1 : ℂ) ^ φs.length) • (ZMat * Udef .Wx a (φ :: φs) * ZMat) := by
  simp only [Udef]
  have h := foldl_Wx_neg a φs 1 (phaseDef .Wx φ)
  rw [one_smul, one_mul] at h
  rw [← h]
  congr 1
  exact (ZMat_conj_PzMat φ).symm

/-- A4: the `<0|U|0>` response of ANY Wx protocol has the parity of its number of signal
    operators, for every real `a` -/
theorem respDef_neg (φs : List ℝ) (hφ : φs ≠ []) (a : ℝ) :
    respDef .Wx .z φs (-a) = (-1 : ℂ) ^ (φs.length - 1) * respDef .Wx .z φs a := by
  cases φs with
  | nil => exact absurd rfl hφ
  | cons φ φs =>
    rw [respDef_eq_brG, respDef_eq_brG, brG_z, brG_z, Udef_Wx_neg]
    simp only [List.length_cons, Nat.add_sub_cancel, Matrix.smul_apply, smul_eq_mul,
      ZMat_conj_apply00]

theorem neg_one_pow_real_cast (n : ℕ) : ((-1 : ℂ) ^ n) = (((-1 : ℝ) ^ n : ℝ) : ℂ) := by
  push_cast
  rfl

theorem respDef_neg_im (φs : List ℝ) (hφ : φs ≠ []) (a : ℝ) :
    (respDef .Wx .z φs (-a)).im = (-1 : ℝ) ^ (φs.length - 1) * (respDef .Wx .z φs a).im := by
  rw [respDef_neg φs hφ a, neg_one_pow_real_cast, Complex.im_ofReal_mul]

theorem respDef_neg_re (φs : List ℝ) (hφ : φs ≠ []) (a : ℝ) :
    (respDef .Wx .z φs (-a)).re = (-1 : ℝ) ^ (φs.length - 1) * (respDef .Wx .z φs a).re := by
  rw [respDef_neg φs hφ a, neg_one_pow_real_cast, Complex.re_ofReal_mul]

/-- the even layout gives an even response … -/
theorem respDef_layout_even (parity : ℤ) (h : parity ≠ 1) (r : List ℝ) (hr : r ≠ []) (a : ℝ) :
    respDef .Wx .z (layout parity r) (-a) = respDef .Wx .z (layout parity r) a := by
  have hl := layout_length_even parity h r hr
  have hne : layout parity r ≠ [] := by
    intro h0
    rw [h0] at hl
    have : 0 < r.length := List.length_pos_iff.mpr hr
    simp only [List.length_nil] at hl
    omega
  rw [respDef_neg _ hne, hl]
  have : Even (2 * r.length - 1 - 1) := ⟨r.length - 1, by omega⟩
  rw [this.neg_one_pow, one_mul]

/-- … and the odd layout an odd response -/
theorem respDef_layout_odd (r : List ℝ) (hr : r ≠ []) (a : ℝ) :
    respDef .Wx .z (layout 1 r) (-a) = - respDef .Wx .z (layout 1 r) a := by
  have hl := layout_length_odd r
  have hpos : 0 < r.length := List.length_pos_iff.mpr hr
  have hne : layout 1 r ≠ [] := by
    intro h0
    rw [h0] at hl
    simp only [List.length_nil] at hl
    omega
  rw [respDef_neg _ hne, hl]
  have : Odd (2 * r.length - 1) := ⟨r.length - 1, by omega⟩
  rw [this.neg_one_pow, neg_one_mul]

theorem respDef_layout_even_im (parity : ℤ) (h : parity ≠ 1) (r : List ℝ) (hr : r ≠ [])
    (a : ℝ) :
    (respDef .Wx .z (layout parity r) (-a)).im = (respDef .Wx .z (layout parity r) a).im := by
  rw [respDef_layout_even parity h r hr a]

theorem respDef_layout_odd_im (r : List ℝ) (hr : r ≠ []) (a : ℝ) :
    (respDef .Wx .z (layout 1 r) (-a)).im = - (respDef .Wx .z (layout 1 r) a).im := by
  rw [respDef_layout_odd r hr a, Complex.neg_im]

/-! ## A5: symmetric structure -/

theorem PzMat_transpose (φ : ℝ) : (PzMat φ)ᵀ = PzMat φ := by
  apply Matrix.ext; intro i j
  fin_cases i <;> fin_cases j <;> simp [PzMat]

theorem WxMat_transpose (a : ℝ) : (WxMat a)ᵀ = WxMat a := by
  apply Matrix.ext; intro i j
  fin_cases i <;> fin_cases j <;> simp [WxMat]

theorem foldl_Wx_mul (a : ℝ) (φs : List ℝ) (A X : M22) :
    φs.foldl (fun U ψ => U * sigDef .Wx a * phaseDef .Wx ψ) (A * X)
      = A * φs.foldl (fun U ψ => U * sigDef .Wx a * phaseDef .Wx ψ) X := by
  induction φs generalizing X with
  | nil => rfl
  | cons φ φs ih =>
    simp only [List.foldl_cons]
    rw [← ih]
    simp only [Matrix.mul_assoc]

theorem Udef_Wx_cons (a : ℝ) (φ ψ : ℝ) (l : List ℝ) :
    Udef .Wx a (φ :: ψ :: l) = PzMat φ * WxMat a * Udef .Wx a (ψ :: l) := by
  simp only [Udef, List.foldl_cons]
  rw [← foldl_Wx_mul]
  simp only [sigDef, phaseDef, Matrix.mul_assoc]

theorem Udef_Wx_snoc (a : ℝ) (φ ψ : ℝ) (l : List ℝ) :
    Udef .Wx a ((φ :: l) ++ [ψ]) = Udef .Wx a (φ :: l) * WxMat a * PzMat ψ := by
  simp only [Udef, List.cons_append, List.foldl_append, List.foldl_cons, List.foldl_nil, sigDef,
    phaseDef]

/-- A5: the transposed product is the product of the reversed phase list -/
theorem Udef_Wx_transpose (a : ℝ) (φs : List ℝ) :
    (Udef .Wx a φs)ᵀ = Udef .Wx a φs.reverse := by
  induction φs with
  | nil => simp [Udef]
  | cons φ l ih =>
    cases l with
    | nil => simp only [Udef, List.foldl_nil, List.reverse_cons, List.reverse_nil,
        List.nil_append, phaseDef, PzMat_transpose]
    | cons ψ l =>
      rw [Udef_Wx_cons, Matrix.transpose_mul, Matrix.transpose_mul, ih, PzMat_transpose,
        WxMat_transpose]
      have hne : (ψ :: l).reverse ≠ [] := by simp
      obtain ⟨x, xs, hx⟩ := List.exists_cons_of_ne_nil hne
      have hrev : (φ :: ψ :: l).reverse = (ψ :: l).reverse ++ [φ] := List.reverse_cons
      rw [hrev, hx, Udef_Wx_snoc, Matrix.mul_assoc]

theorem Udef_Wx_symmetric (a : ℝ) (φs : List ℝ) (h : φs.reverse = φs) :
    (Udef .Wx a φs)ᵀ = Udef .Wx a φs := by
  rw [Udef_Wx_transpose, h]

/-- the product of a symmetric-QSP layout is a symmetric matrix: its off-diagonal entries
    agree -/
theorem Udef_layout_symmetric (parity : ℤ) (r : List ℝ) (a : ℝ) :
    (Udef .Wx a (layout parity r))ᵀ = Udef .Wx a (layout parity r) :=
  Udef_Wx_symmetric a _ (layout_palindrome parity r)

theorem Udef_layout_offdiag (parity : ℤ) (r : List ℝ) (a : ℝ) :
    Udef .Wx a (layout parity r) 0 1 = Udef .Wx a (layout parity r) 1 0 := by
  have := congrFun (congrFun (Udef_layout_symmetric parity r a) 1) 0
  simpa [Matrix.transpose_apply] using this

end QSP

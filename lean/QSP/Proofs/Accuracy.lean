/-
  Soundness of the accuracy certificates of `QSP/Model/Accuracy.lean` (property C16):
  exact Chebyshev-basis list arithmetic (`addL`, `subL`, scaling, multiplication by `x`,
  monomial → Chebyshev conversion), the exact Taylor coefficient lists of `cos(τ x)` /
  `sin(τ x)`, and the two validators `validTrig`, `validInv`.
-/
import QSP.Model.Accuracy
import QSP.Proofs.ValidCore
import QSP.Proofs.Trig
import QSP.Proofs.EvalC
import QSP.Proofs.Sup
import Mathlib.Tactic.Ring
import Mathlib.Tactic.Linarith
import Mathlib.Tactic.FieldSimp
import Mathlib.Tactic.LinearCombination
import Mathlib.Tactic.Positivity
import Mathlib.Tactic.GCongr
import Mathlib.Tactic.NormNum
import Mathlib.Tactic.Push

open Complex Finset
namespace QSP

/-! ## 1. list arithmetic under `wsum` / `chebAt` -/

theorem wsum_addL (g : ℕ → ℝ) (a b : List ℚ) (k : ℕ) :
    wsum g (addL a b) k = wsum g a k + wsum g b k := by
  induction a generalizing b k with
  | nil => simp [addL, wsum]
  | cons c cs ih =>
    cases b with
    | nil => simp [addL, wsum]
    | cons d ds => simp only [addL, wsum, ih]; push_cast; ring

theorem wsum_map_neg (g : ℕ → ℝ) (a : List ℚ) (k : ℕ) :
    wsum g (a.map (- ·)) k = - wsum g a k := by
  induction a generalizing k with
  | nil => simp [wsum]
  | cons c cs ih => simp only [List.map_cons, wsum, ih]; push_cast; ring

theorem wsum_subL (g : ℕ → ℝ) (a b : List ℚ) (k : ℕ) :
    wsum g (subL a b) k = wsum g a k - wsum g b k := by
  rw [subL, wsum_addL, wsum_map_neg]; ring

theorem wsum_map_mul (g : ℕ → ℝ) (s : ℚ) (a : List ℚ) (k : ℕ) :
    wsum g (a.map (s * ·)) k = (s : ℝ) * wsum g a k := by
  induction a generalizing k with
  | nil => simp [wsum]
  | cons c cs ih => simp only [List.map_cons, wsum, ih]; push_cast; ring

theorem wsum_map_div (g : ℕ → ℝ) (s : ℚ) (a : List ℚ) (k : ℕ) :
    wsum g (a.map (· / s)) k = wsum g a k / (s : ℝ) := by
  induction a generalizing k with
  | nil => simp [wsum]
  | cons c cs ih => simp only [List.map_cons, wsum, ih]; push_cast; ring

theorem chebAt_addL (a b : List ℚ) (x : ℝ) :
    chebAt (addL a b) x = chebAt a x + chebAt b x := wsum_addL _ a b 0

theorem chebAt_subL (a b : List ℚ) (x : ℝ) :
    chebAt (subL a b) x = chebAt a x - chebAt b x := wsum_subL _ a b 0

theorem chebAt_map_mul (s : ℚ) (c : List ℚ) (x : ℝ) :
    chebAt (c.map (s * ·)) x = (s : ℝ) * chebAt c x := wsum_map_mul _ s c 0

theorem chebAt_map_div (s : ℚ) (c : List ℚ) (x : ℝ) :
    chebAt (c.map (· / s)) x = chebAt c x / (s : ℝ) := wsum_map_div _ s c 0

@[simp] theorem chebAt_nil (x : ℝ) : chebAt [] x = 0 := rfl

theorem chebAt_singleton (c : ℚ) (x : ℝ) : chebAt [c] x = (c : ℝ) := by
  simp [chebAt, wsum]

/-- `|Σ c_k T_k(x)| ≤ Σ |c_k|` on `[-1,1]` -/
theorem abs_chebAt_le_l1 (c : List ℚ) (x : ℝ) (hx : x ∈ Set.Icc (-1 : ℝ) 1) :
    |chebAt c x| ≤ ((l1 c : ℚ) : ℝ) :=
  abs_wsum_le _ (fun _ => Polynomial.Chebyshev.abs_eval_T_real_le_one _
    (abs_le.mpr ⟨hx.1, hx.2⟩)) c 0

/-! ## 2. multiplication by `x` in the Chebyshev basis -/

/-- `Σ_j l_j (T_{k+2+j} + T_{k+j}) = 2 x Σ_j l_j T_{k+1+j}` -/
theorem wsum_T_shift (x : ℝ) (l : List ℚ) (k : ℕ) :
    wsum (fun j => (Polynomial.Chebyshev.T ℝ (j : ℤ)).eval x) l (k + 2) +
      wsum (fun j => (Polynomial.Chebyshev.T ℝ (j : ℤ)).eval x) l k =
    2 * x * wsum (fun j => (Polynomial.Chebyshev.T ℝ (j : ℤ)).eval x) l (k + 1) := by
  induction l generalizing k with
  | nil => simp [wsum]
  | cons a as ih =>
    simp only [wsum]
    have h := ih (k + 1)
    have hT : (Polynomial.Chebyshev.T ℝ ((k + 2 : ℕ) : ℤ)).eval x =
        2 * x * (Polynomial.Chebyshev.T ℝ ((k + 1 : ℕ) : ℤ)).eval x -
          (Polynomial.Chebyshev.T ℝ ((k : ℕ) : ℤ)).eval x := by
      push_cast
      rw [Polynomial.Chebyshev.T_add_two]
      simp only [Polynomial.eval_sub, Polynomial.eval_mul, Polynomial.eval_ofNat,
        Polynomial.eval_X]
    rw [hT]
    linear_combination h

theorem chebAt_chebMulX (c : List ℚ) (x : ℝ) : chebAt (chebMulX c) x = x * chebAt c x := by
  cases c with
  | nil => simp [chebMulX]
  | cons c0 rest =>
    simp only [chebMulX]
    rw [chebAt_addL]
    simp only [chebAt, wsum, wsum_map_div]
    have h := wsum_T_shift x rest 0
    simp only [zero_add] at h ⊢
    have h0 : (Polynomial.Chebyshev.T ℝ ((0 : ℕ) : ℤ)).eval x = 1 := by simp
    have h1 : (Polynomial.Chebyshev.T ℝ ((1 : ℕ) : ℤ)).eval x = x := by simp
    rw [h0, h1]
    push_cast
    linear_combination (1 / 2 : ℝ) * h

/-! ## 3. monomial → Chebyshev conversion -/

theorem monoToCheb_cons (c : ℚ) (a : List ℚ) :
    monoToCheb (c :: a) = addL [c] (chebMulX (monoToCheb a)) := rfl

theorem chebAt_monoToCheb (a : List ℚ) (x : ℝ) : chebAt (monoToCheb a) x = polyAt a x := by
  induction a with
  | nil => simp [monoToCheb]
  | cons c cs ih =>
    rw [monoToCheb_cons, chebAt_addL, chebAt_singleton, chebAt_chebMulX, ih, polyAt_cons]

/-! ## 4. the Taylor coefficient lists -/

theorem trig_head (m : ℕ) (t : ℚ) :
    (((if m % 4 = 0 then t else if m % 4 = 2 then -t else 0 : ℚ) : ℝ) : ℂ) +
      (((if m % 4 = 1 then t else if m % 4 = 3 then -t else 0 : ℚ) : ℝ) : ℂ) * I =
    ((t : ℝ) : ℂ) * I ^ m := by
  have hI : I ^ m = I ^ (m % 4) := by
    conv_lhs => rw [← Nat.div_add_mod m 4, pow_add, pow_mul, I_pow_four, one_pow, one_mul]
  rw [hI]
  have h : m % 4 = 0 ∨ m % 4 = 1 ∨ m % 4 = 2 ∨ m % 4 = 3 := by omega
  rcases h with h | h | h | h <;> simp [h]

/-- invariant of the auxiliary recursion: with `t = τ^m / m!` the two lists are the real and
    imaginary parts of the coefficients of `Σ_{j<n} (i τ)^(m+j) / (m+j)! x^j` -/
theorem trigTaylorAux_spec (τ : ℚ) (x : ℝ) (n m : ℕ) (t : ℚ)
    (ht : t = τ ^ m / (m.factorial : ℚ)) :
    ((polyAt (trigTaylorAux τ n m t).1 x : ℝ) : ℂ) +
        ((polyAt (trigTaylorAux τ n m t).2 x : ℝ) : ℂ) * I =
      ∑ j ∈ range n, (((τ : ℝ) : ℂ) * I) ^ (m + j) / ((m + j).factorial : ℂ) * (x : ℂ) ^ j := by
  induction n generalizing m t with
  | zero => simp [trigTaylorAux]
  | succ n ih =>
    have ht' : t * τ / ((m + 1 : ℕ) : ℚ) = τ ^ (m + 1) / ((m + 1).factorial : ℚ) := by
      have h1 : ((m + 1 : ℕ) : ℚ) ≠ 0 := by exact_mod_cast Nat.succ_ne_zero m
      have h2 : (m.factorial : ℚ) ≠ 0 := by exact_mod_cast Nat.factorial_ne_zero m
      rw [ht, Nat.factorial_succ]; push_cast; field_simp; ring
    have hrec := ih (m + 1) _ ht'
    simp only [trigTaylorAux, polyAt_cons]
    rw [sum_range_succ']
    have hsum : ∑ j ∈ range n, (((τ : ℝ) : ℂ) * I) ^ (m + (j + 1)) /
          ((m + (j + 1)).factorial : ℂ) * (x : ℂ) ^ (j + 1) =
        (x : ℂ) * ∑ j ∈ range n, (((τ : ℝ) : ℂ) * I) ^ (m + 1 + j) /
          ((m + 1 + j).factorial : ℂ) * (x : ℂ) ^ j := by
      rw [mul_sum]
      apply sum_congr rfl
      intro j _
      rw [show m + (j + 1) = m + 1 + j by ring, pow_succ]; ring
    rw [hsum, ← hrec]
    have hhead := trig_head m t
    have hm : (((τ : ℝ) : ℂ) * I) ^ (m + 0) / ((m + 0).factorial : ℂ) * (x : ℂ) ^ 0 =
        ((t : ℝ) : ℂ) * I ^ m := by
      have h2 : (m.factorial : ℂ) ≠ 0 := by exact_mod_cast Nat.factorial_ne_zero m
      rw [ht]; push_cast; rw [add_zero, pow_zero, mul_one, mul_pow]; field_simp
    rw [hm, ← hhead]
    push_cast
    ring

theorem trigTaylor_spec (τ : ℚ) (n : ℕ) (x : ℝ) :
    ((polyAt (cosTaylor τ n) x : ℝ) : ℂ) + ((polyAt (sinTaylor τ n) x : ℝ) : ℂ) * I =
      expI ((τ : ℝ) * x) n := by
  rw [cosTaylor, sinTaylor, trigTaylorAux_spec τ x n 0 1 (by simp), expI]
  apply sum_congr rfl
  intro j _
  rw [zero_add]; push_cast; rw [mul_pow, mul_pow, mul_pow]; ring

theorem polyAt_cosTaylor (τ : ℚ) (n : ℕ) (x : ℝ) :
    polyAt (cosTaylor τ n) x = (expI ((τ : ℝ) * x) n).re := by
  rw [← trigTaylor_spec]; simp

theorem polyAt_sinTaylor (τ : ℚ) (n : ℕ) (x : ℝ) :
    polyAt (sinTaylor τ n) x = (expI ((τ : ℝ) * x) n).im := by
  rw [← trigTaylor_spec]; simp

/-! ## 5. the cosine / sine certificate -/

/-- the scaled Taylor polynomial is within `|scale| · 2|τ|^n/n!` of the scaled function on
    `[-1,1]` when `2|τ| ≤ n + 1` -/
theorem trig_taylor_err (isSin : Bool) (τ scale : ℚ) (n : ℕ)
    (hg : 2 * qabs τ ≤ ((n + 1 : ℕ) : ℚ)) (x : ℝ) (hx : x ∈ Set.Icc (-1 : ℝ) 1) :
    |(scale : ℝ) * polyAt (if isSin then sinTaylor τ n else cosTaylor τ n) x -
        (scale : ℝ) * (if isSin then Real.sin ((τ : ℝ) * x) else Real.cos ((τ : ℝ) * x))| ≤
      ((qabs scale * trigRem τ n : ℚ) : ℝ) := by
  have hg' : 2 * |(τ : ℝ)| ≤ (n : ℝ) + 1 := by
    rw [qabs_eq] at hg
    have : ((2 * |τ| : ℚ) : ℝ) ≤ (((n + 1 : ℕ) : ℚ) : ℝ) := by exact_mod_cast hg
    push_cast at this
    exact this
  have hx1 : |x| ≤ 1 := abs_le.mpr ⟨hx.1, hx.2⟩
  have hτx : |(τ : ℝ) * x| ≤ |(τ : ℝ)| := by
    rw [abs_mul]
    have := abs_nonneg (τ : ℝ)
    nlinarith
  have hpos : (0 : ℝ) < (n.succ : ℝ) := by positivity
  have hside : |(τ : ℝ) * x| / (n.succ : ℝ) ≤ 1 / 2 := by
    rw [div_le_iff₀ hpos]; push_cast; linarith
  obtain ⟨hcos, hsin⟩ := cos_sin_bound ((τ : ℝ) * x) n hside
  have hrem : |(τ : ℝ) * x| ^ n / (n.factorial : ℝ) * 2 ≤ ((trigRem τ n : ℚ) : ℝ) := by
    rw [trigRem_cast]
    have hf : (0 : ℝ) < (n.factorial : ℝ) := by exact_mod_cast Nat.factorial_pos n
    have hp : |(τ : ℝ) * x| ^ n ≤ |(τ : ℝ)| ^ n := pow_le_pow_left₀ (abs_nonneg _) hτx n
    gcongr
  have hs : ((qabs scale * trigRem τ n : ℚ) : ℝ) = |(scale : ℝ)| * ((trigRem τ n : ℚ) : ℝ) := by
    rw [qabs_eq]; push_cast; rfl
  rw [hs, ← mul_sub, abs_mul]
  apply mul_le_mul_of_nonneg_left _ (abs_nonneg _)
  cases isSin with
  | true =>
    simp only [if_true]
    rw [polyAt_sinTaylor, abs_sub_comm]
    exact hsin.trans hrem
  | false =>
    simp only [Bool.false_eq_true, if_false]
    rw [polyAt_cosTaylor, abs_sub_comm]
    exact hcos.trans hrem

/-- **C16 (cosine / sine)**: an accepted certificate bounds the distance of the Chebyshev
    series `Σ c_k T_k` to `scale · cos(τ x)` (`scale · sin(τ x)`) on all of `[-1,1]` -/
theorem validTrig_sound (isSin : Bool) (τ ε scale : ℚ) (n : ℕ) (c : List ℚ) (depth : ℕ)
    (h : (validTrig isSin τ ε scale n c depth).ok = true) :
    ∀ x : ℝ, x ∈ Set.Icc (-1 : ℝ) 1 →
      |chebAt c x - (scale : ℝ) *
          (if isSin then Real.sin ((τ : ℝ) * x) else Real.cos ((τ : ℝ) * x))| ≤ (ε : ℝ) := by
  intro x hx
  unfold validTrig at h
  split at h
  · simp at h
  · rename_i hg
    rw [not_not] at hg
    dsimp only at h
    have herr := trig_taylor_err isSin τ scale n hg x hx
    set T : List ℚ := if isSin then sinTaylor τ n else cosTaylor τ n with hT
    set d : List ℚ := subL c (monoToCheb (T.map (scale * ·))) with hd
    have hdx : chebAt d x = chebAt c x - (scale : ℝ) * polyAt T x := by
      rw [hd, chebAt_subL, chebAt_monoToCheb, polyAt_map_mul]
    have hsplit : chebAt c x - (scale : ℝ) *
          (if isSin then Real.sin ((τ : ℝ) * x) else Real.cos ((τ : ℝ) * x)) =
        chebAt d x + ((scale : ℝ) * polyAt T x - (scale : ℝ) *
          (if isSin then Real.sin ((τ : ℝ) * x) else Real.cos ((τ : ℝ) * x))) := by
      rw [hdx]; ring
    rw [hsplit]
    refine (abs_add_le _ _).trans ?_
    split at h
    · rename_i hb
      have hb' : ((l1 d + qabs scale * trigRem τ n : ℚ) : ℝ) ≤ (ε : ℝ) := by exact_mod_cast hb
      rw [Rat.cast_add] at hb'
      have := abs_chebAt_le_l1 d x hx
      linarith
    · have hs := chebSupLe_sound d (ε - qabs scale * trigRem τ n) depth h x hx
      rw [Rat.cast_sub] at hs
      linarith

/-! ## 6. `(1 - x²)^b` -/

theorem chebAt_chebMulOneMinusX2 (f : List ℚ) (x : ℝ) :
    chebAt (chebMulOneMinusX2 f) x = (1 - x ^ 2) * chebAt f x := by
  rw [chebMulOneMinusX2, chebAt_subL, chebAt_chebMulX, chebAt_chebMulX]; ring

theorem chebAt_oneMinusX2Pow (b : ℕ) (x : ℝ) : chebAt (oneMinusX2Pow b) x = (1 - x ^ 2) ^ b := by
  induction b with
  | zero => simp [oneMinusX2Pow, chebAt_singleton]
  | succ b ih => rw [oneMinusX2Pow, chebAt_chebMulOneMinusX2, ih]; ring

theorem qpow_eq (q : ℚ) (n : ℕ) : qpow q n = q ^ n := by
  induction n with
  | zero => simp [qpow]
  | succ n ih => rw [qpow, ih, pow_succ]

theorem qpow_cast (q : ℚ) (n : ℕ) : ((qpow q n : ℚ) : ℝ) = (q : ℝ) ^ n := by
  rw [qpow_eq]; push_cast; rfl

/-! ## 7. the `1/x` certificate -/

/-- **C16 (1/x)**: an accepted certificate bounds the distance of `p/scale`, `p = Σ c_k T_k`,
    to `1/x` on `1/κ ≤ |x| ≤ 1` by `3 ε` -/
theorem validInv_sound (κ ε scale : ℚ) (b : ℕ) (c : List ℚ)
    (h : (validInv κ ε scale b c).ok = true) :
    ∀ x : ℝ, 1 / (κ : ℝ) ≤ |x| → |x| ≤ 1 →
      |chebAt c x / (scale : ℝ) - 1 / x| ≤ 3 * (ε : ℝ) := by
  intro x hx1 hx2
  unfold validInv at h
  split at h
  · simp at h
  · rename_i hg
    simp only [Bool.or_eq_true, decide_eq_true_eq, not_or, not_le, not_lt] at hg
    obtain ⟨_, hκ⟩ := hg
    dsimp only at h
    rw [decide_eq_true_eq] at h
    set e : List ℚ := addL (subL (chebMulX (c.map (· / scale))) [1]) (oneMinusX2Pow b) with he
    have hκ1 : (1 : ℝ) ≤ (κ : ℝ) := by exact_mod_cast hκ
    have hκ0 : (0 : ℝ) < (κ : ℝ) := by linarith
    have hxpos : 0 < |x| := lt_of_lt_of_le (by positivity) hx1
    have hx0 : x ≠ 0 := abs_pos.mp hxpos
    have hxI : x ∈ Set.Icc (-1 : ℝ) 1 := ⟨(abs_le.mp hx2).1, (abs_le.mp hx2).2⟩
    -- the bound of the certificate, in ℝ
    have hB : (κ : ℝ) * (((l1 e : ℚ) : ℝ) + (1 - 1 / ((κ : ℝ) * (κ : ℝ))) ^ b) ≤ 3 * (ε : ℝ) := by
      have : ((κ * (l1 e + qpow (1 - 1 / (κ * κ)) b) : ℚ) : ℝ) ≤ ((3 * ε : ℚ) : ℝ) := by
        exact_mod_cast h
      rw [Rat.cast_mul, Rat.cast_add, qpow_cast] at this
      push_cast at this
      exact this
    -- the polynomial identity
    set G : ℝ := chebAt c x / (scale : ℝ) with hG
    have hE : chebAt e x = x * G - 1 + (1 - x ^ 2) ^ b := by
      rw [he, chebAt_addL, chebAt_subL, chebAt_chebMulX, chebAt_map_div, chebAt_singleton,
        chebAt_oneMinusX2Pow]
      push_cast; ring
    have hEl : |chebAt e x| ≤ ((l1 e : ℚ) : ℝ) := abs_chebAt_le_l1 e x hxI
    -- `(1 - x²)^b ≤ (1 - 1/κ²)^b`
    have hxsq : 1 / ((κ : ℝ) * (κ : ℝ)) ≤ x ^ 2 := by
      have h0 : (0 : ℝ) ≤ 1 / (κ : ℝ) := by positivity
      have : (1 / (κ : ℝ)) * (1 / (κ : ℝ)) ≤ |x| * |x| := mul_le_mul hx1 hx1 h0 hxpos.le
      rw [abs_mul_abs_self] at this
      calc 1 / ((κ : ℝ) * (κ : ℝ)) = (1 / (κ : ℝ)) * (1 / (κ : ℝ)) := by field_simp
        _ ≤ x * x := this
        _ = x ^ 2 := by ring
    have hx2' : x ^ 2 ≤ 1 := by
      rw [← sq_abs]; nlinarith [abs_nonneg x]
    have hP0 : (0 : ℝ) ≤ 1 - x ^ 2 := by linarith
    have hP : (1 - x ^ 2) ^ b ≤ (1 - 1 / ((κ : ℝ) * (κ : ℝ))) ^ b :=
      pow_le_pow_left₀ hP0 (by linarith) b
    have hPn : (0 : ℝ) ≤ (1 - x ^ 2) ^ b := pow_nonneg hP0 b
    -- `g(x) - 1/x = (E(x) - (1-x²)^b)/x`
    have hid : G - 1 / x = (chebAt e x - (1 - x ^ 2) ^ b) / x := by
      rw [hE]; field_simp; ring
    rw [hid, abs_div]
    have hnum : |chebAt e x - (1 - x ^ 2) ^ b| ≤
        ((l1 e : ℚ) : ℝ) + (1 - 1 / ((κ : ℝ) * (κ : ℝ))) ^ b := by
      refine (abs_sub _ _).trans ?_
      rw [abs_of_nonneg hPn]; linarith
    have hnum0 : (0 : ℝ) ≤ ((l1 e : ℚ) : ℝ) + (1 - 1 / ((κ : ℝ) * (κ : ℝ))) ^ b :=
      (abs_nonneg _).trans hnum
    rw [div_le_iff₀ hxpos]
    have hκx : 1 ≤ (κ : ℝ) * |x| := by
      have := mul_le_mul_of_nonneg_left hx1 hκ0.le
      rwa [mul_one_div_cancel hκ0.ne'] at this
    calc |chebAt e x - (1 - x ^ 2) ^ b|
        ≤ (((l1 e : ℚ) : ℝ) + (1 - 1 / ((κ : ℝ) * (κ : ℝ))) ^ b) * 1 := by rw [mul_one]; exact hnum
      _ ≤ (((l1 e : ℚ) : ℝ) + (1 - 1 / ((κ : ℝ) * (κ : ℝ))) ^ b) * ((κ : ℝ) * |x|) :=
          mul_le_mul_of_nonneg_left hκx hnum0
      _ = ((κ : ℝ) * (((l1 e : ℚ) : ℝ) + (1 - 1 / ((κ : ℝ) * (κ : ℝ))) ^ b)) * |x| := by ring
      _ ≤ 3 * (ε : ℝ) * |x| := mul_le_mul_of_nonneg_right hB hxpos.le

end QSP

/-
  Fixed-point search (property C18), the `gamma` / `delta` clause of `phases.py :: FPSearch.generate`:

      gamma = 1 / np.cosh((1 / L) * np.arccosh(1 / delta))        -- "T_{1/L}(1/delta)"

  `gammaOf δ L` is that expression over the reals (Mathlib's `Real.cosh`, `Real.arcosh`).  Proved:
    * `0 < gammaOf δ L ≤ 1` and `T_L(1 / gammaOf δ L) = 1 / δ` for every `0 < δ ≤ 1`, `L ≥ 1`;
    * `T_L` is injective on `[1, ∞)` (`L ≠ 0`), hence `γ = gammaOf δ L` is the ONLY `γ ∈ (0, 1]`
      with `T_L(1/γ) = 1/δ`  — passing `gamma` directly is the same as passing the `delta` with
      `1/δ = T_L(1/γ)`;
    * the success-probability expression certified by `validFP` (in terms of `x = 1/γ`) is the
      property's `1 - δ² T_L(T_{1/L}(1/δ) √(1-λ))²`.
-/
import Mathlib.Analysis.SpecialFunctions.Arcosh
import Mathlib.Analysis.SpecialFunctions.Trigonometric.Chebyshev.Basic
import Mathlib.Analysis.SpecialFunctions.Trigonometric.Chebyshev.RootsExtrema
import Mathlib.Tactic.FieldSimp
import Mathlib.Tactic.Positivity

open Polynomial.Chebyshev
namespace QSP

/-- `T_{1/L}(y) = cosh(arcosh(y) / L)` — the code's `np.cosh((1 / L) * np.arccosh(y))` -/
noncomputable def chebInvL (y : ℝ) (L : ℕ) : ℝ := Real.cosh ((1 / (L : ℝ)) * Real.arcosh y)

/-- the code's `gamma = 1 / np.cosh((1 / L) * np.arccosh(1 / delta))` -/
noncomputable def gammaOf (δ : ℝ) (L : ℕ) : ℝ := 1 / chebInvL (1 / δ) L

theorem one_le_chebInvL (y : ℝ) (L : ℕ) : 1 ≤ chebInvL y L := Real.one_le_cosh _

/-- `T_L(T_{1/L}(y)) = y` for `y ≥ 1`, `L ≥ 1` -/
theorem eval_T_chebInvL {y : ℝ} (hy : 1 ≤ y) {L : ℕ} (hL : L ≠ 0) :
    (T ℝ (L : ℤ)).eval (chebInvL y L) = y := by
  have hL' : (L : ℝ) ≠ 0 := by exact_mod_cast hL
  rw [chebInvL, T_real_cosh]
  have : ((L : ℤ) : ℝ) * (1 / (L : ℝ) * Real.arcosh y) = Real.arcosh y := by
    push_cast; field_simp
  rw [this, Real.cosh_arcosh hy]

/-- `T_n` is injective on `[1, ∞)` for `n ≠ 0` -/
theorem eval_T_injOn {n : ℕ} (hn : n ≠ 0) {x y : ℝ} (hx : 1 ≤ x) (hy : 1 ≤ y)
    (h : (T ℝ (n : ℤ)).eval x = (T ℝ (n : ℤ)).eval y) : x = y := by
  have hn' : (0 : ℝ) < (n : ℝ) := by exact_mod_cast Nat.pos_of_ne_zero hn
  have hx' := Real.cosh_arcosh hx
  have hy' := Real.cosh_arcosh hy
  rw [← hx', ← hy', T_real_cosh, T_real_cosh] at h
  have ha := Real.arcosh_nonneg hx
  have hb := Real.arcosh_nonneg hy
  have h1 : ((n : ℤ) : ℝ) * Real.arcosh x = ((n : ℤ) : ℝ) * Real.arcosh y := by
    apply Real.cosh_injOn _ _ h
    · simp only [Set.mem_Ici, Int.cast_natCast]; positivity
    · simp only [Set.mem_Ici, Int.cast_natCast]; positivity
  have h2 : Real.arcosh x = Real.arcosh y := by
    have hne : (((n : ℤ) : ℝ)) ≠ 0 := by simp only [Int.cast_natCast]; exact ne_of_gt hn'
    exact mul_left_cancel₀ hne h1
  rw [← hx', ← hy', h2]

theorem gammaOf_pos (δ : ℝ) (L : ℕ) : 0 < gammaOf δ L := by
  have := one_le_chebInvL (1 / δ) L
  unfold gammaOf; positivity

theorem gammaOf_le_one (δ : ℝ) (L : ℕ) : gammaOf δ L ≤ 1 := by
  have h := one_le_chebInvL (1 / δ) L
  unfold gammaOf
  rw [div_le_one (by linarith)]; exact h

theorem one_div_gammaOf (δ : ℝ) (L : ℕ) : 1 / gammaOf δ L = chebInvL (1 / δ) L := by
  unfold gammaOf; rw [one_div_one_div]

/-- the defining relation: `T_L(1/γ) = 1/δ` for the code's `γ` -/
theorem eval_T_one_div_gammaOf {δ : ℝ} (h0 : 0 < δ) (h1 : δ ≤ 1) {L : ℕ} (hL : L ≠ 0) :
    (T ℝ (L : ℤ)).eval (1 / gammaOf δ L) = 1 / δ := by
  rw [one_div_gammaOf]
  exact eval_T_chebInvL (by rw [le_div_iff₀ h0]; linarith) hL

/-- `γ` is determined by `δ`: the only `γ ∈ (0,1]` with `T_L(1/γ) = 1/δ` is the code's -/
theorem gamma_delta_iff {δ γ : ℝ} (h0 : 0 < δ) (h1 : δ ≤ 1) (g0 : 0 < γ) (g1 : γ ≤ 1)
    {L : ℕ} (hL : L ≠ 0) :
    (T ℝ (L : ℤ)).eval (1 / γ) = 1 / δ ↔ γ = gammaOf δ L := by
  constructor
  · intro h
    have hx : (1 : ℝ) ≤ 1 / γ := by rw [le_div_iff₀ g0]; linarith
    have hy : (1 : ℝ) ≤ 1 / gammaOf δ L := by
      rw [one_div_gammaOf]; exact one_le_chebInvL _ _
    have := eval_T_injOn hL hx hy (by rw [h, eval_T_one_div_gammaOf h0 h1 hL])
    have h2 : γ = 1 / (1 / γ) := by rw [one_div_one_div]
    rw [h2, this, one_div_one_div]
  · rintro rfl; exact eval_T_one_div_gammaOf h0 h1 hL

/-- and `δ` by `γ`: `δ = 1 / T_L(1/γ)` is the only `δ ∈ (0,1]` whose `gammaOf` is `γ` -/
theorem delta_of_gamma {γ : ℝ} (g0 : 0 < γ) (g1 : γ ≤ 1) {L : ℕ} (hL : L ≠ 0) :
    let δ := 1 / (T ℝ (L : ℤ)).eval (1 / γ)
    0 < δ ∧ δ ≤ 1 ∧ gammaOf δ L = γ := by
  intro δ
  have hx : (1 : ℝ) ≤ 1 / γ := by rw [le_div_iff₀ g0]; linarith
  have hT := one_le_eval_T_real (L : ℤ) hx
  have hδ0 : 0 < δ := by positivity
  have hδ1 : δ ≤ 1 := by
    show 1 / _ ≤ 1
    rw [div_le_one (by linarith)]; exact hT
  refine ⟨hδ0, hδ1, ?_⟩
  exact ((gamma_delta_iff hδ0 hδ1 g0 g1 hL).mp (by simp [δ])).symm

/-- the certified expression (in `x = 1/γ ≥ 1`, `δ = 1/T_L(x)`) is the property's
    `1 - δ² T_L(T_{1/L}(1/δ) s)²` -/
theorem ylc_form {x : ℝ} (hx : 1 ≤ x) {L : ℕ} (hL : L ≠ 0) (s : ℝ) :
    let δ := 1 / (T ℝ (L : ℤ)).eval x
    1 - ((T ℝ (L : ℤ)).eval (x * s)) ^ 2 / ((T ℝ (L : ℤ)).eval x) ^ 2
      = 1 - δ ^ 2 * ((T ℝ (L : ℤ)).eval (chebInvL (1 / δ) L * s)) ^ 2 := by
  intro δ
  have hT := one_le_eval_T_real (L : ℤ) hx
  have hTne : (T ℝ (L : ℤ)).eval x ≠ 0 := by linarith
  have h1 : 1 / δ = (T ℝ (L : ℤ)).eval x := by simp [δ]
  have h2 : chebInvL (1 / δ) L = x := by
    apply eval_T_injOn hL (one_le_chebInvL _ _) hx
    rw [eval_T_chebInvL (by rw [h1]; exact hT) hL, h1]
  rw [h2]
  simp only [δ]
  field_simp

/-- the fixed-point width: `x² (1 - λ) ≤ 1` with `x = 1/γ` is `λ ≥ 1 - γ²` -/
theorem width_iff {γ lam : ℝ} (g0 : 0 < γ) :
    (1 / γ) ^ 2 * (1 - lam) ≤ 1 ↔ 1 - γ ^ 2 ≤ lam := by
  have hg : 0 < γ ^ 2 := by positivity
  rw [one_div, inv_pow, inv_mul_le_iff₀ hg]
  constructor <;> intro h <;> linarith

end QSP

/-
  Proofs about the command line model `QSP/Model/Cli.lean` (property C20):
  `splitOnC` inverts joining, both list syntaxes of `float_list`, the dispatch table.
-/
import QSP.Model.Cli
namespace QSP

/-- tokens joined by single separators (`sep.join(xs)`) -/
def joinC (sep : Char) : List (List Char) → List Char
  | [] => []
  | [x] => x
  | x :: y :: r => x ++ sep :: joinC sep (y :: r)

theorem joinC_cons_cons (sep : Char) (x y : List Char) (r : List (List Char)) :
    joinC sep (x :: y :: r) = x ++ sep :: joinC sep (y :: r) := rfl

theorem joinC_cons_of_ne (sep : Char) (x : List Char) {r : List (List Char)} (h : r ≠ []) :
    joinC sep (x :: r) = x ++ sep :: joinC sep r := by
  cases r with
  | nil => exact absurd rfl h
  | cons y r => rfl

/-- `joinC` is `List.intercalate` with a one-character separator -/
theorem joinC_eq_intercalate (sep : Char) (xs : List (List Char)) :
    joinC sep xs = List.intercalate [sep] xs := by
  induction xs with
  | nil => simp [joinC]
  | cons x r ih =>
    cases r with
    | nil => simp [joinC]
    | cons y r =>
      rw [joinC_cons_cons, ih]
      simp [List.intercalate_cons_cons]

theorem splitOnC_ne_nil (sep : Char) (v : List Char) : splitOnC sep v ≠ [] := by
  cases v with
  | nil => simp [splitOnC]
  | cons c cs =>
    simp only [splitOnC]
    split
    · simp
    · split <;> simp

/-- a piece without separator followed by a separator is split off -/
theorem splitOnC_append (sep : Char) (t rest : List Char) (ht : sep ∉ t) :
    splitOnC sep (t ++ sep :: rest) = t :: splitOnC sep rest := by
  induction t with
  | nil => simp [splitOnC]
  | cons c t ih =>
    have hc : c ≠ sep := fun h => ht (by simp [h])
    have ht' : sep ∉ t := fun h => ht (by simp [h])
    simp only [List.cons_append, splitOnC, ih ht', if_neg hc]

theorem splitOnC_of_not_mem (sep : Char) (t : List Char) (ht : sep ∉ t) :
    splitOnC sep t = [t] := by
  induction t with
  | nil => simp [splitOnC]
  | cons c t ih =>
    have hc : c ≠ sep := fun h => ht (by simp [h])
    have ht' : sep ∉ t := fun h => ht (by simp [h])
    simp only [splitOnC, ih ht', if_neg hc]

/-- `sep.join(xs).split(sep) == xs` for a nonempty list of separator-free tokens -/
theorem splitOnC_joinC (sep : Char) (xs : List (List Char)) (hx : xs ≠ [])
    (hs : ∀ t ∈ xs, sep ∉ t) : splitOnC sep (joinC sep xs) = xs := by
  induction xs with
  | nil => exact absurd rfl hx
  | cons x r ih =>
    cases r with
    | nil => exact splitOnC_of_not_mem sep x (hs x (by simp))
    | cons y r =>
      rw [joinC_cons_cons, splitOnC_append sep x _ (hs x (by simp)),
        ih (by simp) (fun t ht => hs t (by simp [ht]))]

theorem splitOnC_intercalate (sep : Char) (xs : List (List Char)) (hx : xs ≠ [])
    (hs : ∀ t ∈ xs, sep ∉ t) : splitOnC sep (List.intercalate [sep] xs) = xs := by
  rw [← joinC_eq_intercalate]; exact splitOnC_joinC sep xs hx hs

theorem mem_joinC {sep c : Char} {xs : List (List Char)} (h : c ∈ joinC sep xs) :
    c = sep ∨ ∃ t ∈ xs, c ∈ t := by
  induction xs with
  | nil => simp [joinC] at h
  | cons x r ih =>
    cases r with
    | nil => exact Or.inr ⟨x, by simp, h⟩
    | cons y r =>
      rw [joinC_cons_cons, List.mem_append, List.mem_cons] at h
      rcases h with h | h | h
      · exact Or.inr ⟨x, by simp, h⟩
      · exact Or.inl h
      · rcases ih h with h | ⟨t, ht, hc⟩
        · exact Or.inl h
        · exact Or.inr ⟨t, List.mem_cons_of_mem _ ht, hc⟩

theorem sep_mem_joinC (sep : Char) (xs : List (List Char)) (h : 2 ≤ xs.length) :
    sep ∈ joinC sep xs := by
  match xs, h with
  | x :: y :: r, _ => rw [joinC_cons_cons]; simp

/-! ### the comma form -/

/-- the comma form: the value is split on commas and every token is parsed -/
theorem floatList_comma_eq {α : Type} (parse : List Char → Option α) (xs : List (List Char))
    (hx : xs ≠ []) (hs : ∀ t ∈ xs, ',' ∉ t)
    (hb : ¬ (xs.length = 1 ∧ (joinC ',' xs).head? = some '[' ∧
      (joinC ',' xs).getLast? = some ']')) :
    floatList parse (joinC ',' xs) = xs.mapM parse := by
  unfold floatList
  rw [splitOnC_joinC ',' xs hx hs]
  by_cases h2 : 2 ≤ xs.length
  · have := sep_mem_joinC ',' xs h2
    simp [this]
  · have h1 : xs.length = 1 := by
      have : xs.length ≠ 0 := by simpa using hx
      omega
    have hb' : ¬ ((joinC ',' xs).head? = some '[' ∧ (joinC ',' xs).getLast? = some ']') :=
      fun h => hb ⟨h1, h⟩
    rw [if_neg]
    simp only [Bool.and_eq_true, beq_iff_eq, not_and] at hb' ⊢
    intro ⟨_, h⟩
    exact hb' h

theorem floatList_comma {α : Type} (parse : List Char → Option α) (xs : List (List Char))
    (vs : List α) (hx : xs ≠ []) (hs : ∀ t ∈ xs, ',' ∉ t)
    (hb : ¬ (xs.length = 1 ∧ (joinC ',' xs).head? = some '[' ∧
      (joinC ',' xs).getLast? = some ']'))
    (hp : xs.mapM parse = some vs) : floatList parse (joinC ',' xs) = some vs := by
  rw [floatList_comma_eq parse xs hx hs hb, hp]

theorem head?_joinC_ne (sep c : Char) (xs : List (List Char)) (hc : c ≠ sep)
    (h : ∀ t ∈ xs, c ∉ t) : (joinC sep xs).head? ≠ some c := by
  intro hh
  have hm : c ∈ joinC sep xs := List.mem_of_head? hh
  rcases mem_joinC hm with h1 | ⟨t, ht, hct⟩
  · exact hc h1
  · exact h t ht hct

/-- convenient side condition: two or more tokens, or no token contains `[` -/
theorem floatList_comma' {α : Type} (parse : List Char → Option α) (xs : List (List Char))
    (vs : List α) (hx : xs ≠ []) (hs : ∀ t ∈ xs, ',' ∉ t)
    (hb : 2 ≤ xs.length ∨ ∀ t ∈ xs, '[' ∉ t)
    (hp : xs.mapM parse = some vs) : floatList parse (joinC ',' xs) = some vs := by
  refine floatList_comma parse xs vs hx hs ?_ hp
  rintro ⟨h1, hh, _⟩
  rcases hb with hb | hb
  · omega
  · exact head?_joinC_ne ',' '[' xs (by decide) hb hh

/-! ### the bracketed form -/

/-- the bracketed form with arbitrary blank-free pieces (empty pieces = runs of blanks,
    leading or trailing blanks): the empty pieces are dropped, the others parsed -/
theorem floatList_bracket_eq {α : Type} (parse : List Char → Option α) (ps : List (List Char))
    (hx : ps ≠ []) (hs : ∀ t ∈ ps, ',' ∉ t ∧ ' ' ∉ t) :
    floatList parse ('[' :: joinC ' ' ps ++ [']']) =
      (ps.filter (fun t => !t.isEmpty)).mapM parse := by
  have hc : ',' ∉ ('[' :: joinC ' ' ps ++ [']']) := by
    intro h
    simp only [List.cons_append, List.mem_cons, List.mem_append, List.not_mem_nil,
      or_false] at h
    rcases h with h | h | h
    · exact absurd h (by decide)
    · rcases mem_joinC h with h | ⟨t, ht, hct⟩
      · exact absurd h (by decide)
      · exact (hs t ht).1 hct
    · exact absurd h (by decide)
  unfold floatList
  have hd : (('[' :: joinC ' ' ps ++ [']']).drop 1).dropLast = joinC ' ' ps := by simp
  rw [hd, splitOnC_joinC ' ' ps hx (fun t ht => (hs t ht).2)]
  have hcf : ('[' :: joinC ' ' ps ++ [']']).contains ',' = false := by
    simpa using hc
  have hl : ('[' :: joinC ' ' ps ++ [']']).getLast? = some ']' := List.getLast?_concat
  have hh : ('[' :: joinC ' ' ps ++ [']']).head? = some '[' := rfl
  rw [hcf, hl, hh]
  simp

theorem floatList_bracket {α : Type} (parse : List Char → Option α) (xs : List (List Char))
    (vs : List α) (hx : xs ≠ []) (hs : ∀ t ∈ xs, t ≠ [] ∧ ',' ∉ t ∧ ' ' ∉ t)
    (hp : xs.mapM parse = some vs) :
    floatList parse ('[' :: joinC ' ' xs ++ [']']) = some vs := by
  rw [floatList_bracket_eq parse xs hx (fun t ht => (hs t ht).2)]
  have : xs.filter (fun t => !t.isEmpty) = xs := by
    rw [List.filter_eq_self]
    intro t ht
    have := (hs t ht).1
    cases t <;> simp_all
  rw [this, hp]

/-! ### several blanks between tokens, leading and trailing blanks -/

/-- `x` followed by the tokens of `r`, each preceded by `k + 1` blanks -/
def joinBlanks : List Char → List (Nat × List Char) → List Char
  | x, [] => x
  | x, (k, y) :: r => x ++ List.replicate (k + 1) ' ' ++ joinBlanks y r

/-- the pieces `str.split(' ')` sees: `k` empty pieces for `k + 1` blanks -/
def blankPieces : List Char → List (Nat × List Char) → List (List Char)
  | x, [] => [x]
  | x, (k, y) :: r => x :: (List.replicate k [] ++ blankPieces y r)

theorem blankPieces_ne_nil (x : List Char) (r : List (Nat × List Char)) :
    blankPieces x r ≠ [] := by
  cases r with
  | nil => simp [blankPieces]
  | cons p r => obtain ⟨k, y⟩ := p; simp [blankPieces]

theorem joinC_replicate_nil_append (k : Nat) (ps : List (List Char)) (hp : ps ≠ []) :
    joinC ' ' (List.replicate k [] ++ ps) = List.replicate k ' ' ++ joinC ' ' ps := by
  induction k with
  | zero => simp
  | succ k ih =>
    rw [List.replicate_succ, List.cons_append, joinC_cons_of_ne _ _ (by simp [hp]), ih]
    simp [List.replicate_succ]

theorem joinC_append_replicate_nil (k : Nat) (ps : List (List Char)) (hp : ps ≠ []) :
    joinC ' ' (ps ++ List.replicate k []) = joinC ' ' ps ++ List.replicate k ' ' := by
  induction ps with
  | nil => exact absurd rfl hp
  | cons x r ih =>
    cases r with
    | nil =>
      cases k with
      | zero => simp [joinC]
      | succ k =>
        have := joinC_replicate_nil_append k [[]] (by simp)
        rw [List.cons_append, List.nil_append, joinC_cons_of_ne _ _ (by simp)]
        have h2 : List.replicate (k + 1) ([] : List Char) = List.replicate k [] ++ [[]] := by
          rw [← List.replicate_succ']
        rw [h2, this]
        simp only [joinC, List.append_nil]
        rw [← List.replicate_succ, List.replicate_succ']
    | cons y r =>
      rw [List.cons_append, joinC_cons_of_ne _ _ (by simp), ih (by simp), joinC_cons_cons]
      simp

theorem joinBlanks_eq (x : List Char) (r : List (Nat × List Char)) :
    joinBlanks x r = joinC ' ' (blankPieces x r) := by
  induction r generalizing x with
  | nil => simp [joinBlanks, blankPieces, joinC]
  | cons p r ih =>
    obtain ⟨k, y⟩ := p
    rw [joinBlanks, blankPieces, ih,
      joinC_cons_of_ne _ _ (by simp [blankPieces_ne_nil]),
      joinC_replicate_nil_append _ _ (blankPieces_ne_nil y r)]
    simp [List.replicate_succ]

theorem filter_blankPieces (x : List Char) (r : List (Nat × List Char)) :
    (blankPieces x r).filter (fun t => !t.isEmpty) =
      (x :: r.map Prod.snd).filter (fun t => !t.isEmpty) := by
  induction r generalizing x with
  | nil => simp [blankPieces]
  | cons p r ih =>
    obtain ⟨k, y⟩ := p
    have hk : (List.replicate k ([] : List Char)).filter (fun t => !t.isEmpty) = [] := by
      simp
    rw [blankPieces, List.filter_cons, List.filter_append, hk, List.nil_append, ih]
    simp [List.filter_cons]

theorem mem_blankPieces {t x : List Char} {r : List (Nat × List Char)}
    (h : t ∈ blankPieces x r) : t = [] ∨ t ∈ x :: r.map Prod.snd := by
  induction r generalizing x with
  | nil => simp [blankPieces] at h; simp [h]
  | cons p r ih =>
    obtain ⟨k, y⟩ := p
    simp only [blankPieces, List.mem_cons, List.mem_append, List.mem_replicate] at h
    rcases h with h | h | h
    · simp [h]
    · exact Or.inl h.2
    · rcases ih h with h | h
      · exact Or.inl h
      · exact Or.inr (List.mem_cons_of_mem _ h)

/-- the bracketed form with `a` leading blanks, `k_i + 1` blanks before the `i`-th further
    token and `b` trailing blanks -/
theorem floatList_bracket_blanks {α : Type} (parse : List Char → Option α) (x : List Char)
    (r : List (Nat × List Char)) (a b : Nat) (vs : List α)
    (hs : ∀ t ∈ x :: r.map Prod.snd, t ≠ [] ∧ ',' ∉ t ∧ ' ' ∉ t)
    (hp : (x :: r.map Prod.snd).mapM parse = some vs) :
    floatList parse ('[' :: (List.replicate a ' ' ++ joinBlanks x r ++ List.replicate b ' ')
      ++ [']']) = some vs := by
  have hne := blankPieces_ne_nil x r
  have hj : List.replicate a ' ' ++ joinBlanks x r ++ List.replicate b ' ' =
      joinC ' ' (List.replicate a [] ++ blankPieces x r ++ List.replicate b []) := by
    rw [joinC_append_replicate_nil _ _ (by simp [hne]),
      joinC_replicate_nil_append _ _ hne, joinBlanks_eq]
  rw [hj, floatList_bracket_eq parse _ (by simp [hne])]
  · have hk : ∀ k, (List.replicate k ([] : List Char)).filter (fun t => !t.isEmpty) = [] := by
      intro k; simp
    rw [List.filter_append, List.filter_append, hk, hk, List.nil_append, List.append_nil,
      filter_blankPieces]
    have : (x :: r.map Prod.snd).filter (fun t => !t.isEmpty) = x :: r.map Prod.snd := by
      rw [List.filter_eq_self]
      intro t ht
      have := (hs t ht).1
      cases t <;> simp_all
    rw [this, hp]
  · intro t ht
    simp only [List.mem_append, List.mem_replicate] at ht
    have hnil : (',' ∉ ([] : List Char)) ∧ (' ' ∉ ([] : List Char)) := by simp
    rcases ht with (ht | ht) | ht
    · rw [ht.2]; exact hnil
    · rcases mem_blankPieces ht with h | h
      · rw [h]; exact hnil
      · exact (hs t h).2
    · rw [ht.2]; exact hnil

/-- both syntaxes denote the same list -/
theorem floatList_both_forms {α : Type} (parse : List Char → Option α) (xs : List (List Char))
    (vs : List α) (hx : xs ≠ [])
    (hs : ∀ t ∈ xs, t ≠ [] ∧ ',' ∉ t ∧ ' ' ∉ t)
    (hb : 2 ≤ xs.length ∨ ∀ t ∈ xs, '[' ∉ t)
    (hp : xs.mapM parse = some vs) :
    floatList parse (joinC ',' xs) = some vs ∧
      floatList parse ('[' :: joinC ' ' xs ++ [']']) = some vs :=
  ⟨floatList_comma' parse xs vs hx (fun t ht => (hs t ht).2.1) hb hp,
   floatList_bracket parse xs vs hx hs hp⟩

/-! ### a concrete token parser for the non-vacuity examples
  (`String.toInt?` does not reduce in the kernel, so `decide` cannot evaluate it) -/

/-- decimal digits, most significant first -/
def parseNatC : Nat → List Char → Option Nat
  | acc, [] => some acc
  | acc, c :: cs =>
    if '0' ≤ c ∧ c ≤ '9' then parseNatC (10 * acc + (c.toNat - '0'.toNat)) cs else none

/-- an optional `-` followed by at least one decimal digit -/
def parseIntC (t : List Char) : Option Int :=
  match t with
  | [] => none
  | c :: cs =>
    if c = '-' then (if cs.isEmpty then none else (parseNatC 0 cs).map fun n => -(n : Int))
    else (parseNatC 0 (c :: cs)).map fun n => (n : Int)

/-! ### the dispatch table -/

/-- the documented commands of the dispatch table -/
def commandNames : List String :=
  ["poly2angles", "hamsim", "fpsearch", "invert", "gibbs", "efilter", "relu", "poly_sign",
   "poly_thresh", "poly_phase", "poly_rect", "invert_rect", "poly_linear_amp"]

theorem dispatch_unknown (cmd : String) (h : cmd ∉ commandNames) : dispatch cmd = none := by
  simp only [commandNames, List.mem_cons, List.not_mem_nil, or_false, not_or] at h
  simp [dispatch, h]

theorem dispatch_isSome_iff (cmd : String) :
    (dispatch cmd).isSome = true ↔ cmd ∈ commandNames := by
  constructor
  · intro h
    by_cases hn : cmd ∈ commandNames
    · exact hn
    · rw [dispatch_unknown cmd hn] at h
      simp at h
  · intro h
    simp only [commandNames, List.mem_cons, List.not_mem_nil, or_false] at h
    rcases h with h | h | h | h | h | h | h | h | h | h | h | h | h <;> subst h <;> decide

/-- the table, row by row -/
def dispatchTable : List (String × Dispatch) :=
  [("poly2angles", ⟨[], "poly", [], true⟩),
   ("hamsim", ⟨["PolyCosineTX", "PolySineTX"], "seqargs",
      [("return_coef", "True"), ("ensure_bounded", "True"), ("return_scale", "True")], true⟩),
   ("fpsearch", ⟨["FPSearch"], "seqargs", [], false⟩),
   ("invert", ⟨["PolyOneOverX"], "seqargs",
      [("return_coef", "True"), ("ensure_bounded", "True"), ("return_scale", "True")], true⟩),
   ("gibbs", ⟨["PolyGibbs"], "seqargs",
      [("ensure_bounded", "True"), ("return_scale", "True")], true⟩),
   ("efilter", ⟨["PolyEigenstateFiltering"], "seqargs",
      [("ensure_bounded", "True"), ("return_scale", "True")], true⟩),
   ("relu", ⟨["PolySoftPlus"], "seqargs",
      [("ensure_bounded", "True"), ("return_scale", "True")], true⟩),
   ("poly_sign", ⟨["PolySign"], "seqargs",
      [("ensure_bounded", "True"), ("return_scale", "True")], true⟩),
   ("poly_thresh", ⟨["PolyThreshold"], "seqargs",
      [("ensure_bounded", "True"), ("return_scale", "True")], true⟩),
   ("poly_phase", ⟨["PolyPhaseEstimation"], "seqargs",
      [("ensure_bounded", "True"), ("return_scale", "True")], true⟩),
   ("poly_rect", ⟨["PolyRect"], "seqargs",
      [("ensure_bounded", "True"), ("return_scale", "True")], true⟩),
   ("invert_rect", ⟨["PolyOneOverXRect"], "seqargs",
      [("ensure_bounded", "True"), ("return_scale", "True")], true⟩),
   ("poly_linear_amp", ⟨["PolyLinearAmplification"], "seqargs",
      [("ensure_bounded", "True"), ("return_scale", "True")], true⟩)]

theorem dispatchTable_names : dispatchTable.map Prod.fst = commandNames := by decide

theorem dispatch_total : ∀ p ∈ dispatchTable, dispatch p.1 = some p.2 := by decide

theorem dispatch_phase_finder (cmd : String) (d : Dispatch) (h : dispatch cmd = some d) :
    d.callsPhaseFinder = true ↔ cmd ≠ "fpsearch" := by
  by_cases hm : cmd ∈ commandNames
  · simp only [commandNames, List.mem_cons, List.not_mem_nil, or_false] at hm
    rcases hm with hm | hm | hm | hm | hm | hm | hm | hm | hm | hm | hm | hm | hm <;> subst hm <;>
      simp [dispatch] at h <;> subst h <;> decide
  · rw [dispatch_unknown cmd hm] at h
    cases h

theorem dispatchNamed_poly (n c : String) (h : polyRegistry.lookup n = some c) :
    dispatchNamed "poly" (some n) = some ⟨[c], "polyargs", [], true⟩ := by
  simp [dispatchNamed, h]

theorem dispatchNamed_poly_none : dispatchNamed "poly" none = none := by
  simp [dispatchNamed]

theorem dispatchNamed_poly_unknown (n : String) (h : polyRegistry.lookup n = none) :
    dispatchNamed "poly" (some n) = none := by
  simp [dispatchNamed, h]

theorem dispatchNamed_angles (n c : String) (h : phaseRegistry.lookup n = some c) :
    dispatchNamed "angles" (some n) = some ⟨[c], "seqargs", [], false⟩ := by
  simp [dispatchNamed, h]

theorem dispatchNamed_angles_none : dispatchNamed "angles" none = none := by
  simp [dispatchNamed]

theorem dispatchNamed_angles_unknown (n : String) (h : phaseRegistry.lookup n = none) :
    dispatchNamed "angles" (some n) = none := by
  simp [dispatchNamed, h]

theorem dispatchNamed_other (cmd : String) (name : Option String) (h1 : cmd ≠ "poly")
    (h2 : cmd ≠ "angles") : dispatchNamed cmd name = dispatch cmd := by
  simp [dispatchNamed, h1, h2]

end QSP

/-
  Proofs for properties C03/C04: in exact arithmetic every inside/outside selection of the
  root pairs `{r, 1/r}` gives the same product `G(z) · z^k G(1/z)` up to a non-zero constant.
-/
import Mathlib.Algebra.Polynomial.Basic
import Mathlib.Algebra.Polynomial.Eval.Defs
import Mathlib.Algebra.BigOperators.Group.List.Basic
import Mathlib.Algebra.Field.Basic
import Mathlib.Tactic.Ring
import Mathlib.Tactic.LinearCombination
import Mathlib.Tactic.FieldSimp
open Polynomial
namespace QSP

section
variable {K : Type} [Field K]

/-- replace `r` by `1/r` where the seed bit is set (bits beyond the list are 0) -/
def flipRoots : List K → List Bool → List K
  | [], _ => []
  | r :: rs, [] => r :: flipRoots rs []
  | r :: rs, b :: bs => (if b then r⁻¹ else r) :: flipRoots rs bs

/-- `∏ (X - r)(1 - r X)`: the self-reciprocal polynomial with root pairs `{r, 1/r}` -/
noncomputable def pairProd (S : List K) : K[X] :=
  (S.map (fun r => (X - C r) * (1 - C r * X))).prod

/-- `∏` over flipped positions of `r⁻²` -/
def flipConst : List K → List Bool → K
  | [], _ => 1
  | _ :: rs, [] => flipConst rs []
  | r :: rs, b :: bs => (if b then r⁻¹ ^ 2 else 1) * flipConst rs bs

/-- `∏ (X - r)` -/
noncomputable def Gpoly (S : List K) : K[X] := (S.map (fun r => X - C r)).prod

/-- `∏ (1 - r X)`: the reciprocal polynomial `z^k G(1/z)` -/
noncomputable def Grev (S : List K) : K[X] := (S.map (fun r => 1 - C r * X)).prod

theorem flipRoots_nil_seed (S : List K) : flipRoots S [] = S := by
  induction S with
  | nil => rfl
  | cons r rs ih => simp [flipRoots, ih]

theorem flipConst_nil_seed (S : List K) : flipConst S [] = 1 := by
  induction S with
  | nil => rfl
  | cons r rs ih => simp [flipConst, ih]

theorem flipRoots_length (S : List K) (seed : List Bool) :
    (flipRoots S seed).length = S.length := by
  induction S generalizing seed with
  | nil => rfl
  | cons r rs ih => cases seed <;> simp [flipRoots, ih]

/-- the selected roots: `r` or `1/r` at each position -/
theorem flipRoots_getD (S : List K) (seed : List Bool) (i : ℕ) :
    (flipRoots S seed).getD i 0 = if seed.getD i false then (S.getD i 0)⁻¹ else S.getD i 0 := by
  induction S generalizing seed i with
  | nil => simp [flipRoots]
  | cons r rs ih =>
    cases seed with
    | nil => simp [flipRoots_nil_seed]
    | cons b bs =>
      cases i with
      | zero => simp [flipRoots]
      | succ i => simpa [flipRoots] using ih bs i

theorem flipRoots_ne_zero (S : List K) (seed : List Bool) (hS : ∀ r ∈ S, r ≠ 0) :
    ∀ r ∈ flipRoots S seed, r ≠ 0 := by
  induction S generalizing seed with
  | nil => intro r hr; simp [flipRoots] at hr
  | cons r rs ih =>
    have hr0 : r ≠ 0 := hS r (by simp)
    have hrs : ∀ x ∈ rs, x ≠ 0 := fun x hx => hS x (by simp [hx])
    cases seed with
    | nil => rw [flipRoots_nil_seed]; exact hS
    | cons b bs =>
      intro x hx
      simp only [flipRoots, List.mem_cons] at hx
      rcases hx with rfl | hx
      · cases b
        · simpa using hr0
        · simpa using hr0
      · exact ih bs hrs x hx

/-- flipping twice with the same seed restores the roots -/
theorem flipRoots_flipRoots (S : List K) (seed : List Bool) :
    flipRoots (flipRoots S seed) seed = S := by
  induction S generalizing seed with
  | nil => rfl
  | cons r rs ih =>
    cases seed with
    | nil => simp [flipRoots_nil_seed]
    | cons b bs => cases b <;> simp [flipRoots, ih]

/-- key identity -/
theorem pair_inv (r : K) (hr : r ≠ 0) :
    (X - C r⁻¹) * (1 - C r⁻¹ * X) = C (r⁻¹ ^ 2) * ((X - C r) * (1 - C r * X)) := by
  have h : (C r : K[X]) * C r⁻¹ = 1 := by
    rw [← C_mul, mul_inv_cancel₀ hr, C_1]
  rw [C_pow]
  linear_combination (C r⁻¹ * X ^ 2 + C r⁻¹ - X * (C r * C r⁻¹ + 1)) * h

theorem pairProd_cons (r : K) (S : List K) :
    pairProd (r :: S) = (X - C r) * (1 - C r * X) * pairProd S := by
  simp [pairProd]

/-- C1 -/
theorem completion_any_seed (S : List K) (seed : List Bool) (hS : ∀ r ∈ S, r ≠ 0) :
    pairProd (flipRoots S seed) = C (flipConst S seed) * pairProd S ∧ flipConst S seed ≠ 0 := by
  induction S generalizing seed with
  | nil => simp [flipRoots, flipConst, pairProd]
  | cons r rs ih =>
    have hr0 : r ≠ 0 := hS r (by simp)
    have hrs : ∀ x ∈ rs, x ≠ 0 := fun x hx => hS x (by simp [hx])
    cases seed with
    | nil =>
      rw [flipRoots_nil_seed, flipConst_nil_seed]
      simp
    | cons b bs =>
      obtain ⟨ih1, ih2⟩ := ih bs hrs
      cases b with
      | false =>
        simp only [flipRoots, flipConst, Bool.false_eq_true, if_false, one_mul, pairProd_cons, ih1]
        exact ⟨by ring, ih2⟩
      | true =>
        simp only [flipRoots, flipConst, if_true, pairProd_cons, ih1, pair_inv r hr0, C_mul]
        refine ⟨by ring, mul_ne_zero (pow_ne_zero _ (inv_ne_zero hr0)) ih2⟩

/-- C2 -/
theorem pairProd_eq (S : List K) : pairProd S = Gpoly S * Grev S := by
  simp only [pairProd, Gpoly, Grev]
  exact List.prod_map_mul

/-- C2: whatever the selection, a constant multiple of `G' · Grev'` is the target -/
theorem completion_normalised (S : List K) (seed : List Bool) (hS : ∀ r ∈ S, r ≠ 0) (lead : K) :
    C (lead / flipConst S seed) * (Gpoly (flipRoots S seed) * Grev (flipRoots S seed))
      = C lead * pairProd S := by
  obtain ⟨h1, h2⟩ := completion_any_seed S seed hS
  rw [← pairProd_eq, h1, ← mul_assoc, ← C_mul, div_mul_cancel₀ _ h2]

/-- any two selections agree up to a non-zero constant -/
theorem completion_two_seeds (S : List K) (s1 s2 : List Bool) (hS : ∀ r ∈ S, r ≠ 0) :
    C (flipConst S s2) * pairProd (flipRoots S s1)
      = C (flipConst S s1) * pairProd (flipRoots S s2) := by
  rw [(completion_any_seed S s1 hS).1, (completion_any_seed S s2 hS).1]
  ring

/-- the reciprocal structure: evaluating `Grev` at `z ≠ 0` is `z^k G(1/z)` -/
theorem Grev_eval (S : List K) (z : K) (hz : z ≠ 0) :
    (Grev S).eval z = z ^ S.length * (Gpoly S).eval z⁻¹ := by
  induction S with
  | nil => simp [Grev, Gpoly]
  | cons r rs ih =>
    have e1 : Grev (r :: rs) = (1 - C r * X) * Grev rs := by simp [Grev]
    have e2 : Gpoly (r :: rs) = (X - C r) * Gpoly rs := by simp [Gpoly]
    rw [e1, e2, eval_mul, eval_mul, ih]
    simp only [eval_sub, eval_one, eval_mul, eval_C, eval_X, List.length_cons, pow_succ]
    field_simp

end

end QSP

/-
  The defined QSP response depends on each phase only modulo whole turns.
  (Used by the correspondence harness: phases far from the origin are shifted by a whole number of
  turns before they are handed to the executable model, whose Taylor enclosures are built for
  moderate arguments.  The EXACT shift changes nothing — this file; what the harness adds on top is
  the rounding of the irrational shift, accounted for in its comparison tolerance.)
-/
import QSP.Proofs.Response
namespace QSP
open Real

theorem phaseDef_add_turns (so : SigOp) (φ : ℝ) (k : ℤ) :
    phaseDef so (φ + k * (2 * π)) = phaseDef so φ := by
  rw [← phaseG_eq_phaseDef, ← phaseG_eq_phaseDef so φ, Real.cos_add_int_mul_two_pi,
    Real.sin_add_int_mul_two_pi]

/-- the fold of the definition only sees the phase OPERATORS -/
theorem foldl_phase_congr (so : SigOp) (a : ℝ) :
    ∀ (ψs φs : List ℝ), List.Forall₂ (fun ψ φ => phaseDef so ψ = phaseDef so φ) ψs φs →
      ∀ U : M22, ψs.foldl (fun U ψ => U * sigDef so a * phaseDef so ψ) U
        = φs.foldl (fun U ψ => U * sigDef so a * phaseDef so ψ) U
  | _, _, .nil, _ => rfl
  | _, _, .cons h t, U => by
      simp only [List.foldl_cons, h]
      exact foldl_phase_congr so a _ _ t _

theorem Udef_phase_congr (so : SigOp) (a : ℝ) (ψs φs : List ℝ)
    (h : List.Forall₂ (fun ψ φ => phaseDef so ψ = phaseDef so φ) ψs φs) :
    Udef so a ψs = Udef so a φs := by
  cases h with
  | nil => rfl
  | cons h t =>
      simp only [Udef, h]
      exact foldl_phase_congr so a _ _ t _

theorem forall₂_shift (so : SigOp) :
    ∀ (φs : List ℝ) (ks : List ℤ), ks.length = φs.length →
      List.Forall₂ (fun ψ φ => phaseDef so ψ = phaseDef so φ)
        (List.zipWith (fun φ (k : ℤ) => φ + k * (2 * π)) φs ks) φs
  | [], [], _ => .nil
  | [], _ :: _, h => by simp at h
  | _ :: _, [], h => by simp at h
  | φ :: φs, k :: ks, h => by
      simp only [List.zipWith_cons_cons]
      exact .cons (phaseDef_add_turns so φ k) (forall₂_shift so φs ks (by simpa using h))

/-- shifting every phase by its own whole number of turns leaves the product of the definition, hence
    every response, unchanged -/
theorem Udef_shift_turns (so : SigOp) (a : ℝ) (φs : List ℝ) (ks : List ℤ) (h : ks.length = φs.length) :
    Udef so a (List.zipWith (fun φ (k : ℤ) => φ + k * (2 * π)) φs ks) = Udef so a φs :=
  Udef_phase_congr so a _ _ (forall₂_shift so φs ks h)

theorem respDef_shift_turns (so : SigOp) (me : Meas) (a : ℝ) (φs : List ℝ) (ks : List ℤ)
    (h : ks.length = φs.length) :
    respDef so me (List.zipWith (fun φ (k : ℤ) => φ + k * (2 * π)) φs ks) a = respDef so me φs a := by
  unfold respDef
  rw [Udef_shift_turns so a φs ks h]

end QSP

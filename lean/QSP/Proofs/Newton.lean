/-
  Control flow of `newton_Solver` (model: `newtonExit` in `QSP/Model/SymQSP.lean`):
  the returned iteration is the least one at which a break condition holds, the reported
  error is the one observed in that iteration, `maxiter` has priority over `crit`.
-/
import QSP.Model.SymQSP
import Mathlib.Data.Rat.Defs
import Mathlib.Algebra.Order.Ring.Rat
import Mathlib.Data.Rat.Cast.Order
import Mathlib.Tactic.Linarith
namespace QSP

/-- a break condition holds in iteration `j` (which observes `errs[j-1]`) -/
def NewtonBreak (crit maxiter : ℚ) (errs : List ℚ) (j : ℕ) : Prop :=
  (j : ℚ) ≥ maxiter ∨ errs.getD (j - 1) 0 < crit

theorem newtonExitAux_spec (crit maxiter : ℚ) (errs : List ℚ) (k0 k : ℕ) (e : ℚ)
    (br : NewtonExit) (h : newtonExitAux crit maxiter errs k0 = some (k, e, br)) :
    k0 + 1 ≤ k ∧ k ≤ k0 + errs.length ∧ e = errs.getD (k - k0 - 1) 0 ∧
      (∀ j, k0 + 1 ≤ j → j < k →
        ¬ ((j : ℚ) ≥ maxiter) ∧ ¬ (errs.getD (j - k0 - 1) 0 < crit)) ∧
      (br = .maxiter → (k : ℚ) ≥ maxiter) ∧
      (br = .crit → ¬ ((k : ℚ) ≥ maxiter) ∧ e < crit) := by
  induction errs generalizing k0 with
  | nil => simp [newtonExitAux] at h
  | cons x xs ih =>
    unfold newtonExitAux at h
    split_ifs at h with h1 h2
    · simp only [Option.some.injEq, Prod.mk.injEq] at h
      obtain ⟨rfl, rfl, rfl⟩ := h
      refine ⟨le_refl _, by simp, by simp, ?_, fun _ => h1, fun hc => (by cases hc)⟩
      intro j hj1 hj2
      omega
    · simp only [Option.some.injEq, Prod.mk.injEq] at h
      obtain ⟨rfl, rfl, rfl⟩ := h
      refine ⟨le_refl _, by simp, by simp, ?_, fun hc => (by cases hc), fun _ => ⟨h1, h2⟩⟩
      intro j hj1 hj2
      omega
    · obtain ⟨a1, a2, a3, a4, a5, a6⟩ := ih (k0 + 1) h
      refine ⟨by omega, by simp only [List.length_cons]; omega, ?_, ?_, a5, a6⟩
      · rw [a3]
        have : k - k0 - 1 = (k - (k0 + 1) - 1) + 1 := by omega
        rw [this, List.getD_cons_succ]
      · intro j hj1 hj2
        rcases Nat.eq_or_lt_of_le hj1 with hj | hj
        · subst hj
          refine ⟨h1, ?_⟩
          simpa using h2
        · have := a4 j (by omega) hj2
          have e1 : j - k0 - 1 = (j - (k0 + 1) - 1) + 1 := by omega
          rw [e1, List.getD_cons_succ]
          exact this

theorem newtonExitAux_none_iff (crit maxiter : ℚ) (errs : List ℚ) (k0 : ℕ) :
    newtonExitAux crit maxiter errs k0 = none ↔
      ∀ j, k0 + 1 ≤ j → j ≤ k0 + errs.length →
        ¬ ((j : ℚ) ≥ maxiter) ∧ ¬ (errs.getD (j - k0 - 1) 0 < crit) := by
  induction errs generalizing k0 with
  | nil =>
    simp only [newtonExitAux, List.length_nil, Nat.add_zero, true_iff]
    intro j h1 h2
    omega
  | cons x xs ih =>
    unfold newtonExitAux
    split_ifs with h1 h2
    · simp only [false_iff]
      intro hall
      exact (hall (k0 + 1) (le_refl _) (by simp)).1 h1
    · simp only [false_iff]
      intro hall
      exact (hall (k0 + 1) (le_refl _) (by simp)).2 (by simpa using h2)
    · rw [ih]
      constructor
      · intro hall j hj1 hj2
        rcases Nat.eq_or_lt_of_le hj1 with hj | hj
        · subst hj
          exact ⟨h1, by simpa using h2⟩
        · have := hall j (by omega) (by simp only [List.length_cons] at hj2; omega)
          have e1 : j - k0 - 1 = (j - (k0 + 1) - 1) + 1 := by omega
          rw [e1, List.getD_cons_succ]
          exact this
      · intro hall j hj1 hj2
        have := hall j (by omega) (by simp only [List.length_cons]; omega)
        have e1 : j - k0 - 1 = (j - (k0 + 1) - 1) + 1 := by omega
        rw [e1, List.getD_cons_succ] at this
        exact this

/-- B1 -/
theorem newtonExit_spec (crit maxiter : ℚ) (errs : List ℚ) (k : ℕ) (e : ℚ) (br : NewtonExit)
    (h : newtonExit crit maxiter errs = some (k, e, br)) :
    1 ≤ k ∧ k ≤ errs.length ∧ e = errs.getD (k - 1) 0 ∧
      (∀ j, 1 ≤ j → j < k → ¬ ((j : ℚ) ≥ maxiter) ∧ ¬ (errs.getD (j - 1) 0 < crit)) ∧
      (br = .maxiter → (k : ℚ) ≥ maxiter) ∧
      (br = .crit → ¬ ((k : ℚ) ≥ maxiter) ∧ e < crit) := by
  have := newtonExitAux_spec crit maxiter errs 0 k e br h
  simpa only [Nat.zero_add, Nat.sub_zero] using this

/-- B3 -/
theorem newtonExit_none_iff (crit maxiter : ℚ) (errs : List ℚ) :
    newtonExit crit maxiter errs = none ↔
      ∀ j, 1 ≤ j → j ≤ errs.length →
        ¬ ((j : ℚ) ≥ maxiter) ∧ ¬ (errs.getD (j - 1) 0 < crit) := by
  have := newtonExitAux_none_iff crit maxiter errs 0
  simpa only [newtonExit, Nat.zero_add, Nat.sub_zero] using this

/-- the same with the break predicate -/
theorem newtonExit_none_iff' (crit maxiter : ℚ) (errs : List ℚ) :
    newtonExit crit maxiter errs = none ↔
      ∀ j, 1 ≤ j → j ≤ errs.length → ¬ NewtonBreak crit maxiter errs j := by
  rw [newtonExit_none_iff]
  simp only [NewtonBreak, not_or]

/-- converse of B1: the least iteration with a break, if it is within the recorded errors,
    is what is returned; the branch is decided by the `maxiter` test -/
theorem newtonExit_complete (crit maxiter : ℚ) (errs : List ℚ) (k : ℕ) (hk1 : 1 ≤ k)
    (hk2 : k ≤ errs.length) (hbr : NewtonBreak crit maxiter errs k)
    (hmin : ∀ j, 1 ≤ j → j < k → ¬ NewtonBreak crit maxiter errs j) :
    newtonExit crit maxiter errs
      = some (k, errs.getD (k - 1) 0, if (k : ℚ) ≥ maxiter then .maxiter else .crit) := by
  cases hres : newtonExit crit maxiter errs with
  | none =>
    rw [newtonExit_none_iff'] at hres
    exact absurd hbr (hres k hk1 hk2)
  | some res =>
    obtain ⟨k', e', br'⟩ := res
    obtain ⟨a1, a2, a3, a4, a5, a6⟩ := newtonExit_spec crit maxiter errs k' e' br' hres
    have hbr' : NewtonBreak crit maxiter errs k' := by
      cases br' with
      | maxiter => exact Or.inl (a5 rfl)
      | crit => exact Or.inr (a3 ▸ (a6 rfl).2)
    have hkk : k' = k := by
      rcases Nat.lt_trichotomy k' k with hlt | heq | hgt
      · exact absurd hbr' (hmin k' a1 hlt)
      · exact heq
      · have := a4 k hk1 hgt
        exact absurd hbr (by simp only [NewtonBreak, not_or]; exact this)
    subst hkk
    subst a3
    congr 3
    cases br' with
    | maxiter => rw [if_pos (a5 rfl)]
    | crit => rw [if_neg (a6 rfl).1]

/-- B2 -/
theorem newtonExit_le_maxiter (crit : ℚ) (m : ℕ) (hm : 1 ≤ m) (errs : List ℚ) (k : ℕ) (e : ℚ)
    (br : NewtonExit) (h : newtonExit crit (m : ℚ) errs = some (k, e, br)) : k ≤ m := by
  obtain ⟨_, _, _, a4, _, _⟩ := newtonExit_spec crit m errs k e br h
  by_contra hlt
  have hlt : m < k := Nat.lt_of_not_le hlt
  exact (a4 m hm hlt).1 (le_refl _)

/-- B2, edge: with `maxiter < 1` (e.g. 0 or negative) the body runs exactly once -/
theorem newtonExit_maxiter_lt_one (crit maxiter : ℚ) (hm : maxiter < 1) (errs : List ℚ)
    (he : errs ≠ []) :
    newtonExit crit maxiter errs = some (1, errs.head he, .maxiter) := by
  cases errs with
  | nil => exact absurd rfl he
  | cons x xs =>
    have : ((0 + 1 : ℕ) : ℚ) ≥ maxiter := by
      simp only [Nat.zero_add, Nat.cast_one]
      exact le_of_lt hm
    simp only [newtonExit, newtonExitAux, if_pos this, List.head_cons]

/-- if `crit` fires it is reported only when `maxiter` did not fire in the same iteration -/
theorem newtonExit_priority (crit maxiter : ℚ) (errs : List ℚ) (k : ℕ) (e : ℚ) (br : NewtonExit)
    (h : newtonExit crit maxiter errs = some (k, e, br)) (hk : (k : ℚ) ≥ maxiter) :
    br = .maxiter := by
  obtain ⟨_, _, _, _, _, a6⟩ := newtonExit_spec crit maxiter errs k e br h
  cases br with
  | maxiter => rfl
  | crit => exact absurd hk (a6 rfl).1

end QSP

/-
  Proofs of the property theorems of `QSP/Properties/C06d.lean`: the matrix `M` and the system
  `(m, s)` of `pyqsp/decomposition.py :: linear_system` (model: `QSP/Model/LinSys.lean`).
-/
import QSP.Proofs.LAlg
import QSP.Model.LinSys
import Mathlib.Algebra.BigOperators.Intervals
import Mathlib.Data.List.GetD
open LaurentPolynomial
namespace QSP
namespace LinSys
variable {R : Type} [CommRing R]

/-! ### shapes -/

theorem length_convMat (v : List R) (ldeg : ℕ) : (convMat v ldeg).length = v.length + ldeg := by
  simp [convMat]

theorem row_length_convMat (v : List R) (ldeg : ℕ) :
    ∀ r ∈ convMat v ldeg, r.length = ldeg + 1 := by
  intro r hr
  simp only [convMat, List.mem_map, List.mem_range] at hr
  obtain ⟨i, -, rfl⟩ := hr
  simp

omit [CommRing R] in
theorem length_hcat (A B : List (List R)) : (hcat A B).length = min A.length B.length := by
  simp [hcat]

omit [CommRing R] in
theorem row_length_hcat {A B : List (List R)} {m n : ℕ} (hA : ∀ r ∈ A, r.length = m)
    (hB : ∀ r ∈ B, r.length = n) : ∀ r ∈ hcat A B, r.length = m + n := by
  intro r hr
  obtain ⟨i, hi, rfl⟩ := List.mem_iff_getElem.mp hr
  simp only [hcat, List.length_zipWith] at hi
  simp only [hcat, List.getElem_zipWith, List.length_append]
  rw [hA _ (List.getElem_mem _), hB _ (List.getElem_mem _)]

theorem length_fullM (ai ax : List R) (ldeg : ℕ) (h : ai.length = ax.length) :
    (fullM ai ax ldeg).length = 2 * (ai.length + ldeg) := by
  simp [fullM, length_hcat, length_convMat, h]
  omega

theorem row_length_fullM (ai ax : List R) (ldeg : ℕ) :
    ∀ r ∈ fullM ai ax ldeg, r.length = 2 * (ldeg + 1) := by
  intro r hr
  simp only [fullM, List.mem_append] at hr
  rcases hr with hr | hr
  · rw [row_length_hcat (row_length_convMat _ _) (row_length_convMat _ _) r hr]; omega
  · rw [row_length_hcat (row_length_convMat _ _) (row_length_convMat _ _) r hr]; omega

/-! ### scalar products -/

theorem dot_nil_left (x : List R) : dot ([] : List R) x = 0 := by simp [dot]

theorem dot_nil_right (r : List R) : dot r ([] : List R) = 0 := by simp [dot]

theorem dot_cons_cons (a b : R) (r x : List R) : dot (a :: r) (b :: x) = a * b + dot r x := by
  simp [dot]

theorem dot_append {r₁ x : List R} (h : r₁.length = x.length) (r₂ y : List R) :
    dot (r₁ ++ r₂) (x ++ y) = dot r₁ x + dot r₂ y := by
  simp [dot, List.zipWith_append h]

theorem dot_eq_sum (r x : List R) :
    dot r x = ∑ j ∈ Finset.range r.length, r.getD j 0 * x.getD j 0 := by
  induction r generalizing x with
  | nil => simp [dot_nil_left]
  | cons a r ih =>
    cases x with
    | nil => simp [dot_nil_right]
    | cons b x =>
      rw [dot_cons_cons, ih, List.length_cons, Finset.sum_range_succ']
      simp [add_comm]

theorem dot_ones (n : ℕ) (x : List R) (h : x.length = n) :
    dot (List.replicate n (1 : R)) x = x.sum := by
  induction n generalizing x with
  | zero => cases x with
    | nil => simp [dot]
    | cons b x => simp at h
  | succ n ih => cases x with
    | nil => simp at h
    | cons b x =>
      simp only [List.length_cons, Nat.add_right_cancel_iff] at h
      rw [List.replicate_succ, dot_cons_cons, ih x h]; simp

theorem dot_zeros (n : ℕ) (x : List R) : dot (List.replicate n (0 : R)) x = 0 := by
  rw [dot_eq_sum]
  apply Finset.sum_eq_zero
  intro j _
  have : (List.replicate n (0 : R)).getD j 0 = 0 := by
    simp [List.getD_eq_getElem?_getD, List.getElem?_replicate]
    split <;> rfl
  rw [this, zero_mul]

/-! ### matrix times vector -/

theorem mulVec_append (A B : List (List R)) (x : List R) :
    mulVec (A ++ B) x = mulVec A x ++ mulVec B x := by simp [mulVec]

theorem mulVec_take (A : List (List R)) (n : ℕ) (x : List R) :
    mulVec (A.take n) x = (mulVec A x).take n := by simp [mulVec, List.map_take]

theorem mulVec_drop (A : List (List R)) (n : ℕ) (x : List R) :
    mulVec (A.drop n) x = (mulVec A x).drop n := by simp [mulVec, List.map_drop]

theorem length_mulVec (A : List (List R)) (x : List R) : (mulVec A x).length = A.length := by
  simp [mulVec]

theorem mulVec_hcat (A B : List (List R)) (x y : List R) (hA : ∀ r ∈ A, r.length = x.length) :
    mulVec (hcat A B) (x ++ y) = List.zipWith (· + ·) (mulVec A x) (mulVec B y) := by
  induction A generalizing B with
  | nil => simp [hcat, mulVec]
  | cons r A ih =>
    cases B with
    | nil => simp [hcat, mulVec]
    | cons s B =>
      have h1 := ih B (fun r' hr' => hA r' (List.mem_cons_of_mem _ hr'))
      simp only [hcat, mulVec, List.zipWith_cons_cons, List.map_cons] at h1 ⊢
      rw [h1, dot_append (hA r (List.mem_cons_self ..))]

/-! ### `addL`, `convL` entry-wise -/

theorem getD_addL (a b : List R) (k : ℕ) :
    (addL a b).getD k 0 = a.getD k 0 + b.getD k 0 := by
  induction a generalizing b k with
  | nil => simp [addL]
  | cons x xs ih =>
    cases b with
    | nil => simp [addL]
    | cons y ys =>
      cases k with
      | zero => simp [addL]
      | succ k => simp only [addL, List.getD_cons_succ]; exact ih ys k

theorem length_addL (a b : List R) : (addL a b).length = max a.length b.length := by
  induction a generalizing b with
  | nil => simp [addL]
  | cons x xs ih =>
    cases b with
    | nil => simp [addL]
    | cons y ys => simp only [addL, List.length_cons, ih]; omega

theorem addL_eq_zipWith {a b : List R} (h : a.length = b.length) :
    addL a b = List.zipWith (· + ·) a b := by
  induction a generalizing b with
  | nil => cases b with
    | nil => rfl
    | cons y ys => simp at h
  | cons x xs ih => cases b with
    | nil => simp at h
    | cons y ys =>
      simp only [List.length_cons, Nat.add_right_cancel_iff] at h
      simp [addL, ih h]

theorem length_convL {a b : List R} (ha : a ≠ []) (hb : b ≠ []) :
    (convL a b).length = a.length + b.length - 1 := by
  induction a with
  | nil => exact absurd rfl ha
  | cons x xs ih =>
    have hbl : 0 < b.length := List.length_pos_iff.mpr hb
    cases xs with
    | nil => simp [convL, length_addL]; omega
    | cons y ys =>
      have := ih (by simp)
      simp only [convL, length_addL, List.length_map, List.length_cons] at this ⊢
      omega

theorem getD_map_mul (c : R) (b : List R) (k : ℕ) :
    (b.map (c * ·)).getD k 0 = c * b.getD k 0 := by
  simp only [List.getD_eq_getElem?_getD, List.getElem?_map]
  cases b[k]? <;> simp

theorem getD_convL (a b : List R) (k : ℕ) :
    (convL a b).getD k 0 = ∑ j ∈ Finset.range (k + 1), a.getD j 0 * b.getD (k - j) 0 := by
  induction a generalizing k with
  | nil => simp [convL]
  | cons c cs ih =>
    rw [convL, getD_addL, getD_map_mul, Finset.sum_range_succ']
    cases k with
    | zero => simp
    | succ k =>
      rw [List.getD_cons_succ, ih, add_comm]
      simp

theorem getD_range_map (n : ℕ) (f : ℕ → R) (j : ℕ) :
    ((List.range n).map f).getD j 0 = if j < n then f j else 0 := by
  simp only [List.getD_eq_getElem?_getD, List.getElem?_map]
  by_cases h : j < n
  · simp [h]
  · simp [h]

/-- one row of `convMat v ldeg` times `x` is one coefficient of the convolution -/
theorem dot_convRow (v x : List R) (ldeg i : ℕ) (hx : x.length = ldeg + 1) :
    dot ((List.range (ldeg + 1)).map fun j => if j ≤ i then v.getD (i - j) 0 else 0) x
      = (convL v x).getD i 0 := by
  rw [dot_eq_sum, getD_convL, List.length_map, List.length_range]
  set g : ℕ → R := fun j => (if j ≤ i then v.getD (i - j) 0 else 0) * x.getD j 0 with hg
  have h1 : ∑ j ∈ Finset.range (ldeg + 1),
      ((List.range (ldeg + 1)).map fun j => if j ≤ i then v.getD (i - j) 0 else 0).getD j 0
        * x.getD j 0 = ∑ j ∈ Finset.range (i + ldeg + 2), g j := by
    rw [← Finset.sum_subset (Finset.range_mono (by omega : ldeg + 1 ≤ i + ldeg + 2))]
    · apply Finset.sum_congr rfl
      intro j hj
      rw [getD_range_map, if_pos (Finset.mem_range.mp hj)]
    · intro j _ hj
      have : x.length ≤ j := by
        rw [hx]; exact Nat.le_of_not_lt (fun h => hj (Finset.mem_range.mpr h))
      simp [hg, List.getD_eq_getElem?_getD, List.getElem?_eq_none this]
  have h2 : ∑ j ∈ Finset.range (i + 1), v.getD j 0 * x.getD (i - j) 0
      = ∑ j ∈ Finset.range (i + ldeg + 2), g j := by
    rw [← Finset.sum_range_reflect,
      ← Finset.sum_subset (Finset.range_mono (by omega : i + 1 ≤ i + ldeg + 2))]
    · apply Finset.sum_congr rfl
      intro j hj
      have hj' : j ≤ i := Nat.lt_succ_iff.mp (Finset.mem_range.mp hj)
      simp only [hg, if_pos hj']
      congr 2; omega
    · intro j _ hj
      have : ¬ j ≤ i := fun h => hj (Finset.mem_range.mpr (Nat.lt_succ_of_le h))
      simp [hg, this]
  rw [h1, h2]

/-- (b) `vec_to_mat(v) · x = numpy.convolve(v, x)` -/
theorem mulVec_convMat (v x : List R) (ldeg : ℕ) (hv : v ≠ []) (hx : x.length = ldeg + 1) :
    mulVec (convMat v ldeg) x = convL v x := by
  have hxne : x ≠ [] := by intro h; simp [h] at hx
  apply List.ext_getElem
  · rw [length_mulVec, length_convMat, length_convL hv hxne, hx]; omega
  · intro i h1 h2
    simp only [mulVec, convMat, List.getElem_map, List.getElem_range]
    rw [dot_convRow v x ldeg i hx, List.getElem_eq_getD (h := h2) 0]

/-- (b) entry-wise: entry `i` of `vec_to_mat(v) · x` is `Σ_{j ≤ i} v[i - j] · x[j]`
    (out-of-range entries read as `0`) -/
theorem getD_mulVec_convMat (v x : List R) (ldeg i : ℕ) (hx : x.length = ldeg + 1)
    (hi : i < v.length + ldeg) :
    (mulVec (convMat v ldeg) x).getD i 0
      = ∑ j ∈ Finset.range (i + 1), v.getD (i - j) 0 * x.getD j 0 := by
  have h1 : i < (mulVec (convMat v ldeg) x).length := by
    rw [length_mulVec, length_convMat]; exact hi
  rw [← List.getElem_eq_getD (h := h1) 0]
  simp only [mulVec, convMat, List.getElem_map, List.getElem_range]
  rw [dot_convRow v x ldeg i hx, getD_convL, ← Finset.sum_range_reflect]
  apply Finset.sum_congr rfl
  intro j hj
  have hj' : j ≤ i := Nat.lt_succ_iff.mp (Finset.mem_range.mp hj)
  congr 2; omega

/-! ### (c) the full matrix -/

section full
variable (ai ax lI lX : List R) (deg ldeg : ℕ)

omit [CommRing R] in
theorem ne_nil_of_length {l : List R} {n : ℕ} (h : l.length = n + 1) : l ≠ [] := by
  intro h0; simp [h0] at h

theorem length_prodI (hai : ai.length = deg + 1) (hax : ax.length = deg + 1)
    (hlI : lI.length = ldeg + 1) (hlX : lX.length = ldeg + 1) :
    (prodI ai ax lI lX).length = deg + ldeg + 1 := by
  have h1 : (ax.reverse.map (- ·)) ≠ [] := by
    apply ne_nil_of_length (n := deg); simp [hax]
  rw [prodI, length_addL, length_convL (ne_nil_of_length hai) (ne_nil_of_length hlI),
    length_convL h1 (ne_nil_of_length hlX)]
  simp only [List.length_map, List.length_reverse, hai, hax, hlI, hlX]
  omega

theorem length_prodX (hai : ai.length = deg + 1) (hax : ax.length = deg + 1)
    (hlI : lI.length = ldeg + 1) (hlX : lX.length = ldeg + 1) :
    (prodX ai ax lI lX).length = deg + ldeg + 1 := by
  have h1 : ai.reverse ≠ [] := by
    apply ne_nil_of_length (n := deg); simp [hai]
  rw [prodX, length_addL, length_convL (ne_nil_of_length hax) (ne_nil_of_length hlI),
    length_convL h1 (ne_nil_of_length hlX)]
  simp only [List.length_reverse, hai, hax, hlI, hlX]
  omega

/-- (c) `M · vec(l)` is the concatenation of the two coefficient lists of the product -/
theorem mulVec_fullM (hai : ai.length = deg + 1) (hax : ax.length = deg + 1)
    (hlI : lI.length = ldeg + 1) (hlX : lX.length = ldeg + 1) :
    mulVec (fullM ai ax ldeg) (lI ++ lX) = prodI ai ax lI lX ++ prodX ai ax lI lX := by
  have h1 : (ax.reverse.map (- ·)) ≠ [] := by
    apply ne_nil_of_length (n := deg); simp [hax]
  have h2 : ai.reverse ≠ [] := by
    apply ne_nil_of_length (n := deg); simp [hai]
  have hrow : ∀ (v : List R), ∀ r ∈ convMat v ldeg, r.length = lI.length := by
    intro v r hr; rw [hlI]; exact row_length_convMat v ldeg r hr
  unfold fullM prodI prodX
  rw [mulVec_append, mulVec_hcat _ _ _ _ (hrow ai), mulVec_hcat _ _ _ _ (hrow ax),
    mulVec_convMat ai lI ldeg (ne_nil_of_length hai) hlI,
    mulVec_convMat ax lI ldeg (ne_nil_of_length hax) hlI,
    mulVec_convMat _ lX ldeg h1 hlX, mulVec_convMat _ lX ldeg h2 hlX,
    addL_eq_zipWith, addL_eq_zipWith]
  · rw [length_convL (ne_nil_of_length hax) (ne_nil_of_length hlI),
      length_convL h2 (ne_nil_of_length hlX)]
    simp [hai, hax, hlI, hlX]
  · rw [length_convL (ne_nil_of_length hai) (ne_nil_of_length hlI),
      length_convL h1 (ne_nil_of_length hlX)]
    simp [hai, hax, hlI, hlX]

end full

/-! ### the bridge to the algebra model -/

theorem mk'_of_ne_nil {cs : List R} (h : cs ≠ []) (d : ℤ) : LP.mk' cs d = ⟨cs, d, false⟩ := by
  cases cs with
  | nil => exact absurd rfl h
  | cons c cs => simp [LP.mk']

theorem mul_explicit (a b : List R) (d e : ℤ) (ha : a ≠ []) :
    (⟨a, d, false⟩ : LP R).mul ⟨b, e, false⟩ = ⟨convL a b, d + e, false⟩ := by
  simp [LP.mul, mk'_of_ne_nil (convL_ne_nil ha b)]

theorem inv_explicit (a : List R) (d : ℤ) (ha : a ≠ []) :
    (⟨a, d, false⟩ : LP R).inv = ⟨a.reverse, -(2 * (a.length : ℤ) + d - 2), false⟩ := by
  have : a.reverse ≠ [] := by simpa using ha
  simp [LP.inv, LP.dmax, mk'_of_ne_nil this]

theorem neg_explicit (a : List R) (d : ℤ) (ha : a ≠ []) :
    (⟨a, d, false⟩ : LP R).neg = ⟨a.map (- ·), d, false⟩ := by
  have : a.map (- ·) ≠ [] := by simpa using ha
  simp [LP.neg, mk'_of_ne_nil this]

theorem add_explicit (a b : List R) (d : ℤ) (ha : a ≠ []) (h : a.length = b.length) :
    (⟨a, d, false⟩ : LP R).add ⟨b, d, false⟩ = .ok ⟨zipAdd a b, d, false⟩ := by
  have hb : b ≠ [] := by
    intro hb; rw [hb] at h; exact ha (List.length_eq_zero_iff.mp h)
  have hA := aligned_nonzero (p := (⟨a, d, false⟩ : LP R)) rfl (lo := d)
    (hi := 2 * (a.length : ℤ) + d - 2) (le_refl _) (le_refl _)
  have hB := aligned_nonzero (p := (⟨b, d, false⟩ : LP R)) rfl (lo := d)
    (hi := 2 * (a.length : ℤ) + d - 2) (le_refl _) (by simp [LP.dmax, h])
  simp only [LP.dmax, sub_self, Int.zero_ediv, Int.toNat_zero, zeros, List.replicate_zero,
    List.nil_append, List.append_nil, h] at hA hB
  simp only [LP.add, LP.parity, LP.dmax, h, Bool.false_eq_true, if_false, ne_eq, not_true_eq_false,
    min_self, max_self, hA, hB]
  rw [mk'_of_ne_nil (zipAdd_ne_nil ha hb)]

theorem denL_convL' (a b : List R) (d e s : ℤ) (h : s = d + e) :
    denL (convL a b) s = denL a d * denL b e := by
  subst h; exact denL_convL a b d e

/-- two coefficient lists of the same length on the same window with the same denotation are
    equal -/
theorem denL_inj {a b : List R} (h : a.length = b.length) {d : ℤ} (e : denL a d = denL b d) :
    a = b := by
  induction a generalizing b d with
  | nil => cases b with
    | nil => rfl
    | cons y ys => simp at h
  | cons x xs ih => cases b with
    | nil => simp at h
    | cons y ys =>
      simp only [List.length_cons, Nat.add_right_cancel_iff] at h
      have hxy : x = y := by
        have := congrArg (fun f => f.coeff d) e
        simpa [coeff_C_mul_T, denL_coeff_of_lt] using this
      subst hxy
      rw [denL_cons, denL_cons] at e
      rw [ih h (add_left_cancel e)]

/-- (c) the product `l * g` of the algebra model IS the pair of the two halves of `M · vec(l)`,
    on the window `-(deg + ldeg) .. deg + ldeg` -/
theorem LA_mul_explicit (ai ax lI lX : List R) (deg ldeg : ℕ)
    (hai : ai.length = deg + 1) (hax : ax.length = deg + 1)
    (hlI : lI.length = ldeg + 1) (hlX : lX.length = ldeg + 1) :
    LA.mul ⟨⟨lI, -(ldeg : ℤ), false⟩, ⟨lX, -(ldeg : ℤ), false⟩⟩
        ⟨⟨ai, -(deg : ℤ), false⟩, ⟨ax, -(deg : ℤ), false⟩⟩
      = .ok ⟨⟨prodI ai ax lI lX, -((deg : ℤ) + ldeg), false⟩,
             ⟨prodX ai ax lI lX, -((deg : ℤ) + ldeg), false⟩⟩ := by
  have nai := ne_nil_of_length hai
  have nax := ne_nil_of_length hax
  have nlI := ne_nil_of_length hlI
  have nlX := ne_nil_of_length hlX
  have nrx : ax.reverse ≠ [] := by simpa using nax
  have nri : ai.reverse ≠ [] := by simpa using nai
  have hinvX : (⟨ax, -(deg : ℤ), false⟩ : LP R).inv = ⟨ax.reverse, -(deg : ℤ), false⟩ := by
    rw [inv_explicit _ _ nax, hax]; congr 1; push_cast; ring
  have hinvI : (⟨ai, -(deg : ℤ), false⟩ : LP R).inv = ⟨ai.reverse, -(deg : ℤ), false⟩ := by
    rw [inv_explicit _ _ nai, hai]; congr 1; push_cast; ring
  have hlenI : (convL lI ai).length = ((convL lX ax.reverse).map (- ·)).length := by
    rw [List.length_map, length_convL nlI nai, length_convL nlX nrx]; simp [hai, hax, hlI, hlX]
  have hlenX : (convL lI ax).length = (convL lX ai.reverse).length := by
    rw [length_convL nlI nax, length_convL nlX nri]; simp [hai, hax, hlI, hlX]
  have h1 : ((⟨lI, -(ldeg : ℤ), false⟩ : LP R).mul ⟨ai, -(deg : ℤ), false⟩).sub
      ((⟨lX, -(ldeg : ℤ), false⟩ : LP R).mul (⟨ax, -(deg : ℤ), false⟩ : LP R).inv)
      = .ok ⟨zipAdd (convL lI ai) ((convL lX ax.reverse).map (- ·)),
          -(ldeg : ℤ) + -(deg : ℤ), false⟩ := by
    rw [hinvX, mul_explicit _ _ _ _ nlI, mul_explicit _ _ _ _ nlX, LP.sub,
      neg_explicit _ _ (convL_ne_nil nlX _), add_explicit _ _ _ (convL_ne_nil nlI _) hlenI]
  have h2 : ((⟨lI, -(ldeg : ℤ), false⟩ : LP R).mul ⟨ax, -(deg : ℤ), false⟩).add
      ((⟨lX, -(ldeg : ℤ), false⟩ : LP R).mul (⟨ai, -(deg : ℤ), false⟩ : LP R).inv)
      = .ok ⟨zipAdd (convL lI ax) (convL lX ai.reverse), -(ldeg : ℤ) + -(deg : ℤ), false⟩ := by
    rw [hinvI, mul_explicit _ _ _ _ nlI, mul_explicit _ _ _ _ nlX,
      add_explicit _ _ _ (convL_ne_nil nlI _) hlenX]
  have hI : zipAdd (convL lI ai) ((convL lX ax.reverse).map (- ·)) = prodI ai ax lI lX := by
    apply denL_inj (d := -(ldeg : ℤ) + -(deg : ℤ))
    · rw [length_prodI ai ax lI lX deg ldeg hai hax hlI hlX]
      simp only [zipAdd, List.length_zipWith, ← hlenI, min_self]
      rw [length_convL nlI nai, hlI, hai]; omega
    · rw [denL_zipAdd _ _ _ hlenI, denL_map_neg, prodI, denL_addL,
        denL_convL, denL_convL, denL_convL' ai lI (-(deg : ℤ)) (-(ldeg : ℤ)) _ (by ring),
        denL_convL' _ lX (-(deg : ℤ)) (-(ldeg : ℤ)) _ (by ring), denL_map_neg]
      ring
  have hX : zipAdd (convL lI ax) (convL lX ai.reverse) = prodX ai ax lI lX := by
    apply denL_inj (d := -(ldeg : ℤ) + -(deg : ℤ))
    · rw [length_prodX ai ax lI lX deg ldeg hai hax hlI hlX]
      simp only [zipAdd, List.length_zipWith, ← hlenX, min_self]
      rw [length_convL nlI nax, hlI, hax]; omega
    · rw [denL_zipAdd _ _ _ hlenX, prodX, denL_addL,
        denL_convL, denL_convL, denL_convL' ax lI (-(deg : ℤ)) (-(ldeg : ℤ)) _ (by ring),
        denL_convL' _ lX (-(deg : ℤ)) (-(ldeg : ℤ)) _ (by ring)]
      ring
  have hd : -(ldeg : ℤ) + -(deg : ℤ) = -((deg : ℤ) + ldeg) := by ring
  simp only [LA.mul, h1, h2, bind, Except.bind]
  rw [hI, hX, hd]
  exact mk'_of_parity rfl

/-! ### reading coefficients of a window -/

theorem getD_of_length_le {l : List R} {k : ℕ} (h : l.length ≤ k) : l.getD k 0 = 0 := by
  simp [List.getD_eq_getElem?_getD, List.getElem?_eq_none h]

/-- `__getitem__` of a non-zero-flagged value, in terms of its coefficient list -/
theorem getItem_explicit (l : List R) (d key : ℤ) :
    (⟨l, d, false⟩ : LP R).getItem key =
      if (key - d) % 2 = 0 ∧ 0 ≤ (key - d) / 2 ∧ (key - d) / 2 < l.length
      then l.getD ((key - d) / 2).toNat 0 else 0 := by
  rw [getItem_eq]; exact denL_coeff l d key

theorem getItem_window (l : List R) (d : ℤ) (k : ℕ) :
    (⟨l, d, false⟩ : LP R).getItem (d + 2 * k) = l.getD k 0 := by
  rw [getItem_explicit]
  have h1 : (d + 2 * (k : ℤ) - d) / 2 = k := by omega
  have h2 : (d + 2 * (k : ℤ) - d) % 2 = 0 := by omega
  rw [h1, h2]
  by_cases hk : k < l.length
  · simp [hk]
  · simp [hk]

theorem zpowWith_one (n : ℤ) : zpowWith (1 : R) 1 n = 1 := by
  cases n <;> simp [zpowWith, npow_eq]

theorem evalL_one (l : List R) (d : ℤ) : evalL (1 : R) 1 l d = l.sum := by
  induction l generalizing d with
  | nil => simp [evalL]
  | cons c cs ih => simp [evalL, ih, zpowWith_one]

/-- the value at `w = 1` is the sum of the coefficients -/
theorem evalAt_one_eq_sum (l : List R) (d : ℤ) :
    (⟨l, d, false⟩ : LP R).evalAt 1 1 = l.sum := by
  simp [LP.evalAt, evalL_one]

/-! ### (a), (d) the selected rows -/

theorem forall_mem_take_zero (l : List R) (n : ℕ) :
    (∀ y ∈ l.take n, y = 0) ↔ ∀ k, k < n → l.getD k 0 = 0 := by
  constructor
  · intro h k hk
    by_cases hkl : k < l.length
    · rw [← List.getElem_eq_getD (h := hkl) 0]
      exact h _ (List.mem_take_iff_getElem.mpr ⟨k, lt_min hk hkl, rfl⟩)
    · exact getD_of_length_le (Nat.le_of_not_lt hkl)
  · intro h y hy
    obtain ⟨i, hi, rfl⟩ := List.mem_take_iff_getElem.mp hy
    rw [List.getElem_eq_getD 0]
    exact h i (lt_of_lt_of_le hi (min_le_left _ _))

theorem forall_mem_drop_zero (l : List R) (n : ℕ) :
    (∀ y ∈ l.drop n, y = 0) ↔ ∀ k, n ≤ k → l.getD k 0 = 0 := by
  constructor
  · intro h k hk
    by_cases hkl : k < l.length
    · rw [← List.getElem_eq_getD (h := hkl) 0]
      refine h _ (List.mem_drop_iff_getElem.mpr ⟨k - n, by omega, ?_⟩)
      congr 1; omega
    · exact getD_of_length_le (Nat.le_of_not_lt hkl)
  · intro h y hy
    obtain ⟨i, hi, rfl⟩ := List.mem_drop_iff_getElem.mp hy
    rw [List.getElem_eq_getD 0]
    exact h _ (by omega)

theorem mulVec_cons (r : List R) (A : List (List R)) (x : List R) :
    mulVec (r :: A) x = dot r x :: mulVec A x := rfl

section sys
variable (ai ax : List R) (deg ldeg : ℕ)

/-- for `ldeg ≥ 1` the Python slice `M[-ldeg:]` is the last `ldeg` rows -/
theorem linSys_fst (hai : ai.length = deg + 1) (hl : 1 ≤ ldeg) :
    (linSys ai ax ldeg).1 =
      (List.replicate (ldeg + 1) 1 ++ List.replicate (ldeg + 1) 0) ::
      (List.replicate (ldeg + 1) 0 ++ List.replicate (ldeg + 1) 1) ::
      ((fullM ai ax ldeg).take ldeg ++
        ((fullM ai ax ldeg).take (deg + 2 * ldeg + 1)).drop (deg + 1) ++
        (fullM ai ax ldeg).drop ((fullM ai ax ldeg).length - ldeg)) := by
  have h0 : ldeg ≠ 0 := by omega
  simp [linSys, lastRows, hai, h0]

/-- (a) for `ldeg = 0` numpy's `M[-0:]` is the whole matrix, and so is the model's -/
theorem linSys_zero (hai : ai.length = deg + 1) (hax : ax.length = deg + 1) :
    linSys ai ax 0 = ([1, 0] :: [0, 1] :: fullM ai ax 0,
      1 :: List.replicate (1 + 2 * (deg + 1)) 0) := by
  have hlen := length_fullM ai ax 0 (hai.trans hax.symm)
  simp [linSys, lastRows, hlen, hai]
  omega

/-- (a) number of rows, row lengths and the right-hand side for `ldeg ≥ 1` -/
theorem linSys_shape (hai : ai.length = deg + 1) (hax : ax.length = deg + 1) (hl : 1 ≤ ldeg) :
    (linSys ai ax ldeg).1.length = 2 + 4 * ldeg ∧
    (∀ r ∈ (linSys ai ax ldeg).1, r.length = 2 * (ldeg + 1)) ∧
    (linSys ai ax ldeg).2 = 1 :: List.replicate (1 + 4 * ldeg) 0 ∧
    ((fullM ai ax ldeg).take ldeg).length = ldeg ∧
    (((fullM ai ax ldeg).take (deg + 2 * ldeg + 1)).drop (deg + 1)).length = 2 * ldeg ∧
    (lastRows (fullM ai ax ldeg) ldeg).length = ldeg := by
  have hlen := length_fullM ai ax ldeg (hai.trans hax.symm)
  rw [hai] at hlen
  have h0 : ldeg ≠ 0 := by omega
  have hrows : (linSys ai ax ldeg).1.length = 2 + 4 * ldeg := by
    rw [linSys_fst ai ax deg ldeg hai hl]
    simp only [List.length_cons, List.length_append, List.length_take, List.length_drop, hlen]
    omega
  refine ⟨hrows, ?_, ?_, ?_, ?_, ?_⟩
  · intro r hr
    rw [linSys_fst ai ax deg ldeg hai hl] at hr
    simp only [List.mem_cons, List.mem_append] at hr
    rcases hr with rfl | rfl | (hr | hr) | hr
    · simp; omega
    · simp; omega
    · exact row_length_fullM ai ax ldeg r (List.mem_of_mem_take hr)
    · exact row_length_fullM ai ax ldeg r (List.mem_of_mem_take (List.mem_of_mem_drop hr))
    · exact row_length_fullM ai ax ldeg r (List.mem_of_mem_drop hr)
  · have : (linSys ai ax ldeg).2 = 1 :: List.replicate ((linSys ai ax ldeg).1.length - 1) 0 := rfl
    rw [this, hrows]; congr 2; omega
  · rw [List.length_take, hlen]; omega
  · rw [List.length_drop, List.length_take, hlen]; omega
  · rw [lastRows, if_neg h0, List.length_drop, hlen]; omega

/-- (a) shape of `M` -/
theorem fullM_shape (hai : ai.length = deg + 1) (hax : ax.length = deg + 1) :
    (fullM ai ax ldeg).length = 2 * (deg + ldeg + 1) ∧
    ∀ r ∈ fullM ai ax ldeg, r.length = 2 * (ldeg + 1) := by
  refine ⟨?_, row_length_fullM ai ax ldeg⟩
  rw [length_fullM ai ax ldeg (hai.trans hax.symm), hai]; omega

/-- (a) the exact condition: the three slices have `ldeg`, `2 ldeg`, `ldeg` rows (and the system
    `2 + 4 ldeg` rows) if and only if `ldeg ≥ 1`; no upper bound on `ldeg` is needed -/
theorem linSys_rows_iff (hai : ai.length = deg + 1) (hax : ax.length = deg + 1) :
    (linSys ai ax ldeg).1.length = 2 + 4 * ldeg ↔ 1 ≤ ldeg := by
  constructor
  · intro h
    by_contra h0
    have h0' : ldeg = 0 := by omega
    subst h0'
    rw [linSys_zero ai ax deg hai hax] at h
    have := (fullM_shape ai ax deg 0 hai hax).1
    simp only [List.length_cons] at h
    omega
  · exact fun hl => (linSys_shape ai ax deg ldeg hai hax hl).1

variable (lI lX : List R)

/-- (d) the product of the system matrix with `vec(l)`, row block by row block -/
theorem mulVec_linSys (hai : ai.length = deg + 1) (hax : ax.length = deg + 1)
    (hlI : lI.length = ldeg + 1) (hlX : lX.length = ldeg + 1) (hl : 1 ≤ ldeg) :
    mulVec (linSys ai ax ldeg).1 (lI ++ lX) =
      lI.sum :: lX.sum ::
        ((prodI ai ax lI lX).take ldeg ++
          ((prodI ai ax lI lX).drop (deg + 1) ++ (prodX ai ax lI lX).take ldeg) ++
          (prodX ai ax lI lX).drop (deg + 1)) := by
  have hM := mulVec_fullM ai ax lI lX deg ldeg hai hax hlI hlX
  have hlen := length_fullM ai ax ldeg (hai.trans hax.symm)
  rw [hai] at hlen
  have hpI := length_prodI ai ax lI lX deg ldeg hai hax hlI hlX
  have hpX := length_prodX ai ax lI lX deg ldeg hai hax hlI hlX
  have e1 : (prodI ai ax lI lX ++ prodX ai ax lI lX).take ldeg = (prodI ai ax lI lX).take ldeg :=
    List.take_append_of_le_length (by omega)
  have e2 : ((prodI ai ax lI lX ++ prodX ai ax lI lX).take (deg + 2 * ldeg + 1)).drop (deg + 1)
      = (prodI ai ax lI lX).drop (deg + 1) ++ (prodX ai ax lI lX).take ldeg := by
    rw [List.take_append, List.take_of_length_le (by omega), hpI,
      List.drop_append_of_le_length (by omega)]
    congr 2; omega
  have e3 : (prodI ai ax lI lX ++ prodX ai ax lI lX).drop (2 * (deg + 1 + ldeg) - ldeg)
      = (prodX ai ax lI lX).drop (deg + 1) := by
    rw [List.drop_append, List.drop_of_length_le (by omega), hpI, List.nil_append]
    congr 1; omega
  rw [linSys_fst ai ax deg ldeg hai hl, mulVec_cons, mulVec_cons, mulVec_append, mulVec_append,
    mulVec_take, mulVec_drop, mulVec_take, mulVec_drop, hM, hlen,
    dot_append (by simp [hlI]), dot_append (by simp [hlI]),
    dot_ones _ _ hlI, dot_ones _ _ hlX, dot_zeros, dot_zeros, add_zero, zero_add, e1, e2, e3]

/-- (d) list level: `m · vec(l) = s` says exactly that the coefficient sums are `1` and `0` and
    that the first `ldeg` and the last `ldeg` coefficients of both halves of `M · vec(l)`
    vanish -/
theorem linSys_iff (hai : ai.length = deg + 1) (hax : ax.length = deg + 1)
    (hlI : lI.length = ldeg + 1) (hlX : lX.length = ldeg + 1) (hl : 1 ≤ ldeg) :
    mulVec (linSys ai ax ldeg).1 (lI ++ lX) = (linSys ai ax ldeg).2 ↔
      lI.sum = 1 ∧ lX.sum = 0 ∧
      ∀ k, (k < ldeg ∨ deg < k) →
        (prodI ai ax lI lX).getD k 0 = 0 ∧ (prodX ai ax lI lX).getD k 0 = 0 := by
  have hpI := length_prodI ai ax lI lX deg ldeg hai hax hlI hlX
  have hpX := length_prodX ai ax lI lX deg ldeg hai hax hlI hlX
  rw [mulVec_linSys ai ax deg ldeg lI lX hai hax hlI hlX hl,
    (linSys_shape ai ax deg ldeg hai hax hl).2.2.1,
    show 1 + 4 * ldeg = (4 * ldeg) + 1 by omega, List.replicate_succ]
  simp only [List.cons.injEq, List.eq_replicate_iff, List.mem_append, or_imp, forall_and,
    forall_mem_take_zero, forall_mem_drop_zero]
  constructor
  · rintro ⟨h1, h2, -, ⟨h3, h4, h5⟩, h6⟩
    exact ⟨h1, h2, ⟨h3, h4⟩, ⟨h5, h6⟩⟩
  · rintro ⟨h1, h2, ⟨h3, h4⟩, ⟨h5, h6⟩⟩
    refine ⟨h1, h2, ?_, ⟨h3, h4, h5⟩, h6⟩
    simp only [List.length_append, List.length_take, List.length_drop, hpI, hpX]
    omega

end sys

/-! ### (d) in terms of the algebra model -/

/-- vanishing of the first `ldeg` and last `ldeg` coefficients on the window
    `-(deg + ldeg) .. deg + ldeg` is `degree ≤ deg - ldeg` -/
theorem ends_zero_iff (l : List R) (deg ldeg : ℕ) :
    (∀ k, (k < ldeg ∨ deg < k) → l.getD k 0 = 0) ↔
      ∀ key : ℤ, (deg : ℤ) - ldeg < |key| →
        (⟨l, -((deg : ℤ) + ldeg), false⟩ : LP R).getItem key = 0 := by
  constructor
  · intro h key hkey
    rw [getItem_explicit]
    split
    · rename_i hc
      apply h
      rcases lt_abs.mp hkey with h1 | h1
      · right; omega
      · left; omega
    · rfl
  · intro h k hk
    by_cases hkl : k < l.length
    · have h1 := h (-((deg : ℤ) + ldeg) + 2 * (k : ℤ))
        (lt_abs.mpr (by rcases hk with hk | hk
                        · right; omega
                        · left; omega))
      rwa [getItem_window] at h1
    · exact getD_of_length_le (Nat.le_of_not_lt hkl)

theorem aligned_window (l : List R) (n : ℕ) (h : l.length = n + 1) :
    (⟨l, -(n : ℤ), false⟩ : LP R).aligned (-(n : ℤ)) n = .ok l := by
  have hd : (⟨l, -(n : ℤ), false⟩ : LP R).dmax = n := by
    simp only [LP.dmax, h]; push_cast; ring
  rw [aligned_nonzero rfl (le_refl _) (by rw [hd])]
  simp [zeros, hd]

section alg
variable (ai ax lI lX : List R) (deg ldeg : ℕ)

/-- (c) the hypothesis form: whatever `LA.mul` returns on `l`, `g` has the two halves of
    `M · vec(l)` as its aligned coefficient lists on the window `-(deg+ldeg) .. deg+ldeg` -/
theorem LA_mul_aligned (hai : ai.length = deg + 1) (hax : ax.length = deg + 1)
    (hlI : lI.length = ldeg + 1) (hlX : lX.length = ldeg + 1) (r : LA R)
    (hr : LA.mul ⟨⟨lI, -(ldeg : ℤ), false⟩, ⟨lX, -(ldeg : ℤ), false⟩⟩
        ⟨⟨ai, -(deg : ℤ), false⟩, ⟨ax, -(deg : ℤ), false⟩⟩ = .ok r) :
    r.I.aligned (-((deg : ℤ) + ldeg)) ((deg : ℤ) + ldeg) = .ok (prodI ai ax lI lX) ∧
    r.X.aligned (-((deg : ℤ) + ldeg)) ((deg : ℤ) + ldeg) = .ok (prodX ai ax lI lX) ∧
    (∀ k : ℕ, r.I.getItem (-((deg : ℤ) + ldeg) + 2 * k) = (prodI ai ax lI lX).getD k 0) ∧
    (∀ k : ℕ, r.X.getItem (-((deg : ℤ) + ldeg) + 2 * k) = (prodX ai ax lI lX).getD k 0) ∧
    den r.I = denL (prodI ai ax lI lX) (-((deg : ℤ) + ldeg)) ∧
    den r.X = denL (prodX ai ax lI lX) (-((deg : ℤ) + ldeg)) := by
  rw [LA_mul_explicit ai ax lI lX deg ldeg hai hax hlI hlX] at hr
  cases hr
  have a1 := aligned_window (prodI ai ax lI lX) (deg + ldeg)
    (length_prodI ai ax lI lX deg ldeg hai hax hlI hlX)
  have a2 := aligned_window (prodX ai ax lI lX) (deg + ldeg)
    (length_prodX ai ax lI lX deg ldeg hai hax hlI hlX)
  push_cast at a1 a2
  exact ⟨a1, a2, fun k => getItem_window _ _ k, fun k => getItem_window _ _ k, rfl, rfl⟩

/-- (d) algebra level: `m · vec(l) = s`  iff  `l(1) = Id` and `deg (l * g) ≤ deg - ldeg` -/
theorem linSys_iff_alg (hai : ai.length = deg + 1) (hax : ax.length = deg + 1)
    (hlI : lI.length = ldeg + 1) (hlX : lX.length = ldeg + 1) (hl : 1 ≤ ldeg) (r : LA R)
    (hr : LA.mul ⟨⟨lI, -(ldeg : ℤ), false⟩, ⟨lX, -(ldeg : ℤ), false⟩⟩
        ⟨⟨ai, -(deg : ℤ), false⟩, ⟨ax, -(deg : ℤ), false⟩⟩ = .ok r) :
    mulVec (linSys ai ax ldeg).1 (lI ++ lX) = (linSys ai ax ldeg).2 ↔
      (⟨lI, -(ldeg : ℤ), false⟩ : LP R).evalAt 1 1 = 1 ∧
      (⟨lX, -(ldeg : ℤ), false⟩ : LP R).evalAt 1 1 = 0 ∧
      ∀ key : ℤ, (deg : ℤ) - ldeg < |key| → r.I.getItem key = 0 ∧ r.X.getItem key = 0 := by
  rw [LA_mul_explicit ai ax lI lX deg ldeg hai hax hlI hlX] at hr
  cases hr
  have eI := ends_zero_iff (prodI ai ax lI lX) deg ldeg
  have eX := ends_zero_iff (prodX ai ax lI lX) deg ldeg
  rw [linSys_iff ai ax deg ldeg lI lX hai hax hlI hlX hl, evalAt_one_eq_sum, evalAt_one_eq_sum]
  constructor
  · rintro ⟨h1, h2, h3⟩
    exact ⟨h1, h2, fun key hkey => ⟨eI.mp (fun k hk => (h3 k hk).1) key hkey,
      eX.mp (fun k hk => (h3 k hk).2) key hkey⟩⟩
  · rintro ⟨h1, h2, h3⟩
    exact ⟨h1, h2, fun k hk => ⟨eI.mpr (fun key hkey => (h3 key hkey).1) k hk,
      eX.mpr (fun key hkey => (h3 key hkey).2) k hk⟩⟩

/-- (d) literally on the vector `M · vec(l)` : its two halves are the entries `k` and
    `deg + ldeg + 1 + k`, `k < deg + ldeg + 1` -/
theorem linSys_iff_fullM (hai : ai.length = deg + 1) (hax : ax.length = deg + 1)
    (hlI : lI.length = ldeg + 1) (hlX : lX.length = ldeg + 1) (hl : 1 ≤ ldeg) :
    mulVec (linSys ai ax ldeg).1 (lI ++ lX) = (linSys ai ax ldeg).2 ↔
      lI.sum = 1 ∧ lX.sum = 0 ∧
      ∀ k, (k < ldeg ∨ (deg < k ∧ k < deg + ldeg + 1)) →
        (mulVec (fullM ai ax ldeg) (lI ++ lX)).getD k 0 = 0 ∧
        (mulVec (fullM ai ax ldeg) (lI ++ lX)).getD (deg + ldeg + 1 + k) 0 = 0 := by
  have hpI := length_prodI ai ax lI lX deg ldeg hai hax hlI hlX
  have hpX := length_prodX ai ax lI lX deg ldeg hai hax hlI hlX
  rw [linSys_iff ai ax deg ldeg lI lX hai hax hlI hlX hl,
    mulVec_fullM ai ax lI lX deg ldeg hai hax hlI hlX]
  have key : ∀ k, k < deg + ldeg + 1 →
      (prodI ai ax lI lX ++ prodX ai ax lI lX).getD k 0 = (prodI ai ax lI lX).getD k 0 ∧
      (prodI ai ax lI lX ++ prodX ai ax lI lX).getD (deg + ldeg + 1 + k) 0
        = (prodX ai ax lI lX).getD k 0 := by
    intro k hk
    constructor
    · rw [List.getD_append _ _ _ _ (by omega)]
    · rw [List.getD_append_right _ _ _ _ (by omega), hpI]
      congr 1; omega
  constructor
  · rintro ⟨h1, h2, h3⟩
    refine ⟨h1, h2, fun k hk => ?_⟩
    have hk' : k < deg + ldeg + 1 := by omega
    rw [(key k hk').1, (key k hk').2]
    exact h3 k (by omega)
  · rintro ⟨h1, h2, h3⟩
    refine ⟨h1, h2, fun k hk => ?_⟩
    by_cases hk' : k < deg + ldeg + 1
    · rw [← (key k hk').1, ← (key k hk').2]
      exact h3 k (by omega)
    · exact ⟨getD_of_length_le (by omega), getD_of_length_le (by omega)⟩

end alg

end LinSys
end QSP

/-
  Proofs for `QSP/Properties/C03c.lean`: the specification of the root finder is satisfiable.
  A self-reciprocal complex polynomial of degree `2n` with non-zero constant term and no root on
  the unit circle is `lead · ∏_{s ∈ S} (X - s)(X - 1/s)` for a list `S` of `n` points of the open
  punctured unit disc.  Induction on `n`: split off a root pair `{r, 1/r}`; the quotient is again
  self-reciprocal (`Polynomial.reverse` is multiplicative over a domain).
-/
import QSP.Proofs.FGComplete
import Mathlib.Algebra.Polynomial.Reverse
import Mathlib.Analysis.Complex.Polynomial.Basic
import Mathlib.Tactic.LinearCombination
open Polynomial
namespace QSP
namespace RootSpec

theorem reverse_X_sub_C' (r : ℂ) : (X - C r : ℂ[X]).reverse = 1 - C r * X := by
  have h : (X - C r : ℂ[X]) = X + C (-r) := by simp [sub_eq_add_neg]
  have hX : (X : ℂ[X]).reverse = 1 := by
    have h1 : reverse (1 : ℂ[X]) = 1 := by rw [← C_1, reverse_C]
    have := reverse_mul_X (1 : ℂ[X]); rw [one_mul, h1] at this; exact this
  rw [h, reverse_add_C, hX, natDegree_X]; simp [sub_eq_add_neg]

/-- the pair factor is self-reciprocal -/
theorem reverse_pair (r : ℂ) (hr : r ≠ 0) :
    ((X - C r) * (X - C r⁻¹) : ℂ[X]).reverse = (X - C r) * (X - C r⁻¹) := by
  have hab : (C r * C r⁻¹ : ℂ[X]) = 1 := by rw [← C_mul, mul_inv_cancel₀ hr, C_1]
  rw [reverse_mul_of_domain, reverse_X_sub_C', reverse_X_sub_C']
  linear_combination (X ^ 2 - 1) * hab

/-- for a self-reciprocal polynomial the inverse of a non-zero root is a root -/
theorem isRoot_inv {p : ℂ[X]} (hrev : p.reverse = p) {r : ℂ} (hr : r ≠ 0) (h : p.IsRoot r) :
    p.IsRoot r⁻¹ := by
  let _ := invertibleOfNonzero hr
  have h' : eval₂ (RingHom.id ℂ) r p = 0 := h
  have := (eval₂_reverse_eq_zero_iff (RingHom.id ℂ) r p).mpr h'
  rw [hrev, invOf_eq_inv] at this
  exact this

theorem exists_recipProd : ∀ (n : ℕ) (p : ℂ[X]), p.natDegree = 2 * n → p.reverse = p →
    p.coeff 0 ≠ 0 → (∀ z : ℂ, ‖z‖ = 1 → p.eval z ≠ 0) →
    ∃ S : List ℂ, S.length = n ∧ (∀ s ∈ S, s ≠ 0 ∧ ‖s‖ < 1) ∧
      p = C p.leadingCoeff * recipProd S := by
  intro n
  induction n with
  | zero =>
    intro p hd _ _ _
    refine ⟨[], rfl, by simp, ?_⟩
    have h := eq_C_of_natDegree_eq_zero (by simpa using hd : p.natDegree = 0)
    have hl : p.leadingCoeff = p.coeff 0 := by rw [leadingCoeff, show p.natDegree = 0 by simpa using hd]
    rw [hl]; simpa [recipProd] using h
  | succ n ih =>
    intro p hd hrev h0 hunit
    have hp0 : p ≠ 0 := by intro h; rw [h] at h0; simp at h0
    have hdeg : 0 < p.degree := by
      rw [degree_eq_natDegree hp0, hd]; exact_mod_cast (by omega : 0 < 2 * (n + 1))
    obtain ⟨r0, hr0⟩ := Complex.exists_root hdeg
    have hne0 : ∀ z : ℂ, p.IsRoot z → z ≠ 0 := by
      intro z hz h; rw [h, IsRoot, ← coeff_zero_eq_eval_zero] at hz; exact h0 hz
    -- a root inside the disc
    obtain ⟨r, hr, hr1⟩ : ∃ r : ℂ, p.IsRoot r ∧ ‖r‖ < 1 := by
      by_cases h : ‖r0‖ < 1
      · exact ⟨r0, hr0, h⟩
      · have h1 : ‖r0‖ ≠ 1 := fun h1 => hunit r0 h1 hr0
        have h2 : 1 < ‖r0‖ := lt_of_le_of_ne (not_lt.mp h) (Ne.symm h1)
        exact ⟨r0⁻¹, isRoot_inv hrev (hne0 r0 hr0) hr0, by rw [norm_inv]; exact inv_lt_one_of_one_lt₀ h2⟩
    have hrne := hne0 r hr
    have hrinv := isRoot_inv hrev hrne hr
    have hdiff : r⁻¹ ≠ r := by
      intro h
      have : ‖r‖ * ‖r‖ = 1 := by
        rw [← norm_mul]; nth_rewrite 1 [← h]; rw [inv_mul_cancel₀ hrne, norm_one]
      nlinarith [norm_nonneg r]
    obtain ⟨p1, hp1⟩ := dvd_iff_isRoot.mpr hr
    have hr1' : p1.IsRoot r⁻¹ := by
      have := hrinv
      rw [hp1, IsRoot, eval_mul, eval_sub, eval_X, eval_C] at this
      exact (mul_eq_zero.mp this).resolve_left (sub_ne_zero.mpr hdiff)
    obtain ⟨q, hq⟩ := dvd_iff_isRoot.mpr hr1'
    have hpq : p = (X - C r) * (X - C r⁻¹) * q := by rw [hp1, hq, mul_assoc]
    have hq0 : q ≠ 0 := by intro h; rw [h, mul_zero] at hpq; exact hp0 hpq
    have hf0 : ((X - C r) * (X - C r⁻¹) : ℂ[X]) ≠ 0 :=
      mul_ne_zero (X_sub_C_ne_zero r) (X_sub_C_ne_zero r⁻¹)
    have hqd : q.natDegree = 2 * n := by
      have := congrArg natDegree hpq
      rw [natDegree_mul hf0 hq0, natDegree_mul (X_sub_C_ne_zero r) (X_sub_C_ne_zero r⁻¹),
        natDegree_X_sub_C, natDegree_X_sub_C, hd] at this
      omega
    have hqrev : q.reverse = q := by
      have := congrArg reverse hpq
      rw [reverse_mul_of_domain, reverse_pair r hrne, hrev] at this
      exact (mul_left_cancel₀ hf0 (hpq.symm.trans this)).symm
    have hq00 : q.coeff 0 ≠ 0 := by
      intro h
      apply h0
      rw [coeff_zero_eq_eval_zero, hpq, eval_mul, ← coeff_zero_eq_eval_zero q, h, mul_zero]
    have hqunit : ∀ z : ℂ, ‖z‖ = 1 → q.eval z ≠ 0 := by
      intro z hz h
      apply hunit z hz
      rw [hpq, eval_mul, h, mul_zero]
    have hlead : p.leadingCoeff = q.leadingCoeff := by
      rw [hpq, leadingCoeff_mul, leadingCoeff_mul, leadingCoeff_X_sub_C, leadingCoeff_X_sub_C,
        one_mul, one_mul]
    obtain ⟨S, hl, hS, hqS⟩ := ih q hqd hqrev hq00 hqunit
    refine ⟨r :: S, by simp [hl], ?_, ?_⟩
    · intro s hs
      rcases List.mem_cons.mp hs with rfl | hs
      · exact ⟨hrne, hr1⟩
      · exact hS s hs
    · rw [hlead]
      have : recipProd (r :: S) = (X - C r) * (X - C r⁻¹) * recipProd S := by simp [recipProd]
      rw [this, mul_left_comm, ← hqS, hpq]

/-- coefficient symmetry is self-reciprocity -/
theorem reverse_eq_self_of_coeff {p : ℂ[X]} {N : ℕ} (hd : p.natDegree = N)
    (hsym : ∀ k ≤ N, p.coeff k = p.coeff (N - k)) : p.reverse = p := by
  ext k
  rw [coeff_reverse, hd]
  by_cases hk : k ≤ N
  · rw [revAt_le hk, ← hsym k hk]
  · rw [revAt_eq_self_of_lt (not_le.mp hk)]

end RootSpec
end QSP

/-
  Property C12 (Jacobian clause), algorithm level, part 2 — the 2×2 side.

  A symmetric SU(2)-like matrix `a·1 + x·iX + z·iZ` is a 3-vector `(a, x, z)` (`symM`).  The
  symmetric conjugations `N ↦ P N P` (`P = c·1 + s·iX`) and `N ↦ W N W` (`W = ct·1 + st·iZ`)
  act on that vector by the 3×3 matrices `Rz(c²−s², 2cs)` and `B(ct²−st², 2·ct·st)` of the code;
  the symmetrised one-sided derivative `P' N P + P N P'` (`P' = −s·1 + c·iX`) acts by `2·D`.
  A palindromic product with (possibly different) left and right pair lists is the nest `nestG`.
-/
import QSP.Proofs.Jacobian
import QSP.Proofs.JacImplCore

set_option linter.unusedSimpArgs false

open Matrix Complex
namespace QSP
namespace JacImpl

/-- `a·1 + x·iX + z·iZ` for `v = (a, x, z)` -/
noncomputable def symM (v : V3 ℝ) : M22 :=
  !![(v.1 : ℂ) + I * (v.2.2 : ℂ), I * (v.2.1 : ℂ); I * (v.2.1 : ℂ), (v.1 : ℂ) - I * (v.2.2 : ℂ)]

/-- a real pair as a complex pair -/
noncomputable def cR (h : ℝ × ℝ) : ℂ × ℂ := ((h.1 : ℂ), (h.2 : ℂ))

/-- `(c, s) ↦ (c² − s², 2cs)` : the pair of the doubled angle -/
def dblP (h : ℝ × ℝ) : ℝ × ℝ := (h.1 * h.1 - h.2 * h.2, two * h.1 * h.2)

/-- `(c, s) ↦ (−s, c)` : the pair of the derivative -/
def dP (h : ℂ × ℂ) : ℂ × ℂ := (-h.2, h.1)

theorem brG_x_symM_im (v : V3 ℝ) : (brG .x (symM v)).im = v.2.1 := by
  rw [brG_x]
  simp [symM]
  ring

theorem symM_rotC (p : ℝ × ℝ) : rotC (p.1 : ℂ) (p.2 : ℂ) = symM (p.1, p.2, 0) := by
  apply Matrix.ext; intro i j
  fin_cases i <;> fin_cases j <;> simp [rotC, symM]

/-- `W N W` acts by `B` -/
theorem conjW_symM (ct st : ℝ) (h : ct * ct + st * st = 1) (v : V3 ℝ) :
    diagC (ct : ℂ) (st : ℂ) * symM v * diagC (ct : ℂ) (st : ℂ)
      = symM (matVec (bMat (ct * ct - st * st) (two * ct * st)) v) := by
  have hC : (ct : ℂ) * ct + (st : ℂ) * st = 1 := by
    rw [← Complex.ofReal_mul, ← Complex.ofReal_mul, ← Complex.ofReal_add, h]; simp
  have hI := Complex.I_mul_I
  obtain ⟨a, x, z⟩ := v
  apply Matrix.ext; intro i j
  fin_cases i <;> fin_cases j <;>
    simp [diagC, symM, matVec, bMat, two, Matrix.mul_apply, Fin.sum_univ_two]
  · linear_combination (2 * (ct : ℂ) * st * z + (st : ℂ) * st * a + I * st * st * z) * hI
  · linear_combination (-(I * (x : ℂ) * st * st)) * hI + (I * (x : ℂ)) * hC
  · linear_combination (-(I * (x : ℂ) * st * st)) * hI + (I * (x : ℂ)) * hC
  · linear_combination (2 * (ct : ℂ) * st * z + (st : ℂ) * st * a - I * st * st * z) * hI

/-- `P N P` acts by `Rz` of the doubled pair -/
theorem conjP_symM (c s : ℝ) (h : c * c + s * s = 1) (v : V3 ℝ) :
    rotC (c : ℂ) (s : ℂ) * symM v * rotC (c : ℂ) (s : ℂ)
      = symM (matVec (rzMat (dblP (c, s))) v) := by
  have hC : (c : ℂ) * c + (s : ℂ) * s = 1 := by
    rw [← Complex.ofReal_mul, ← Complex.ofReal_mul, ← Complex.ofReal_add, h]; simp
  have hI := Complex.I_mul_I
  obtain ⟨a, x, z⟩ := v
  apply Matrix.ext; intro i j
  fin_cases i <;> fin_cases j <;>
    simp [rotC, symM, matVec, rzMat, dblP, two, Matrix.mul_apply, Fin.sum_univ_two]
  · linear_combination (2 * (c : ℂ) * s * x + (a : ℂ) * s * s - I * z * s * s) * hI + (I * (z : ℂ)) * hC
  · linear_combination (I * (s : ℂ) * s * x) * hI
  · linear_combination (I * (s : ℂ) * s * x) * hI
  · linear_combination (2 * (c : ℂ) * s * x + (a : ℂ) * s * s + I * z * s * s) * hI - (I * (z : ℂ)) * hC

/-- the symmetrised one-sided derivative `P' N P + P N P'` acts by `2·D` of the doubled pair -/
theorem dconjP_symM (c s : ℝ) (v : V3 ℝ) :
    rotC (-(s : ℂ)) (c : ℂ) * symM v * rotC (c : ℂ) (s : ℂ)
        + rotC (c : ℂ) (s : ℂ) * symM v * rotC (-(s : ℂ)) (c : ℂ)
      = symM (dbl3 (matVec (dMat (dblP (c, s))) v)) := by
  have hI := Complex.I_mul_I
  obtain ⟨a, x, z⟩ := v
  apply Matrix.ext; intro i j
  fin_cases i <;> fin_cases j <;>
    simp [rotC, symM, matVec, dMat, dblP, dbl3, two, Matrix.mul_apply, Fin.sum_univ_two]
  · linear_combination (2 * (s : ℂ) * a * c - 2 * I * s * z * c - 2 * (s : ℂ) * s * x + 2 * (c : ℂ) * c * x) * hI
  · linear_combination (2 * (s : ℂ) * I * c * x) * hI
  · linear_combination (2 * (s : ℂ) * I * c * x) * hI
  · linear_combination (2 * I * (c : ℂ) * z * s + 2 * (c : ℂ) * a * s + 2 * (c : ℂ) * c * x - 2 * (s : ℂ) * s * x) * hI

end JacImpl
end QSP

/-
  Proofs for `QSP/Properties/C03d.lean`: `p = X^n - A · A.reverse` (`= z^n (1 - F F~)` in `z = w²`,
  `A = Σ F_j z^j`) meets the hypotheses of `C03c.root_spec_satisfiable`.
-/
import QSP.Proofs.RootSpec
import Mathlib.Algebra.Polynomial.Reverse
import Mathlib.Algebra.Polynomial.Degree.Operations
import Mathlib.Analysis.Complex.Norm
open Polynomial
namespace QSP
namespace RootSpec

/-- `z^n (1 - F F~)` as a polynomial in `z = w²` -/
noncomputable def feasPoly (A : ℂ[X]) (n : ℕ) : ℂ[X] := X ^ n - A * A.reverse

section
variable (A : ℂ[X]) (n : ℕ) (hn : 1 ≤ n) (hd : A.natDegree = n) (h0 : A.coeff 0 ≠ 0)
include hn hd h0

theorem A_ne_zero : A ≠ 0 := by intro h; rw [h] at h0; simp at h0

theorem rev_natDegree : A.reverse.natDegree = n := by
  apply le_antisymm
  · rw [← hd]; exact reverse_natDegree_le A
  · apply le_natDegree_of_ne_zero
    rw [coeff_reverse, hd, revAt_le (le_refl n), Nat.sub_self]; exact h0

theorem rev_ne_zero : A.reverse ≠ 0 := by
  rw [Ne, reverse_eq_zero]; exact A_ne_zero A n hn hd h0

theorem feas_natDegree : (feasPoly A n).natDegree = 2 * n := by
  have hm : (A * A.reverse).natDegree = 2 * n := by
    rw [natDegree_mul (A_ne_zero A n hn hd h0) (rev_ne_zero A n hn hd h0), hd,
      rev_natDegree A n hn hd h0]; ring
  rw [feasPoly, natDegree_sub_eq_right_of_natDegree_lt (by rw [natDegree_X_pow, hm]; omega), hm]

theorem feas_coeff_zero : (feasPoly A n).coeff 0 = -(A.coeff 0 * A.leadingCoeff) := by
  rw [feasPoly, coeff_sub, mul_coeff_zero, coeff_zero_reverse, coeff_X_pow]
  rw [if_neg (by omega)]; ring

theorem feas_coeff_zero_ne : (feasPoly A n).coeff 0 ≠ 0 := by
  rw [feas_coeff_zero A n hn hd h0]
  exact neg_ne_zero.mpr (mul_ne_zero h0 (leadingCoeff_ne_zero.mpr (A_ne_zero A n hn hd h0)))

theorem feas_reverse : (feasPoly A n).reverse = feasPoly A n := by
  have hrA : reflect n A = A.reverse := by rw [reverse, hd]
  have hrB : reflect n A.reverse = A := by rw [← hrA, reflect_reflect]
  rw [reverse, feas_natDegree A n hn hd h0, feasPoly, reflect_sub, reflect_monomial,
    revAt_le (by omega), show 2 * n = n + n by ring,
    reflect_mul A A.reverse (le_of_eq hd) (le_of_eq (rev_natDegree A n hn hd h0)), hrA, hrB,
    Nat.add_sub_cancel, mul_comm]

/-- on the unit circle `p(z) = z^n (1 - |A(z)|²)` when `A(1/z) = conj A(z)` there (real
    coefficients) -/
theorem feas_eval (hinv : ∀ z : ℂ, ‖z‖ = 1 → A.eval z⁻¹ = (starRingEnd ℂ) (A.eval z))
    (z : ℂ) (hz : ‖z‖ = 1) :
    (feasPoly A n).eval z = z ^ n * (1 - ((‖A.eval z‖ ^ 2 : ℝ) : ℂ)) := by
  have hz0 : z ≠ 0 := by intro h; rw [h] at hz; simp at hz
  let _ := invertibleOfNonzero (inv_ne_zero hz0)
  have h1 := eval₂_reverse_mul_pow (RingHom.id ℂ) z⁻¹ A
  rw [invOf_eq_inv, inv_inv, hd] at h1
  have h2 : A.reverse.eval z = z ^ n * A.eval z⁻¹ := by
    have h1' : A.reverse.eval z * z⁻¹ ^ n = A.eval z⁻¹ := h1
    rw [← h1', mul_comm, mul_assoc, ← mul_pow, inv_mul_cancel₀ hz0, one_pow, mul_one]
  rw [feasPoly, eval_sub, eval_mul, eval_pow, eval_X, h2, hinv z hz]
  have h3 : A.eval z * (starRingEnd ℂ) (A.eval z) = ((‖A.eval z‖ ^ 2 : ℝ) : ℂ) := by
    rw [Complex.mul_conj, Complex.normSq_eq_norm_sq]
  rw [← h3]; ring

theorem feas_no_unit_root (hinv : ∀ z : ℂ, ‖z‖ = 1 → A.eval z⁻¹ = (starRingEnd ℂ) (A.eval z))
    (hsup : ∀ z : ℂ, ‖z‖ = 1 → ‖A.eval z‖ < 1) (z : ℂ) (hz : ‖z‖ = 1) :
    (feasPoly A n).eval z ≠ 0 := by
  have hz0 : z ≠ 0 := by intro h; rw [h] at hz; simp at hz
  rw [feas_eval A n hn hd h0 hinv z hz]
  refine mul_ne_zero (pow_ne_zero _ hz0) ?_
  have h := hsup z hz
  have : (0 : ℝ) < 1 - ‖A.eval z‖ ^ 2 := by nlinarith [norm_nonneg (A.eval z)]
  intro h'
  have h'' : ((1 - ‖A.eval z‖ ^ 2 : ℝ) : ℂ) = 0 := by push_cast at h' ⊢; exact h'
  exact this.ne' (Complex.ofReal_eq_zero.mp h'')

/-- the root finder's specification is satisfiable for `p = X^n - A · A.reverse` -/
theorem feas_root_spec (hinv : ∀ z : ℂ, ‖z‖ = 1 → A.eval z⁻¹ = (starRingEnd ℂ) (A.eval z))
    (hsup : ∀ z : ℂ, ‖z‖ = 1 → ‖A.eval z‖ < 1) :
    ∃ S : List ℂ, S.length = n ∧ (∀ s ∈ S, s ≠ 0 ∧ ‖s‖ < 1) ∧
      feasPoly A n = C (feasPoly A n).leadingCoeff * recipProd S :=
  exists_recipProd n (feasPoly A n) (feas_natDegree A n hn hd h0) (feas_reverse A n hn hd h0)
    (feas_coeff_zero_ne A n hn hd h0) (feas_no_unit_root A n hn hd h0 hinv hsup)

end
/-! ## the list level -/

/-- `Σ_j F_j X^j` -/
noncomputable def polyL : List ℝ → ℂ[X]
  | [] => 0
  | c :: cs => C (c : ℂ) + X * polyL cs

/-- 1-norm -/
def l1P : List ℝ → ℝ
  | [] => 0
  | c :: cs => |c| + l1P cs

theorem polyL_inv (F : List ℝ) (z : ℂ) (hz : ‖z‖ = 1) :
    (polyL F).eval z⁻¹ = (starRingEnd ℂ) ((polyL F).eval z) := by
  have hzinv : z⁻¹ = (starRingEnd ℂ) z := by
    rw [Complex.inv_def, Complex.normSq_eq_norm_sq, hz]; simp
  induction F with
  | nil => simp [polyL]
  | cons c cs ih =>
    simp only [polyL, eval_add, eval_C, eval_mul, eval_X, ih, map_add, map_mul, Complex.conj_ofReal]
    rw [hzinv]

theorem polyL_norm (F : List ℝ) (z : ℂ) (hz : ‖z‖ = 1) : ‖(polyL F).eval z‖ ≤ l1P F := by
  induction F with
  | nil => simp [polyL, l1P]
  | cons c cs ih =>
    simp only [polyL, eval_add, eval_C, eval_mul, eval_X, l1P]
    refine (norm_add_le _ _).trans (add_le_add ?_ ?_)
    · rw [Complex.norm_real, Real.norm_eq_abs]
    · rw [norm_mul, hz, one_mul]; exact ih

theorem polyL_coeff_zero (c : ℝ) (cs : List ℝ) : (polyL (c :: cs)).coeff 0 = (c : ℂ) := by
  simp [polyL]

theorem polyL_natDegree : ∀ (F : List ℝ) (hne : F ≠ []), F.getLast hne ≠ 0 →
    polyL F ≠ 0 ∧ (polyL F).natDegree = F.length - 1
  | [], hne, _ => absurd rfl hne
  | [c], _, h => by
    have hc : (c : ℂ) ≠ 0 := by simpa using h
    simp [polyL, hc]
  | c :: d :: ds, _, h => by
    obtain ⟨hQ, hdQ⟩ := polyL_natDegree (d :: ds) (by simp) (by simpa using h)
    have hd : (polyL (c :: d :: ds)).natDegree = (d :: ds).length := by
      show (C (c : ℂ) + X * polyL (d :: ds)).natDegree = _
      rw [add_comm, natDegree_add_C, natDegree_X_mul hQ, hdQ]; simp
    refine ⟨?_, by rw [hd]; simp⟩
    intro h0
    rw [h0] at hd; simp at hd

theorem feasible_root_spec (F : List ℝ) (n : ℕ) (hlen : F.length = n + 1) (hn : 1 ≤ n)
    (hl1 : l1P F < 1) (hne : F ≠ []) (hh : F.head hne ≠ 0) (hl : F.getLast hne ≠ 0) :
    ∃ S : List ℂ, S.length = n ∧ (∀ s ∈ S, s ≠ 0 ∧ ‖s‖ < 1) ∧
      feasPoly (polyL F) n = C (feasPoly (polyL F) n).leadingCoeff * recipProd S := by
  have hd : (polyL F).natDegree = n := by rw [(polyL_natDegree F hne hl).2, hlen]; simp
  have h0 : (polyL F).coeff 0 ≠ 0 := by
    cases F with
    | nil => exact absurd rfl hne
    | cons c cs => rw [polyL_coeff_zero]; simpa using hh
  exact feas_root_spec (polyL F) n hn hd h0 (polyL_inv F)
    (fun z hz => lt_of_le_of_lt (polyL_norm F z hz) hl1)

end RootSpec
end QSP

/-
  Property C12 (Jacobian clause), algorithm level — soundness of the executable perturbation
  radius `jacImplErr` (`QSP/Model/JacImplErr.lean`): every entry of `jacImplPt` at inputs within
  `δ` of exact unit pairs is within `jacImplErr n δ` of the entry at the exact inputs; with the
  naturality `jacImplPt_map` and the theorems of `QSP/Proofs/JacImpl.lean`, what the driver
  computes at rational inputs is within that radius of `Im <0|U|0>` / of the true partial
  derivative.
-/
import QSP.Model.JacImplErr
import QSP.Proofs.JacImplPert
import QSP.Proofs.JacImplMap
import QSP.Proofs.JacImpl
import Mathlib.Data.Rat.Cast.CharZero

namespace QSP
namespace JacImpl

/-! ## closed forms of the entries for an arbitrary start column -/

section closed
variable {R : Type} [CommRing R]

theorem jacImplCore_getD_lt' (B : Mat3 R) (r0 : V3 R) (pairs2 : List (R × R)) (k : ℕ)
    (hk : k < pairs2.length) :
    (jacImplCore B r0 pairs2).getD k 0
      = two * (vecU B (matVec (dMat (pairs2.getD k (1, 0))) (vecS B r0 (pairs2.take k)))
          (pairs2.drop (k + 1))).2.1 := by
  unfold jacImplCore
  simp only
  rw [List.getD_append _ _ _ _ (by simpa using hk)]
  rw [List.getD_eq_getElem _ _ (by simpa using hk)]
  simp only [List.getElem_map, List.getElem_range]
  rw [lRows_getD, rCols_getD _ _ _ _ hk, vecMat_dbl3, dot_dbl3, dot_vecMat, dot_lHead,
    List.drop_tail]

theorem jacImplCore_getD_last' (B : Mat3 R) (r0 : V3 R) (pairs2 : List (R × R))
    (hn : pairs2 ≠ []) :
    (jacImplCore B r0 pairs2).getD pairs2.length 0
      = (matVec (rzMat (pairs2.getD (pairs2.length - 1) (1, 0)))
          (vecS B r0 (pairs2.take (pairs2.length - 1)))).2.1 := by
  have hpos : 0 < pairs2.length := List.length_pos_iff.mpr hn
  unfold jacImplCore
  simp only
  rw [List.getD_append_right _ _ _ _ (by simp)]
  simp only [List.length_map, List.length_range, Nat.sub_self, List.getD_cons_zero]
  rw [lRows_getD, rCols_getD _ _ _ _ (by omega), dot_vecMat, List.drop_tail,
    Nat.sub_add_cancel hpos, List.drop_length, lHead]
  simp only [dot]; ring

end closed

/-! ## the signal matrix and the start column -/

/-- the real perturbation rate `ε = 8δ + 4δ²` -/
def epsR (δ : ℝ) : ℝ := 8 * δ + 4 * δ * δ

theorem epsR_ge (δ : ℝ) (hδ : 0 ≤ δ) : 2 * δ ≤ epsR δ := by
  unfold epsR; nlinarith [mul_nonneg hδ hδ]

section signal
variable {δ ct st ct0 st0 : ℝ} (hδ : 0 ≤ δ) (h0 : ct0 ^ 2 + st0 ^ 2 = 1)
  (hc : |ct - ct0| ≤ δ) (hs : |st - st0| ≤ δ)
include hδ h0 hc hs

theorem step_B : Step (epsR δ) (matVec (bMat (ct * ct - st * st) (two * ct * st)))
    (matVec (bMat (ct0 * ct0 - st0 * st0) (two * ct0 * st0))) := by
  have e1 : matVec (bMat (ct * ct - st * st) (two * ct * st))
      = rot13 (ct * ct - st * st) (two * ct * st) := funext (matVec_bMat _ _)
  have e2 : matVec (bMat (ct0 * ct0 - st0 * st0) (two * ct0 * st0))
      = rot13 (ct0 * ct0 - st0 * st0) (two * ct0 * st0) := funext (matVec_bMat _ _)
  rw [e1, e2]
  have hε0 : 0 ≤ epsR δ := by have := epsR_ge δ hδ; linarith
  have hc0 : |ct0| ≤ 1 := abs_le_of_sq_le_sq (by nlinarith [sq_nonneg st0]) zero_le_one
  have hs0 : |st0| ≤ 1 := abs_le_of_sq_le_sq (by nlinarith [sq_nonneg ct0]) zero_le_one
  set η := 2 * δ * (2 + δ) with hη
  have hsum : ∀ x x0 : ℝ, |x0| ≤ 1 → |x - x0| ≤ δ → |x * x - x0 * x0| ≤ δ * (2 + δ) := by
    intro x x0 h1 h2
    have e : x * x - x0 * x0 = (x - x0) * (x + x0) := by ring
    have h3 : |x + x0| ≤ 2 + δ := by
      have : x + x0 = (x - x0) + 2 * x0 := by ring
      rw [this]
      refine (abs_add_le _ _).trans ?_
      rw [abs_mul, abs_two]
      linarith
    rw [e, abs_mul]
    exact mul_le_mul h2 h3 (abs_nonneg _) hδ
  have d1 : |(ct * ct - st * st) - (ct0 * ct0 - st0 * st0)| ≤ η := by
    have e : (ct * ct - st * st) - (ct0 * ct0 - st0 * st0)
        = (ct * ct - ct0 * ct0) - (st * st - st0 * st0) := by ring
    rw [e]
    refine (abs_sub _ _).trans ?_
    have := hsum ct ct0 hc0 hc
    have := hsum st st0 hs0 hs
    rw [hη]; linarith
  have d2 : |two * ct * st - two * ct0 * st0| ≤ η := by
    have e : two * ct * st - two * ct0 * st0 = 2 * (ct * (st - st0) + st0 * (ct - ct0)) := by
      unfold two; ring
    have hct : |ct| ≤ 1 + δ := by
      have : ct = (ct - ct0) + ct0 := by ring
      rw [this]
      refine (abs_add_le _ _).trans ?_
      linarith
    rw [e, abs_mul, abs_two]
    have h1 : |ct * (st - st0)| ≤ (1 + δ) * δ := by
      rw [abs_mul]; exact mul_le_mul hct hs (abs_nonneg _) (by linarith)
    have h2 : |st0 * (ct - ct0)| ≤ 1 * δ := by
      rw [abs_mul]; exact mul_le_mul hs0 hc (abs_nonneg _) zero_le_one
    have := abs_add_le (ct * (st - st0)) (st0 * (ct - ct0))
    rw [hη]; nlinarith
  have hη0 : 0 ≤ η := by rw [hη]; positivity
  have a1 := sq_le_sq' (neg_le_of_abs_le d1) (le_of_abs_le d1)
  have a2 := sq_le_sq' (neg_le_of_abs_le d2) (le_of_abs_le d2)
  refine step_rot13 (epsR δ) _ _ _ _ hε0 ?_ ?_
  · have : (ct0 * ct0 - st0 * st0) ^ 2 + (two * ct0 * st0) ^ 2 = (ct0 ^ 2 + st0 ^ 2) ^ 2 := by
      unfold two; ring
    rw [this, h0]; norm_num
  · have he : epsR δ = 2 * η := by unfold epsR; rw [hη]; ring
    rw [he]
    nlinarith

theorem close_r0 (par : ℕ) :
    Close (1 + epsR δ) (if par = 0 then ((1 : ℝ), (0 : ℝ), (0 : ℝ)) else (ct, 0, st))
      (if par = 0 then ((1 : ℝ), (0 : ℝ), (0 : ℝ)) else (ct0, 0, st0)) := by
  have hε := epsR_ge δ hδ
  split_ifs
  · refine ⟨?_, ?_⟩
    · have := en_le_en (u := ((1 : ℝ), (0 : ℝ), (0 : ℝ))) (v := ((1 : ℝ), (0 : ℝ), (0 : ℝ))) le_rfl
      have h1 : en ((1 : ℝ), (0 : ℝ), (0 : ℝ)) ^ 2 = 1 := by rw [en_sq]; simp [ssq]
      nlinarith [en_nonneg ((1 : ℝ), (0 : ℝ), (0 : ℝ))]
    · rw [sub_self]
      have h1 : en (0 : V3 ℝ) ^ 2 = 0 := by rw [en_sq]; simp [ssq]
      have h2 : en (0 : V3 ℝ) = 0 := by simpa using h1
      rw [h2]; linarith
  · refine ⟨?_, ?_⟩
    · have h1 : en ((ct0, 0, st0) : V3 ℝ) ^ 2 = 1 := by rw [en_sq]; simp [ssq]; linarith
      nlinarith [en_nonneg ((ct0, 0, st0) : V3 ℝ)]
    · have a1 := sq_le_sq' (neg_le_of_abs_le hc) (le_of_abs_le hc)
      have a2 := sq_le_sq' (neg_le_of_abs_le hs) (le_of_abs_le hs)
      have h1 : en (((ct, 0, st) : V3 ℝ) - (ct0, 0, st0)) ≤ epsR δ * en ((1 : ℝ), (0 : ℝ), (0 : ℝ)) := by
        refine en_le_mul (by linarith) ?_
        simp only [ssq, Prod.mk_sub_mk]
        nlinarith
      have h2 : en ((1 : ℝ), (0 : ℝ), (0 : ℝ)) ^ 2 = 1 := by rw [en_sq]; simp [ssq]
      have h3 : en ((1 : ℝ), (0 : ℝ), (0 : ℝ)) = 1 := by
        have := en_nonneg ((1 : ℝ), (0 : ℝ), (0 : ℝ))
        nlinarith
      rw [h3] at h1; linarith

end signal

/-! ## every entry -/

/-- the real radius `2·((1+ε)^{2n} − 1)` -/
noncomputable def errR (n : ℕ) (δ : ℝ) : ℝ := 2 * ((1 + epsR δ) ^ (2 * n) - 1)

theorem Close.mid {κ : ℝ} {u u0 : V3 ℝ} (h : Close κ u u0) : |u.2.1 - u0.2.1| ≤ κ - 1 := by
  have := abs_mid_le_en (u - u0)
  simp only [Prod.fst_sub, Prod.snd_sub] at this
  linarith [h.2]

theorem getD_fst (qs : List ((ℝ × ℝ) × (ℝ × ℝ))) (k : ℕ) :
    (qs.map Prod.fst).getD k (1, 0) = (qs.getD k ((1, 0), (1, 0))).1 :=
  List.getD_map qs (((1 : ℝ), (0 : ℝ)), ((1 : ℝ), (0 : ℝ))) Prod.fst

theorem getD_snd (qs : List ((ℝ × ℝ) × (ℝ × ℝ))) (k : ℕ) :
    (qs.map Prod.snd).getD k (1, 0) = (qs.getD k ((1, 0), (1, 0))).2 :=
  List.getD_map qs (((1 : ℝ), (0 : ℝ)), ((1 : ℝ), (0 : ℝ))) Prod.snd

theorem good_getD {δ : ℝ} (hδ : 0 ≤ δ) (qs : List ((ℝ × ℝ) × (ℝ × ℝ)))
    (hq : ∀ q ∈ qs, Good δ q) (k : ℕ) : Good δ (qs.getD k ((1, 0), (1, 0))) := by
  by_cases h : k < qs.length
  · rw [List.getD_eq_getElem _ _ h]; exact hq _ (List.getElem_mem h)
  · rw [List.getD_eq_default _ _ (by omega)]; exact good_default δ hδ

/-- zipped form: `qs` lists the (perturbed, exact) pairs -/
theorem jacImplPt_err_zip (par : ℕ) (δ ct st ct0 st0 : ℝ) (hδ : 0 ≤ δ)
    (h0 : ct0 ^ 2 + st0 ^ 2 = 1) (hc : |ct - ct0| ≤ δ) (hs : |st - st0| ≤ δ)
    (qs : List ((ℝ × ℝ) × (ℝ × ℝ))) (hq : ∀ q ∈ qs, Good δ q) (k : ℕ) (hk : k ≤ qs.length) :
    |(jacImplPt par (qs.map Prod.fst) ct st).getD k 0
        - (jacImplPt par (qs.map Prod.snd) ct0 st0).getD k 0| ≤ errR qs.length δ := by
  have hε := epsR_ge δ hδ
  have hε0 : 0 ≤ epsR δ := by linarith
  have hB := step_B hδ h0 hc hs
  have hr := close_r0 hδ h0 hc hs par
  unfold jacImplPt
  simp only [List.length_map]
  by_cases hn : qs.length = 0
  · simp [hn, errR]
  rw [if_neg hn, if_neg hn]
  have hpow : (1 : ℝ) ≤ (1 + epsR δ) ^ (2 * qs.length) := one_le_pow₀ (by linarith)
  rcases Nat.lt_or_eq_of_le hk with hlt | heq
  · rw [jacImplCore_getD_lt' _ _ _ k (by simpa using hlt),
      jacImplCore_getD_lt' _ _ _ k (by simpa using hlt)]
    rw [getD_fst, getD_snd, ← List.map_take, ← List.map_take, ← List.map_drop, ← List.map_drop]
    have c1 := vecS_close hδ hε hB (qs.take k) (fun q h => hq q (List.mem_of_mem_take h)) hr
    have c2 := c1.step hε0 ((good_getD hδ qs hq k).step_d hδ hε)
    have c3 := vecU_close hδ hε hB (qs.drop (k + 1)) (fun q h => hq q (List.mem_of_mem_drop h)) c2
    have hl1 : (qs.take k).length = k := by simp; omega
    have hl2 : (qs.drop (k + 1)).length = qs.length - (k + 1) := by simp
    rw [hl1, hl2] at c3
    have hκ : (1 + epsR δ) * (1 + epsR δ) ^ (2 * k) * (1 + epsR δ)
        * (1 + epsR δ) ^ (2 * (qs.length - (k + 1))) = (1 + epsR δ) ^ (2 * qs.length) := by
      rw [← pow_succ', ← pow_succ, ← pow_add]
      congr 1; omega
    have := (c3.mono hκ).mid
    rw [← mul_sub, abs_mul]
    have h2 : |(two : ℝ)| = 2 := by unfold two; norm_num
    rw [h2]; unfold errR; linarith
  · subst heq
    have hne1 : qs.map Prod.fst ≠ [] := by simpa using (List.length_pos_iff.mp (by omega) : qs ≠ [])
    have hne2 : qs.map Prod.snd ≠ [] := by simpa using (List.length_pos_iff.mp (by omega) : qs ≠ [])
    have e1 := jacImplCore_getD_last' (bMat (ct * ct - st * st) (two * ct * st))
      (if par = 0 then ((1 : ℝ), (0 : ℝ), (0 : ℝ)) else (ct, 0, st)) _ hne1
    have e2 := jacImplCore_getD_last' (bMat (ct0 * ct0 - st0 * st0) (two * ct0 * st0))
      (if par = 0 then ((1 : ℝ), (0 : ℝ), (0 : ℝ)) else (ct0, 0, st0)) _ hne2
    rw [List.length_map] at e1 e2
    rw [e1, e2]
    rw [getD_fst, getD_snd, ← List.map_take, ← List.map_take]
    have c1 := vecS_close hδ hε hB (qs.take (qs.length - 1))
      (fun q h => hq q (List.mem_of_mem_take h)) hr
    have c2 := c1.step hε0 ((good_getD hδ qs hq (qs.length - 1)).step_rz hδ hε)
    have hl1 : (qs.take (qs.length - 1)).length = qs.length - 1 := by simp
    rw [hl1] at c2
    have hκ : (1 + epsR δ) * (1 + epsR δ) ^ (2 * (qs.length - 1)) * (1 + epsR δ)
        = (1 + epsR δ) ^ (2 * qs.length) := by
      rw [← pow_succ', ← pow_succ]
      congr 1; omega
    have := (c2.mono hκ).mid
    unfold errR; linarith

/-- two-list form -/
theorem jacImplPt_err (par : ℕ) (δ ct st ct0 st0 : ℝ) (hδ : 0 ≤ δ)
    (h0 : ct0 ^ 2 + st0 ^ 2 = 1) (hc : |ct - ct0| ≤ δ) (hs : |st - st0| ≤ δ)
    (P P0 : List (ℝ × ℝ)) (hlen : P.length = P0.length)
    (hq : ∀ q ∈ P.zip P0, Good δ q) (k : ℕ) (hk : k ≤ P.length) :
    |(jacImplPt par P ct st).getD k 0 - (jacImplPt par P0 ct0 st0).getD k 0|
      ≤ errR P.length δ := by
  have h := jacImplPt_err_zip par δ ct st ct0 st0 hδ h0 hc hs (P.zip P0) hq k
    (by simp [hlen]; omega)
  rw [List.map_fst_zip hlen.le, List.map_snd_zip hlen.ge] at h
  simpa [hlen] using h

/-! ## against the mathematical quantities, and for what the driver computes -/

theorem errR_cast (n : ℕ) (δ : ℚ) : ((jacImplErr n δ : ℚ) : ℝ) = errR n (δ : ℝ) := by
  unfold jacImplErr jacImplEps errR epsR
  push_cast
  ring

/-- real inputs within `δ` of the exact cos/sin: every entry within `errR n δ` of the exact model,
    i.e. (by `jacImplPt_respIm` / `jacImplPt_dRespIm`) of the value / the true partial derivative -/
theorem jacImplPt_err_exact (par : ℕ) (red : List ℝ) (θ δ ct st : ℝ) (hδ : 0 ≤ δ)
    (hc : |ct - Real.cos θ| ≤ δ) (hs : |st - Real.sin θ| ≤ δ) (P : List (ℝ × ℝ))
    (hlen : P.length = red.length)
    (hP : ∀ q ∈ P.zip (pairs2Of red), |q.1.1 - q.2.1| ≤ δ ∧ |q.1.2 - q.2.2| ≤ δ)
    (k : ℕ) (hk : k ≤ red.length) :
    |(jacImplPt par P ct st).getD k 0
        - (jacImplPt par (pairs2Of red) (Real.cos θ) (Real.sin θ)).getD k 0|
      ≤ errR red.length δ := by
  rw [← hlen]
  refine jacImplPt_err par δ ct st _ _ hδ (Real.cos_sq_add_sin_sq θ) hc hs P (pairs2Of red)
    (by rw [hlen, pairs2Of_length]) ?_ k (by omega)
  intro q hq
  refine ⟨?_, hP q hq⟩
  obtain ⟨a, b⟩ := q
  have hb := (List.of_mem_zip hq).2
  unfold pairs2Of at hb
  obtain ⟨x, _, rfl⟩ := List.mem_map.mp hb
  exact Real.cos_sq_add_sin_sq (2 * x)

/-- a rational pair cast to `ℝ` -/
noncomputable def castP2 (p : ℚ × ℚ) : ℝ × ℝ := Prod.map (Rat.castHom ℝ) (Rat.castHom ℝ) p

theorem cast_jacImplPt (par : ℕ) (Pq : List (ℚ × ℚ)) (ctq stq : ℚ) (k : ℕ) :
    (((jacImplPt par Pq ctq stq).getD k 0 : ℚ) : ℝ)
      = (jacImplPt par (Pq.map castP2) (ctq : ℝ) (stq : ℝ)).getD k 0 := by
  have h := jacImplPt_map (Rat.castHom ℝ) par Pq ctq stq
  have h2 := List.getD_map (jacImplPt par Pq ctq stq) (0 : ℚ) (Rat.castHom ℝ) (n := k)
  rw [map_zero, h] at h2
  exact h2.symm

/-- what the driver computes at rational inputs within `δ` of the exact cos/sin, cast to `ℝ`, is
    within `jacImplErr n δ` of the real model at the exact inputs -/
theorem jacImplPt_rat_err (par : ℕ) (red : List ℝ) (θ : ℝ) (Pq : List (ℚ × ℚ)) (ctq stq δ : ℚ)
    (hδ : 0 ≤ δ) (hc : |(ctq : ℝ) - Real.cos θ| ≤ (δ : ℝ)) (hs : |(stq : ℝ) - Real.sin θ| ≤ (δ : ℝ))
    (hlen : Pq.length = red.length)
    (hP : ∀ q ∈ (Pq.map castP2).zip (pairs2Of red),
      |q.1.1 - q.2.1| ≤ (δ : ℝ) ∧ |q.1.2 - q.2.2| ≤ (δ : ℝ))
    (k : ℕ) (hk : k ≤ red.length) :
    |(((jacImplPt par Pq ctq stq).getD k 0 : ℚ) : ℝ)
        - (jacImplPt par (pairs2Of red) (Real.cos θ) (Real.sin θ)).getD k 0|
      ≤ ((jacImplErr red.length δ : ℚ) : ℝ) := by
  rw [cast_jacImplPt, errR_cast]
  exact jacImplPt_err_exact par red θ (δ : ℝ) _ _ (by exact_mod_cast hδ) hc hs (Pq.map castP2)
    (by simpa using hlen) hP k hk

end JacImpl
end QSP

/-
  Soundness of the executable sup-norm certificate `QSP/Model/Sup.lean`.
-/
import QSP.Model.Sup
import Mathlib.Analysis.Complex.Basic
import Mathlib.Analysis.Complex.Norm
import Mathlib.Data.Complex.Basic
import Mathlib.Tactic.Ring
import Mathlib.Tactic.Linarith
import Mathlib.Tactic.FieldSimp
import Mathlib.Tactic.LinearCombination
import Mathlib.Tactic.Positivity
import Mathlib.Tactic.GCongr
import Mathlib.Tactic.NormNum
import Mathlib.Tactic.Push

open Complex
namespace QSP

/-! ## Complex-level definitions -/

/-- sum_j cs[j] * w^(d + 2 j) over ℂ (integer powers, zpow) -/
noncomputable def FW : List ℂ → ℤ → ℂ → ℂ
  | [], _, _ => 0
  | c :: cs, d, w => c * w ^ d + FW cs (d + 2) w

/-- sum_j (d + 2 j) * cs[j] * w^(d + 2 j) -/
noncomputable def DW : List ℂ → ℤ → ℂ → ℂ
  | [], _, _ => 0
  | c :: cs, d, w => (d : ℂ) * (c * w ^ d) + DW cs (d + 2) w

/-- sum_j |d + 2 j| * ‖cs[j]‖ -/
noncomputable def L1w : List ℂ → ℤ → ℝ
  | [], _ => 0
  | c :: cs, d => |(d : ℝ)| * ‖c‖ + L1w cs (d + 2)

/-- sum_j ‖cs[j]‖ * |k| (|k| - 1) / 2, k = d + 2 j -/
noncomputable def M2w : List ℂ → ℤ → ℝ
  | [], _ => 0
  | c :: cs, d => ‖c‖ * (|(d : ℝ)| * (|(d : ℝ)| - 1) / 2) + M2w cs (d + 2)

def toC (a : ℚ × ℚ) : ℂ := ⟨(a.1 : ℝ), (a.2 : ℝ)⟩

noncomputable def cayleyC (t : ℝ) : ℂ := (1 + t * I) / (1 - t * I)

/-- `2 s / (1 + s²)` -/
noncomputable def sig (s : ℝ) : ℝ := 2 * s / (1 + s ^ 2)

/-! ## The Cayley parametrisation -/

theorem one_sub_mul_I_ne (t : ℝ) : (1 : ℂ) - t * I ≠ 0 := by
  intro h
  have := congrArg Complex.re h
  simp at this

theorem one_add_mul_I_ne (t : ℝ) : (1 : ℂ) + t * I ≠ 0 := by
  intro h
  have := congrArg Complex.re h
  simp at this

theorem one_add_sq_ne (s : ℝ) : (1 : ℂ) + (s : ℂ) ^ 2 ≠ 0 := by
  have : (1 : ℝ) + s ^ 2 ≠ 0 := by positivity
  exact_mod_cast this

theorem norm_cayleyC (t : ℝ) : ‖cayleyC t‖ = 1 := by
  have h : (1 : ℂ) - t * I = (starRingEnd ℂ) (1 + t * I) := by simp [sub_eq_add_neg]
  rw [cayleyC, norm_div, h, Complex.norm_conj, div_self]
  exact norm_ne_zero_iff.mpr (one_add_mul_I_ne t)

theorem cayleyC_ne_zero (t : ℝ) : cayleyC t ≠ 0 := by
  rw [← norm_ne_zero_iff, norm_cayleyC]; exact one_ne_zero

theorem cayleyC_neg (s : ℝ) : cayleyC (-s) = (cayleyC s)⁻¹ := by
  simp only [cayleyC, inv_div]; push_cast; ring_nf

theorem cayleyC_sub_one (s : ℝ) : cayleyC s - 1 = (sig s : ℂ) * (I - s) := by
  have h1 := one_sub_mul_I_ne s
  have h2 := one_add_sq_ne s
  simp only [cayleyC, sig]; push_cast
  field_simp
  linear_combination (2 * (s : ℂ) ^ 2) * I_sq

theorem sig_neg (s : ℝ) : sig (-s) = - sig s := by
  simp only [sig]; ring

theorem abs_sig_le (s : ℝ) : |sig s| ≤ 2 * |s| := by
  have h : (0 : ℝ) < 1 + s ^ 2 := by positivity
  rw [sig, abs_div, abs_of_pos h, abs_mul, abs_of_pos (by norm_num : (0 : ℝ) < 2)]
  apply div_le_self (by positivity)
  nlinarith [sq_nonneg s]

theorem norm_cayleyC_sub_one_sq (s : ℝ) : ‖cayleyC s - 1‖ ^ 2 ≤ 4 * s ^ 2 := by
  have h : (0 : ℝ) < 1 + s ^ 2 := by positivity
  have hI : ‖I - (s : ℂ)‖ ^ 2 = 1 + s ^ 2 := by
    rw [Complex.sq_norm, Complex.normSq_apply]; simp; ring
  rw [cayleyC_sub_one, norm_mul, mul_pow, hI, Complex.norm_real, Real.norm_eq_abs, sq_abs, sig]
  have : (2 * s / (1 + s ^ 2)) ^ 2 * (1 + s ^ 2) = 4 * s ^ 2 / (1 + s ^ 2) := by
    field_simp; ring
  rw [this]
  apply div_le_self (by positivity)
  nlinarith [sq_nonneg s]

/-! ## Second-order expansion of powers of a unit-modulus number -/

theorem pow_taylor (u : ℂ) (hu : ‖u‖ = 1) (n : ℕ) :
    ‖u ^ n - 1 - n * (u - 1)‖ ≤ ((n : ℝ) * ((n : ℝ) - 1) / 2) * ‖u - 1‖ ^ 2 := by
  induction n with
  | zero => simp
  | succ n ih =>
    have e : u ^ (n + 1) - 1 - ((n + 1 : ℕ) : ℂ) * (u - 1)
        = u * (u ^ n - 1 - n * (u - 1)) + n * (u - 1) ^ 2 := by
      push_cast; ring
    rw [e]
    calc ‖u * (u ^ n - 1 - n * (u - 1)) + n * (u - 1) ^ 2‖
        ≤ ‖u * (u ^ n - 1 - n * (u - 1))‖ + ‖(n : ℂ) * (u - 1) ^ 2‖ := norm_add_le _ _
      _ = ‖u ^ n - 1 - n * (u - 1)‖ + (n : ℝ) * ‖u - 1‖ ^ 2 := by
          rw [norm_mul, hu, one_mul, norm_mul, norm_pow, Complex.norm_natCast]
      _ ≤ ((n : ℝ) * ((n : ℝ) - 1) / 2) * ‖u - 1‖ ^ 2 + (n : ℝ) * ‖u - 1‖ ^ 2 := by gcongr
      _ = (((n + 1 : ℕ) : ℝ) * (((n + 1 : ℕ) : ℝ) - 1) / 2) * ‖u - 1‖ ^ 2 := by
          push_cast; ring

theorem cayley_npow_bound (s : ℝ) (n : ℕ) :
    ‖cayleyC s ^ n - 1 - (sig s : ℂ) * I * n‖
      ≤ s ^ 2 * (2 * (n : ℝ) + 4 * ((n : ℝ) * ((n : ℝ) - 1) / 2)) := by
  have e : cayleyC s ^ n - 1 - (sig s : ℂ) * I * n
      = (cayleyC s ^ n - 1 - n * (cayleyC s - 1)) + (-((n : ℂ) * ((sig s : ℂ) * (s : ℂ)))) := by
    rw [cayleyC_sub_one]; ring
  have hn : (0 : ℝ) ≤ (n : ℝ) * ((n : ℝ) - 1) / 2 := by
    rcases Nat.eq_zero_or_pos n with h | h
    · simp [h]
    · have : (1 : ℝ) ≤ n := by exact_mod_cast h
      have : (0 : ℝ) ≤ (n : ℝ) - 1 := by linarith
      positivity
  rw [e]
  calc _ ≤ ‖cayleyC s ^ n - 1 - n * (cayleyC s - 1)‖ + ‖-((n : ℂ) * ((sig s : ℂ) * (s : ℂ)))‖ :=
        norm_add_le _ _
    _ = ‖cayleyC s ^ n - 1 - n * (cayleyC s - 1)‖ + (n : ℝ) * (|sig s| * |s|) := by
        rw [norm_neg, norm_mul, norm_mul, Complex.norm_natCast, Complex.norm_real,
          Complex.norm_real, Real.norm_eq_abs, Real.norm_eq_abs]
    _ ≤ ((n : ℝ) * ((n : ℝ) - 1) / 2) * (4 * s ^ 2) + (n : ℝ) * ((2 * |s|) * |s|) := by
        gcongr
        · exact (pow_taylor _ (norm_cayleyC s) n).trans
            (mul_le_mul_of_nonneg_left (norm_cayleyC_sub_one_sq s) hn)
        · exact abs_sig_le s
    _ = s ^ 2 * (2 * (n : ℝ) + 4 * ((n : ℝ) * ((n : ℝ) - 1) / 2)) := by
        have : |s| * |s| = s ^ 2 := by rw [← sq, sq_abs]
        linear_combination (2 * (n : ℝ)) * this

theorem cayley_zpow_bound (s : ℝ) (k : ℤ) :
    ‖cayleyC s ^ k - 1 - (sig s : ℂ) * I * k‖
      ≤ s ^ 2 * (2 * |(k : ℝ)| + 4 * (|(k : ℝ)| * (|(k : ℝ)| - 1) / 2)) := by
  obtain ⟨n, rfl | rfl⟩ := Int.eq_nat_or_neg k
  · have := cayley_npow_bound s n
    simpa using this
  · have := cayley_npow_bound (-s) n
    rw [cayleyC_neg, sig_neg] at this
    simp only [zpow_neg, zpow_natCast, Int.cast_neg, Int.cast_natCast, abs_neg, Nat.abs_cast]
    simp only [inv_pow, neg_sq, ofReal_neg] at this
    convert this using 2
    ring

theorem abs_mul_abs_sub_one_nonneg (k : ℤ) : (0 : ℝ) ≤ |(k : ℝ)| * (|(k : ℝ)| - 1) / 2 := by
  rcases eq_or_ne k 0 with h | h
  · simp [h]
  · have h1 : (1 : ℤ) ≤ |k| := Int.one_le_abs h
    have h2 : (1 : ℝ) ≤ |(k : ℝ)| := by exact_mod_cast h1
    have : (0 : ℝ) ≤ |(k : ℝ)| - 1 := by linarith
    positivity

theorem L1_nonneg (cs : List ℂ) (d : ℤ) : 0 ≤ L1w cs d := by
  induction cs generalizing d with
  | nil => simp [L1w]
  | cons c cs ih => simp only [L1w]; have := ih (d + 2); positivity

theorem M2_nonneg (cs : List ℂ) (d : ℤ) : 0 ≤ M2w cs d := by
  induction cs generalizing d with
  | nil => simp [M2w]
  | cons c cs ih =>
    simp only [M2w]
    have := ih (d + 2)
    have := abs_mul_abs_sub_one_nonneg d
    positivity

/-- the algebraic second-order bound around a point `wm` of the unit circle -/
theorem FW_second_order (cs : List ℂ) (d : ℤ) (wm : ℂ) (hwm : ‖wm‖ = 1) (s : ℝ) :
    ‖FW cs d (wm * cayleyC s) - FW cs d wm - (sig s : ℂ) * I * DW cs d wm‖
      ≤ s ^ 2 * (2 * L1w cs d + 4 * M2w cs d) := by
  induction cs generalizing d with
  | nil => simp [FW, DW, L1w, M2w]
  | cons c cs ih =>
    simp only [FW, DW, L1w, M2w]
    have e : c * (wm * cayleyC s) ^ d + FW cs (d + 2) (wm * cayleyC s) - (c * wm ^ d + FW cs (d + 2) wm)
          - (sig s : ℂ) * I * ((d : ℂ) * (c * wm ^ d) + DW cs (d + 2) wm)
        = c * wm ^ d * (cayleyC s ^ d - 1 - (sig s : ℂ) * I * d)
          + (FW cs (d + 2) (wm * cayleyC s) - FW cs (d + 2) wm - (sig s : ℂ) * I * DW cs (d + 2) wm) := by
      rw [mul_zpow]; ring
    rw [e]
    calc _ ≤ ‖c * wm ^ d * (cayleyC s ^ d - 1 - (sig s : ℂ) * I * d)‖
          + ‖FW cs (d + 2) (wm * cayleyC s) - FW cs (d + 2) wm - (sig s : ℂ) * I * DW cs (d + 2) wm‖ :=
          norm_add_le _ _
      _ ≤ ‖c‖ * (s ^ 2 * (2 * |(d : ℝ)| + 4 * (|(d : ℝ)| * (|(d : ℝ)| - 1) / 2)))
          + s ^ 2 * (2 * L1w cs (d + 2) + 4 * M2w cs (d + 2)) := by
          gcongr
          · rw [norm_mul, norm_mul, norm_zpow, hwm, one_zpow, mul_one]
            gcongr
            exact cayley_zpow_bound s d
          · exact ih (d + 2)
      _ = _ := by ring

theorem FW_le (cs : List ℂ) (d : ℤ) (wm : ℂ) (hwm : ‖wm‖ = 1) (s : ℝ) :
    ‖FW cs d (wm * cayleyC s)‖
      ≤ ‖FW cs d wm‖ + 2 * |s| * ‖DW cs d wm‖ + s ^ 2 * (2 * L1w cs d + 4 * M2w cs d) := by
  have h := FW_second_order cs d wm hwm s
  have e : FW cs d (wm * cayleyC s)
      = (FW cs d (wm * cayleyC s) - FW cs d wm - (sig s : ℂ) * I * DW cs d wm)
        + FW cs d wm + (sig s : ℂ) * I * DW cs d wm := by ring
  have h3 : ‖(sig s : ℂ) * I * DW cs d wm‖ ≤ 2 * |s| * ‖DW cs d wm‖ := by
    rw [norm_mul, norm_mul, Complex.norm_I, mul_one, Complex.norm_real, Real.norm_eq_abs]
    gcongr
    exact abs_sig_le s
  calc ‖FW cs d (wm * cayleyC s)‖
      ≤ ‖FW cs d (wm * cayleyC s) - FW cs d wm - (sig s : ℂ) * I * DW cs d wm‖
        + ‖FW cs d wm‖ + ‖(sig s : ℂ) * I * DW cs d wm‖ := by
        conv_lhs => rw [e]
        exact (norm_add_le _ _).trans (add_le_add (norm_add_le _ _) le_rfl)
    _ ≤ _ := by linarith

/-- composition law of the Cayley parametrisation -/
theorem cayleyC_mul (t m : ℝ) (h : 0 < 1 + t * m) :
    cayleyC t = cayleyC m * cayleyC ((t - m) / (1 + t * m)) := by
  have hq : ((1 : ℂ) + t * m) ≠ 0 := by
    have : (1 : ℝ) + t * m ≠ 0 := ne_of_gt h
    exact_mod_cast this
  have h1 := one_sub_mul_I_ne t
  have h2 := one_sub_mul_I_ne m
  have h3 := one_sub_mul_I_ne ((t - m) / (1 + t * m))
  have e1 : (1 : ℂ) + ((t - m) / (1 + t * m) : ℝ) * I
      = (1 + t * I) * (1 - m * I) / (1 + t * m) := by
    push_cast; field_simp; linear_combination ((t : ℂ) * m) * I_sq
  have e2 : (1 : ℂ) - ((t - m) / (1 + t * m) : ℝ) * I
      = (1 - t * I) * (1 + m * I) / (1 + t * m) := by
    push_cast; field_simp; linear_combination ((t : ℂ) * m) * I_sq
  have h4 := one_add_mul_I_ne m
  rw [cayleyC, cayleyC, cayleyC, e1, e2, div_div_div_cancel_right₀ hq, div_mul_div_comm,
    div_eq_div_iff h1 (mul_ne_zero h2 (mul_ne_zero h1 h4))]
  ring

theorem abs_cayley_arg_le (t m : ℝ) (ht : 0 ≤ t) (hm : 0 ≤ m) :
    |(t - m) / (1 + t * m)| ≤ |t - m| := by
  have h : (0 : ℝ) < 1 + t * m := by positivity
  rw [abs_div, abs_of_pos h]
  apply div_le_self (abs_nonneg _)
  nlinarith [mul_nonneg ht hm]

/-- first-quadrant points of the unit circle are `cayleyC t`, `t ∈ [0,1]` -/
theorem quadrant_param (w : ℂ) (hw : ‖w‖ = 1) (hx : 0 ≤ w.re) (hy : 0 ≤ w.im) :
    ∃ t : ℝ, 0 ≤ t ∧ t ≤ 1 ∧ cayleyC t = w := by
  have hsq : w.re ^ 2 + w.im ^ 2 = 1 := by
    have := Complex.sq_norm w
    rw [hw, Complex.normSq_apply] at this
    linarith
  obtain ⟨x, y⟩ := w
  simp only at hx hy hsq
  have hpos : (0 : ℝ) < 1 + x := by linarith
  have him : y ≤ 1 := by nlinarith [sq_nonneg x, sq_nonneg (y - 1)]
  refine ⟨y / (1 + x), by positivity, ?_, ?_⟩
  · rw [div_le_one hpos]; linarith
  · have h1 := one_sub_mul_I_ne (y / (1 + x))
    have hq : ((1 : ℂ) + (x : ℂ)) ≠ 0 := by
      have : (1 : ℝ) + x ≠ 0 := ne_of_gt hpos
      exact_mod_cast this
    have hsqC : (x : ℂ) ^ 2 + (y : ℂ) ^ 2 = 1 := by exact_mod_cast hsq
    rw [cayleyC, div_eq_iff h1, Complex.mk_eq_add_mul_I]
    push_cast
    field_simp
    linear_combination ((y : ℂ) ^ 2) * I_sq - hsqC

/-! ## The rational model -/

theorem toC_eq (a : ℚ × ℚ) : toC a = ((a.1 : ℝ) : ℂ) + ((a.2 : ℝ) : ℂ) * I :=
  Complex.mk_eq_add_mul_I _ _

@[simp] theorem toC_re (a : ℚ × ℚ) : (toC a).re = (a.1 : ℝ) := rfl
@[simp] theorem toC_im (a : ℚ × ℚ) : (toC a).im = (a.2 : ℝ) := rfl

theorem toC_add (a b : CQ) : toC (a.add b) = toC a + toC b := by
  apply Complex.ext <;> simp [CQ.add]

theorem toC_mul (a b : CQ) : toC (a.mul b) = toC a * toC b := by
  apply Complex.ext <;> simp [CQ.mul]

theorem toC_conj (a : CQ) : toC a.conj = (starRingEnd ℂ) (toC a) := by
  apply Complex.ext <;> simp [CQ.conj]

theorem toC_smul (r : ℚ) (a : CQ) : toC (CQ.smul r a) = ((r : ℝ) : ℂ) * toC a := by
  apply Complex.ext <;> simp [CQ.smul]

theorem toC_npow (w : CQ) (n : ℕ) : toC (w.npow n) = toC w ^ n := by
  induction n with
  | zero => apply Complex.ext <;> simp [CQ.npow]
  | succ n ih => rw [CQ.npow, toC_mul, ih, pow_succ]

theorem conj_eq_inv_of_norm_one (z : ℂ) (hz : ‖z‖ = 1) : (starRingEnd ℂ) z = z⁻¹ := by
  apply eq_inv_of_mul_eq_one_right
  rw [Complex.mul_conj, Complex.normSq_eq_norm_sq, hz]; simp

theorem toC_zpowU (w : CQ) (hw : ‖toC w‖ = 1) (k : ℤ) : toC (w.zpowU k) = toC w ^ k := by
  cases k with
  | ofNat n => simp [CQ.zpowU, toC_npow]
  | negSucc n =>
    rw [CQ.zpowU, toC_npow, toC_conj, conj_eq_inv_of_norm_one _ hw, zpow_negSucc, inv_pow]

theorem cayley_spec (t : ℚ) : toC (cayley t) = cayleyC (t : ℝ) := by
  have h1 := one_sub_mul_I_ne (t : ℝ)
  have h2 := one_add_sq_ne (t : ℝ)
  rw [cayleyC, eq_div_iff h1, toC_eq]
  simp only [cayley]
  push_cast
  have h2' : (1 : ℂ) + (t : ℂ) ^ 2 ≠ 0 := by
    have := h2; push_cast at this; exact this
  field_simp
  linear_combination (-2 * (t : ℂ) ^ 2) * I_sq

theorem norm_toC_cayley (t : ℚ) : ‖toC (cayley t)‖ = 1 := by
  rw [cayley_spec, norm_cayleyC]

theorem evalFD_spec (W : ℂ) (hW : W ≠ 0) (w2 : CQ) (h2 : toC w2 = W ^ 2) (cs : List CQ) :
    ∀ (d : ℤ) (p : CQ), toC p = W ^ d →
      toC (evalFD w2 cs d p).1 = FW (cs.map toC) d W ∧
      toC (evalFD w2 cs d p).2 = DW (cs.map toC) d W := by
  induction cs with
  | nil => intro d p _; constructor <;> (apply Complex.ext <;> simp [evalFD, FW, DW])
  | cons c cs ih =>
    intro d p hp
    have hp2 : toC (p.mul w2) = W ^ (d + 2) := by
      rw [toC_mul, hp, h2, zpow_add₀ hW]; norm_cast
    obtain ⟨i1, i2⟩ := ih (d + 2) (p.mul w2) hp2
    simp only [evalFD, List.map_cons, FW, DW, toC_add, toC_mul, toC_smul, i1, i2, hp]
    constructor
    · trivial
    · push_cast; trivial

theorem evalCayley_spec' (cs : List CQ) (d : ℤ) (t : ℚ) :
    toC (evalCayley cs d t).1 = FW (cs.map toC) d (cayleyC t) ∧
    toC (evalCayley cs d t).2 = DW (cs.map toC) d (cayleyC t) := by
  unfold evalCayley
  apply evalFD_spec _ (cayleyC_ne_zero _)
  · rw [toC_mul, cayley_spec, sq]
  · rw [toC_zpowU _ (norm_toC_cayley t), cayley_spec]

/-- exact value of `f` at the rational circle point -/
theorem evalCayley_spec (cs : List CQ) (d : ℤ) (t : ℚ) :
    toC (evalCayley cs d t).1 = FW (cs.map toC) d (cayleyC t) :=
  (evalCayley_spec' cs d t).1

theorem normSq_spec (a : CQ) : ((a.normSq : ℚ) : ℝ) = ‖toC a‖ ^ 2 := by
  rw [Complex.sq_norm, Complex.normSq_apply]; simp [CQ.normSq]

theorem qabs_eq (x : ℚ) : qabs x = |x| := by
  unfold qabs
  split
  · rename_i h; rw [abs_of_neg h]
  · rename_i h; rw [abs_of_nonneg (not_lt.mp h)]

theorem norm_toC_le_abs1 (a : CQ) : ‖toC a‖ ≤ ((a.abs1 : ℚ) : ℝ) := by
  refine (Complex.norm_le_abs_re_add_abs_im _).trans ?_
  simp [CQ.abs1, qabs_eq]

theorem L1_le_supL1 (cs : List CQ) (d : ℤ) : L1w (cs.map toC) d ≤ ((supL1 cs d : ℚ) : ℝ) := by
  induction cs generalizing d with
  | nil => simp [L1w, supL1]
  | cons c cs ih =>
    simp only [List.map_cons, L1w, supL1, qabs_eq]
    push_cast
    have := norm_toC_le_abs1 c
    have := ih (d + 2)
    gcongr

theorem M2_le_supM2 (cs : List CQ) (d : ℤ) : M2w (cs.map toC) d ≤ ((supM2 cs d : ℚ) : ℝ) := by
  induction cs generalizing d with
  | nil => simp [M2w, supM2]
  | cons c cs ih =>
    simp only [List.map_cons, M2w, supM2, qabs_eq]
    push_cast
    have := norm_toC_le_abs1 c
    have := ih (d + 2)
    have := abs_mul_abs_sub_one_nonneg d
    gcongr

/-! ## Soundness of the bisection certificate -/

/-- one accepted cell: `|t - m| ≤ r` -/
theorem check_sound (cs : List CQ) (d : ℤ) (B K m r : ℚ) (hm : 0 ≤ m)
    (hK : 2 * L1w (cs.map toC) d + 4 * M2w (cs.map toC) d ≤ ((K : ℚ) : ℝ))
    (h1 : 2 * r * (evalCayley cs d m).2.abs1 + r * r * K ≤ B)
    (h2 : (evalCayley cs d m).1.normSq
      ≤ (B - (2 * r * (evalCayley cs d m).2.abs1 + r * r * K))
        * (B - (2 * r * (evalCayley cs d m).2.abs1 + r * r * K)))
    (t : ℝ) (ht : 0 ≤ t) (htm : |t - (m : ℝ)| ≤ (r : ℝ)) :
    ‖FW (cs.map toC) d (cayleyC t)‖ ≤ (B : ℝ) := by
  obtain ⟨e1, e2⟩ := evalCayley_spec' cs d m
  set A : ℝ := (((evalCayley cs d m).2.abs1 : ℚ) : ℝ) with hA
  have hm' : (0 : ℝ) ≤ (m : ℝ) := by exact_mod_cast hm
  have h1' : 2 * (r : ℝ) * A + (r : ℝ) * (r : ℝ) * (K : ℝ) ≤ (B : ℝ) := by
    rw [hA]; exact_mod_cast h1
  have h2' : ‖FW (cs.map toC) d (cayleyC m)‖ ^ 2
      ≤ ((B : ℝ) - (2 * (r : ℝ) * A + (r : ℝ) * (r : ℝ) * (K : ℝ))) ^ 2 := by
    rw [← e1, ← normSq_spec, sq, hA]; exact_mod_cast h2
  have hF : ‖FW (cs.map toC) d (cayleyC m)‖
      ≤ (B : ℝ) - (2 * (r : ℝ) * A + (r : ℝ) * (r : ℝ) * (K : ℝ)) := by
    have := abs_le_of_sq_le_sq h2' (by linarith)
    rwa [abs_of_nonneg (norm_nonneg _)] at this
  have hD : ‖DW (cs.map toC) d (cayleyC m)‖ ≤ A := by
    rw [← e2]; exact norm_toC_le_abs1 _
  have hr : (0 : ℝ) ≤ (r : ℝ) := (abs_nonneg _).trans htm
  have hq : (0 : ℝ) < 1 + t * (m : ℝ) := by positivity
  set s : ℝ := (t - (m : ℝ)) / (1 + t * (m : ℝ)) with hs
  have hsr : |s| ≤ (r : ℝ) := (abs_cayley_arg_le t m ht hm').trans htm
  have hs2 : s ^ 2 ≤ (r : ℝ) * (r : ℝ) := by
    rw [← sq_abs s, ← sq]; exact pow_le_pow_left₀ (abs_nonneg _) hsr 2
  have hK0 : 0 ≤ 2 * L1w (cs.map toC) d + 4 * M2w (cs.map toC) d := by
    have := L1_nonneg (cs.map toC) d
    have := M2_nonneg (cs.map toC) d
    positivity
  have hmain := FW_le (cs.map toC) d (cayleyC m) (norm_cayleyC m) s
  rw [← cayleyC_mul t m hq] at hmain
  have t1 : 2 * |s| * ‖DW (cs.map toC) d (cayleyC m)‖ ≤ 2 * (r : ℝ) * A := by gcongr
  have t2 : s ^ 2 * (2 * L1w (cs.map toC) d + 4 * M2w (cs.map toC) d)
      ≤ (r : ℝ) * (r : ℝ) * (K : ℝ) := by gcongr
  linarith

theorem cell_cover (lo hi : ℚ) (t : ℝ) (h1 : (lo : ℝ) ≤ t) (h2 : t ≤ (hi : ℝ)) :
    |t - (((lo + hi) / 2 : ℚ) : ℝ)| ≤ (((hi - lo) / 2 : ℚ) : ℝ) := by
  push_cast
  rw [abs_le]; constructor <;> linarith

theorem supLeAux_sound (cs : List CQ) (d : ℤ) (B K : ℚ)
    (hK : 2 * L1w (cs.map toC) d + 4 * M2w (cs.map toC) d ≤ ((K : ℚ) : ℝ)) (depth : ℕ) :
    ∀ lo hi : ℚ, 0 ≤ lo → 0 ≤ hi → (supLeAux cs d B K depth lo hi).1 = true →
      ∀ t : ℝ, (lo : ℝ) ≤ t → t ≤ (hi : ℝ) → ‖FW (cs.map toC) d (cayleyC t)‖ ≤ (B : ℝ) := by
  induction depth with
  | zero =>
    intro lo hi hlo hhi h t ht1 ht2
    have hm : (0 : ℚ) ≤ (lo + hi) / 2 := by positivity
    have ht0 : (0 : ℝ) ≤ t := le_trans (by exact_mod_cast hlo) ht1
    unfold supLeAux at h
    dsimp only at h
    split at h
    · rename_i hc
      rw [Bool.and_eq_true, decide_eq_true_eq, decide_eq_true_eq] at hc
      exact check_sound cs d B K _ _ hm hK hc.1 hc.2 t ht0 (cell_cover lo hi t ht1 ht2)
    · split at h <;> simp at h
  | succ n ih =>
    intro lo hi hlo hhi h t ht1 ht2
    have hm : (0 : ℚ) ≤ (lo + hi) / 2 := by positivity
    have ht0 : (0 : ℝ) ≤ t := le_trans (by exact_mod_cast hlo) ht1
    unfold supLeAux at h
    dsimp only at h
    split at h
    · rename_i hc
      rw [Bool.and_eq_true, decide_eq_true_eq, decide_eq_true_eq] at hc
      exact check_sound cs d B K _ _ hm hK hc.1 hc.2 t ht0 (cell_cover lo hi t ht1 ht2)
    · split at h
      · simp at h
      · split at h
        · rename_i ha
          rcases le_total t ((((lo + hi) / 2 : ℚ)) : ℝ) with htm | htm
          · exact ih lo _ hlo hm ha t ht1 htm
          · exact ih _ hi hm hhi h t htm ht2
        · simp at h

/-- (3) first quadrant -/
theorem supLeQ_sound (cs : List CQ) (d : ℤ) (B : ℚ) (depth : ℕ)
    (h : (supLeQ cs d B depth).1 = true) :
    ∀ t : ℝ, 0 ≤ t → t ≤ 1 → ‖FW (cs.map toC) d (cayleyC t)‖ ≤ (B : ℝ) := by
  intro t ht0 ht1
  unfold supLeQ at h
  split at h
  · simp at h
  · refine supLeAux_sound cs d B _ ?_ depth 0 1 le_rfl zero_le_one h t ?_ ?_
    · push_cast
      have := L1_le_supL1 cs d
      have := M2_le_supM2 cs d
      linarith
    · simpa using ht0
    · simpa using ht1

/-! ## From the first quadrant to the whole circle -/

theorem FW_neg (cs : List ℂ) (d : ℤ) (w : ℂ) : FW cs d (-w) = (-1) ^ d * FW cs d w := by
  induction cs generalizing d with
  | nil => simp [FW]
  | cons c cs ih =>
    simp only [FW]
    have h2 : ((-1 : ℂ)) ^ (d + 2) = (-1) ^ d := by
      rw [zpow_add₀ (by norm_num : (-1 : ℂ) ≠ 0)]; norm_num
    rw [ih, h2, ← neg_one_mul w, mul_zpow]; ring

theorem norm_FW_neg (cs : List ℂ) (d : ℤ) (w : ℂ) : ‖FW cs d (-w)‖ = ‖FW cs d w‖ := by
  rw [FW_neg, norm_mul, norm_zpow, norm_neg, norm_one, one_zpow, one_mul]

theorem FW_conj (cs : List ℂ) (d : ℤ) (w : ℂ) :
    FW cs d ((starRingEnd ℂ) w) = (starRingEnd ℂ) (FW (cs.map (starRingEnd ℂ)) d w) := by
  induction cs generalizing d with
  | nil => simp [FW]
  | cons c cs ih =>
    simp only [FW, List.map_cons, map_add, map_mul, Complex.conj_conj, ih, map_zpow₀]

theorem norm_FW_conj (cs : List ℂ) (d : ℤ) (w : ℂ) :
    ‖FW cs d ((starRingEnd ℂ) w)‖ = ‖FW (cs.map (starRingEnd ℂ)) d w‖ := by
  rw [FW_conj, Complex.norm_conj]

/-- a bound on the first quadrant for `f` and for the conjugated coefficients gives the circle -/
theorem circle_of_quadrant (cs : List ℂ) (d : ℤ) (B : ℝ)
    (h1 : ∀ w : ℂ, ‖w‖ = 1 → 0 ≤ w.re → 0 ≤ w.im → ‖FW cs d w‖ ≤ B)
    (h2 : ∀ w : ℂ, ‖w‖ = 1 → 0 ≤ w.re → 0 ≤ w.im → ‖FW (cs.map (starRingEnd ℂ)) d w‖ ≤ B) :
    ∀ w : ℂ, ‖w‖ = 1 → ‖FW cs d w‖ ≤ B := by
  intro w hw
  rcases le_total 0 w.re with hx | hx <;> rcases le_total 0 w.im with hy | hy
  · exact h1 w hw hx hy
  · have := h2 ((starRingEnd ℂ) w) (by rwa [Complex.norm_conj]) (by simpa using hx)
      (by simpa using hy)
    rwa [← norm_FW_conj, Complex.conj_conj] at this
  · have := h2 (-(starRingEnd ℂ) w) (by rwa [norm_neg, Complex.norm_conj]) (by simpa using hx)
      (by simpa using hy)
    rwa [norm_FW_neg, ← norm_FW_conj, Complex.conj_conj] at this
  · have := h1 (-w) (by rwa [norm_neg]) (by simpa using hx) (by simpa using hy)
    rwa [norm_FW_neg] at this

theorem map_toC_conj (cs : List CQ) :
    (cs.map CQ.conj).map toC = (cs.map toC).map (starRingEnd ℂ) := by
  simp only [List.map_map]
  apply List.map_congr_left
  intro a _
  simp [toC_conj]

theorem quadrant_of_param (cs : List ℂ) (d : ℤ) (B : ℝ)
    (h : ∀ t : ℝ, 0 ≤ t → t ≤ 1 → ‖FW cs d (cayleyC t)‖ ≤ B) :
    ∀ w : ℂ, ‖w‖ = 1 → 0 ≤ w.re → 0 ≤ w.im → ‖FW cs d w‖ ≤ B := by
  intro w hw hx hy
  obtain ⟨t, t0, t1, rfl⟩ := quadrant_param w hw hx hy
  exact h t t0 t1

/-- (5) whole circle, complex coefficients -/
theorem supLeC_sound (cs : List CQ) (d : ℤ) (B : ℚ) (depth : ℕ)
    (h : (supLeC cs d B depth).1 = true) :
    ∀ w : ℂ, ‖w‖ = 1 → ‖FW (cs.map toC) d w‖ ≤ (B : ℝ) := by
  unfold supLeC at h
  dsimp only at h
  split at h
  · rename_i ha
    apply circle_of_quadrant
    · exact quadrant_of_param _ _ _ (supLeQ_sound cs d B depth ha)
    · rw [← map_toC_conj]
      exact quadrant_of_param _ _ _ (supLeQ_sound _ d B depth h)
  · rename_i ha; exact absurd h ha

theorem map_real_eq (cs : List ℚ) :
    (cs.map (fun c => ((c, 0) : CQ))).map toC = cs.map (fun q => (((q : ℚ) : ℝ) : ℂ)) := by
  simp only [List.map_map]
  apply List.map_congr_left
  intro a _
  apply Complex.ext <;> simp

theorem map_real_conj (cs : List ℚ) :
    (cs.map (fun q => (((q : ℚ) : ℝ) : ℂ))).map (starRingEnd ℂ)
      = cs.map (fun q => (((q : ℚ) : ℝ) : ℂ)) := by
  simp only [List.map_map]
  apply List.map_congr_left
  intro a _
  simp

/-- (6) whole circle, real coefficients -/
theorem supLeReal_sound (cs : List ℚ) (d : ℤ) (B : ℚ) (depth : ℕ)
    (h : (supLeReal cs d B depth).1 = true) :
    ∀ w : ℂ, ‖w‖ = 1 → ‖FW (cs.map (fun q => (((q : ℚ) : ℝ) : ℂ))) d w‖ ≤ (B : ℝ) := by
  unfold supLeReal at h
  have hq := quadrant_of_param _ _ _ (supLeQ_sound _ d B depth h)
  rw [map_real_eq] at hq
  apply circle_of_quadrant
  · exact hq
  · rw [map_real_conj]; exact hq

end QSP

/-
  Property C12, Jacobian clause: the product-rule formula used by `jacSpec`
  (`QSP/Model/Jacobian.lean`) IS the true partial derivative of the response with respect to
  each reduced phase.

  * `HasDerivAtM` : derivative of a 2×2-matrix-valued function of a real variable, stated
    entrywise (four complex-valued functions) — no choice of a matrix norm is involved;
    `hasDerivAtM_iff_elementwise` / `hasDerivAtM_iff_l2` identify it with Mathlib's `HasDerivAt`
    for the entrywise sup norm and for the L2 operator norm used elsewhere in this project.
  * `UcircPairs θ pairs` : the ordered product `R(c₀,s₀)·(W(θ)R(c₁,s₁))···` over ARBITRARY pairs,
    so that `Ucirc` (pairs `(cos φ, sin φ)`), its derivative `UcircD` (one pair replaced by
    `(−sin φ, cos φ)`) and the value of `LA.fromAngles` (`fromAngles_eval`) are all instances.
  * product rule at one position, chain rule over the positions of a reduced phase in the
    palindromic layout, the consequence for `Im <0|U_x(a)|0>`, and the link to the pairs that
    `jacSpec` feeds to `LA.fromAngles`.
-/
import QSP.Model.Jacobian
import QSP.Proofs.BallSound
import QSP.Proofs.SymQSP
import QSP.Proofs.ValidCore
import Mathlib.Analysis.Calculus.Deriv.Mul
import Mathlib.Analysis.Calculus.Deriv.Add
import Mathlib.Analysis.Calculus.Deriv.Comp
import Mathlib.Analysis.Calculus.Deriv.Prod
import Mathlib.Analysis.SpecialFunctions.Trigonometric.Deriv
import Mathlib.Analysis.Complex.RealDeriv

open Matrix Complex
namespace QSP

/-! ## 0. entrywise derivative of a matrix-valued function -/

/-- `D` is the derivative at `x` of the matrix-valued `F`, entry by entry -/
def HasDerivAtM (F : ℝ → M22) (D : M22) (x : ℝ) : Prop :=
  ∀ i j : Fin 2, HasDerivAt (fun t : ℝ => F t i j) (D i j) x

namespace HasDerivAtM
variable {F G : ℝ → M22} {D E : M22} {x : ℝ}

theorem const (A : M22) (x : ℝ) : HasDerivAtM (fun _ => A) 0 x := fun i j => by
  simpa using hasDerivAt_const x (A i j)

theorem add (hF : HasDerivAtM F D x) (hG : HasDerivAtM G E x) :
    HasDerivAtM (fun t => F t + G t) (D + E) x := fun i j => by
  exact (hF i j).add (hG i j)

theorem mul (hF : HasDerivAtM F D x) (hG : HasDerivAtM G E x) :
    HasDerivAtM (fun t => F t * G t) (D * G x + F x * E) x := fun i j => by
  have h := ((hF i 0).mul (hG 0 j)).add ((hF i 1).mul (hG 1 j))
  simp only [Matrix.mul_apply, Fin.sum_univ_two, Matrix.add_apply]
  refine h.congr_deriv ?_
  ring

theorem const_mul (A : M22) (hF : HasDerivAtM F D x) :
    HasDerivAtM (fun t => A * F t) (A * D) x := by
  have h := (const A x).mul hF
  simpa using h

theorem mul_const (B : M22) (hF : HasDerivAtM F D x) :
    HasDerivAtM (fun t => F t * B) (D * B) x := by
  have h := hF.mul (const B x)
  simpa using h

theorem congr_deriv (hF : HasDerivAtM F D x) (h : D = E) : HasDerivAtM F E x := h ▸ hF

theorem congr_fun (hF : HasDerivAtM F D x) (h : ∀ t, G t = F t) : HasDerivAtM G D x := by
  have : G = F := funext h
  rw [this]; exact hF

/-- a complex-linear functional of the entries: here the `<+| · |+>` corner -/
theorem brG_x (hF : HasDerivAtM F D x) :
    HasDerivAt (fun t => brG .x (F t)) (brG .x D) x := by
  have h := ((((hF 0 0).add (hF 0 1)).add (hF 1 0)).add (hF 1 1)).const_mul (1 / 2 : ℂ)
  simp only [QSP.brG_x]
  exact h

theorem brG_z (hF : HasDerivAtM F D x) :
    HasDerivAt (fun t => brG .z (F t)) (brG .z D) x := by
  simp only [QSP.brG_z]
  exact hF 0 0

end HasDerivAtM

/-- real and imaginary part of a complex-valued function of a real variable -/
theorem hasDerivAt_im_real {f : ℝ → ℂ} {f' : ℂ} {x : ℝ} (h : HasDerivAt f f' x) :
    HasDerivAt (fun t => (f t).im) f'.im x :=
  (Complex.imCLM.hasFDerivAt.comp_hasDerivAt x h)

theorem hasDerivAt_re_real {f : ℝ → ℂ} {f' : ℂ} {x : ℝ} (h : HasDerivAt f f' x) :
    HasDerivAt (fun t => (f t).re) f'.re x :=
  (Complex.reCLM.hasFDerivAt.comp_hasDerivAt x h)

/-! ## 1. derivative of one factor -/

/-- chain-rule form: `d/dt R(u(t)) = u'(x) · R'(u(x))`, `R(φ) = cos φ·1 + sin φ·iX` -/
theorem hasDerivAtM_rotC_comp (u : ℝ → ℝ) (u' x : ℝ) (hu : HasDerivAt u u' x) :
    HasDerivAtM (fun t : ℝ => rotC ((Real.cos (u t) : ℝ) : ℂ) ((Real.sin (u t) : ℝ) : ℂ))
      ((u' : ℂ) • rotC (-((Real.sin (u x) : ℝ) : ℂ)) ((Real.cos (u x) : ℝ) : ℂ)) x := by
  have hc : HasDerivAt (fun t : ℝ => ((Real.cos (u t) : ℝ) : ℂ))
      ((u' : ℂ) * -((Real.sin (u x) : ℝ) : ℂ)) x := by
    refine (hu.cos.ofReal_comp).congr_deriv ?_
    push_cast; ring
  have hs : HasDerivAt (fun t : ℝ => I * ((Real.sin (u t) : ℝ) : ℂ))
      ((u' : ℂ) * (I * ((Real.cos (u x) : ℝ) : ℂ))) x := by
    refine ((hu.sin.ofReal_comp).const_mul I).congr_deriv ?_
    push_cast; ring
  intro i j
  fin_cases i <;> fin_cases j <;> first | exact hc | exact hs

/-- item 1: `d/dφ R(φ) = rotC (−sin φ) (cos φ)` -/
theorem hasDerivAtM_rotC (φ : ℝ) :
    HasDerivAtM (fun t : ℝ => rotC ((Real.cos t : ℝ) : ℂ) ((Real.sin t : ℝ) : ℂ))
      (rotC (-((Real.sin φ : ℝ) : ℂ)) ((Real.cos φ : ℝ) : ℂ)) φ := by
  have h := hasDerivAtM_rotC_comp (fun t => t) 1 φ (hasDerivAt_id φ)
  simpa using h

/-! ## 2. the product over arbitrary pairs -/

/-- the pair `(cos φ, sin φ)` in `ℂ` -/
noncomputable def prC (φ : ℝ) : ℂ × ℂ := (((Real.cos φ : ℝ) : ℂ), ((Real.sin φ : ℝ) : ℂ))

/-- its derivative `(−sin φ, cos φ)` -/
noncomputable def dprC (φ : ℝ) : ℂ × ℂ := (-((Real.sin φ : ℝ) : ℂ), ((Real.cos φ : ℝ) : ℂ))

/-- `R(e₀) · (W(θ) R(e₁)) ··· (W(θ) R(e_n))` with `R(c, s) = c·1 + s·iX` for ARBITRARY pairs:
    the same left fold as `Ucirc` and as the right-hand side of `fromAngles_eval` -/
noncomputable def UcircPairs (θ : ℝ) : List (ℂ × ℂ) → M22
  | [] => 1
  | e :: es => es.foldl (fun U e => U * (wC θ * rotC e.1 e.2)) (rotC e.1 e.2)

theorem Ucirc_eq_pairs (θ : ℝ) (φs : List ℝ) : Ucirc θ φs = UcircPairs θ (φs.map prC) := by
  cases φs with
  | nil => rfl
  | cons φ φs => simp only [Ucirc, UcircPairs, List.map_cons, List.foldl_map, prC]

/-- one step `W(θ) R(e)` -/
noncomputable def stepM (θ : ℝ) (e : ℂ × ℂ) : M22 := wC θ * rotC e.1 e.2

theorem wC_neg_mul (θ : ℝ) : wC (-θ) * wC θ = 1 := by
  apply Matrix.ext; intro i j
  fin_cases i <;> fin_cases j <;>
    simp [wC, Matrix.mul_apply, Fin.sum_univ_two, ← Complex.exp_add]

theorem foldl_step_eq (θ : ℝ) (es : List (ℂ × ℂ)) (X : M22) :
    es.foldl (fun U e => U * (wC θ * rotC e.1 e.2)) X = X * (es.map (stepM θ)).prod := by
  induction es generalizing X with
  | nil => simp
  | cons e es ih =>
    simp only [List.foldl_cons, List.map_cons, List.prod_cons, ih, stepM, Matrix.mul_assoc]

/-- on a non-empty list the product is a homogeneous product of steps, up to the leading
    (invertible) signal matrix -/
theorem UcircPairs_eq_prod (θ : ℝ) (l : List (ℂ × ℂ)) (hl : l ≠ []) :
    UcircPairs θ l = wC (-θ) * (l.map (stepM θ)).prod := by
  cases l with
  | nil => exact absurd rfl hl
  | cons e es =>
    simp only [UcircPairs, foldl_step_eq, List.map_cons, List.prod_cons, stepM]
    rw [← Matrix.mul_assoc, ← Matrix.mul_assoc, wC_neg_mul, Matrix.one_mul]

theorem prod_set_one (L : List M22) (p : ℕ) (hp : p < L.length) (a : M22) :
    (L.set p a).prod = (L.take p).prod * a * (L.drop (p + 1)).prod := by
  rw [List.prod_set, if_pos hp]

theorem prod_set_two (L : List M22) (p q : ℕ) (hpq : p < q) (hq : q < L.length) (a b : M22) :
    ((L.set p a).set q b).prod
      = ((L.take q).take p).prod * a * ((L.take q).drop (p + 1)).prod * b
          * (L.drop (q + 1)).prod := by
  rw [prod_set_one _ q (by simpa using hq), List.take_set, List.drop_set_of_lt (by omega),
    prod_set_one _ p (by simp; omega)]

theorem ne_nil_of_lt_length {α : Type} {l : List α} {p : ℕ} (hp : p < l.length) : l ≠ [] := by
  intro h; rw [h] at hp; simp at hp

/-- the product is (left factor)·R(x)·(right factor) in the pair at ONE position -/
theorem UcircPairs_set_one (θ : ℝ) (l : List (ℂ × ℂ)) (p : ℕ) (hp : p < l.length) :
    ∃ A B : M22, ∀ x : ℂ × ℂ, UcircPairs θ (l.set p x) = A * rotC x.1 x.2 * B := by
  refine ⟨wC (-θ) * ((l.map (stepM θ)).take p).prod * wC θ,
    ((l.map (stepM θ)).drop (p + 1)).prod, fun x => ?_⟩
  rw [UcircPairs_eq_prod θ _ (ne_nil_of_lt_length (by simpa using hp)), List.map_set,
    prod_set_one _ p (by simpa using hp)]
  simp only [stepM, Matrix.mul_assoc]

/-- … and in the pairs at TWO positions -/
theorem UcircPairs_set_two (θ : ℝ) (l : List (ℂ × ℂ)) (p q : ℕ) (hpq : p < q)
    (hq : q < l.length) :
    ∃ A B C : M22, ∀ x y : ℂ × ℂ,
      UcircPairs θ ((l.set p x).set q y) = A * rotC x.1 x.2 * B * rotC y.1 y.2 * C := by
  refine ⟨wC (-θ) * (((l.map (stepM θ)).take q).take p).prod * wC θ,
    (((l.map (stepM θ)).take q).drop (p + 1)).prod * wC θ,
    ((l.map (stepM θ)).drop (q + 1)).prod, fun x y => ?_⟩
  rw [UcircPairs_eq_prod θ _ (ne_nil_of_lt_length (by simpa using hq)), List.map_set,
    List.map_set, prod_set_two _ p q hpq (by simpa using hq)]
  simp only [stepM, Matrix.mul_assoc]

/-- homogeneity in the pair at one position -/
theorem UcircPairs_set_smul (θ : ℝ) (l : List (ℂ × ℂ)) (p : ℕ) (hp : p < l.length) (k : ℂ)
    (x : ℂ × ℂ) :
    UcircPairs θ (l.set p (k * x.1, k * x.2)) = k • UcircPairs θ (l.set p x) := by
  obtain ⟨A, B, h⟩ := UcircPairs_set_one θ l p hp
  have e : rotC (k * x.1) (k * x.2) = k • rotC x.1 x.2 := by
    apply Matrix.ext; intro i j
    fin_cases i <;> fin_cases j <;> simp [rotC] <;> ring
  rw [h, h]
  simp only [e, Matrix.mul_smul, Matrix.smul_mul]

/-! ## 3. product rule along the list -/

/-- ONE position, with an inner function `u` (chain rule) -/
theorem hasDerivAtM_pairs_one (θ : ℝ) (l : List (ℂ × ℂ)) (p : ℕ) (hp : p < l.length)
    (u : ℝ → ℝ) (u' x : ℝ) (hu : HasDerivAt u u' x) :
    HasDerivAtM (fun t => UcircPairs θ (l.set p (prC (u t))))
      ((u' : ℂ) • UcircPairs θ (l.set p (dprC (u x)))) x := by
  obtain ⟨A, B, h⟩ := UcircPairs_set_one θ l p hp
  simp only [h]
  refine (((hasDerivAtM_rotC_comp u u' x hu).const_mul A).mul_const B).congr_deriv ?_
  simp only [dprC, Matrix.mul_smul, Matrix.smul_mul]

/-- TWO positions moved by the same variable: the sum of the two one-position derivatives -/
theorem hasDerivAtM_pairs_two (θ : ℝ) (l : List (ℂ × ℂ)) (p q : ℕ) (hpq : p < q)
    (hq : q < l.length) (x : ℝ) :
    HasDerivAtM (fun t => UcircPairs θ ((l.set p (prC t)).set q (prC t)))
      (UcircPairs θ ((l.set p (dprC x)).set q (prC x))
        + UcircPairs θ ((l.set p (prC x)).set q (dprC x))) x := by
  obtain ⟨A, B, C, h⟩ := UcircPairs_set_two θ l p q hpq hq
  simp only [h]
  have hR := hasDerivAtM_rotC x
  have h1 := ((hR.const_mul A).mul_const B)
  have h2 := hR.mul_const C
  refine ((h1.mul h2).congr_fun ?_).congr_deriv ?_
  · intro t; simp only [prC, Matrix.mul_assoc]
  · simp only [prC, dprC, Matrix.mul_assoc]

/-- the product with the factor at position `p` replaced by its derivative
    `rotC (−sin φ_p) (cos φ_p)` -/
noncomputable def UcircD (θ : ℝ) (φs : List ℝ) (p : ℕ) : M22 :=
  UcircPairs θ ((φs.map prC).set p (dprC (φs.getD p 0)))

theorem Ucirc_set_eq (θ : ℝ) (φs : List ℝ) (p : ℕ) (t : ℝ) :
    Ucirc θ (φs.set p t) = UcircPairs θ ((φs.map prC).set p (prC t)) := by
  rw [Ucirc_eq_pairs, List.map_set]

/-- item 2: the partial derivative of the product with respect to the phase at ONE position of
    the list is the product with that factor replaced by its derivative -/
theorem hasDerivAtM_Ucirc_set (θ : ℝ) (φs : List ℝ) (p : ℕ) (hp : p < φs.length) :
    HasDerivAtM (fun t => Ucirc θ (φs.set p t)) (UcircD θ φs p) (φs.getD p 0) := by
  have h := hasDerivAtM_pairs_one θ (φs.map prC) p (by simpa using hp) (fun t => t) 1
    (φs.getD p 0) (hasDerivAt_id _)
  simp only [Ucirc_set_eq, UcircD]
  simpa using h

/-! ## 4. the palindromic layout: where a reduced phase enters -/

theorem reverse_set {α : Type} (l : List α) (i : ℕ) (hi : i < l.length) (a : α) :
    (l.set i a).reverse = l.reverse.set (l.length - 1 - i) a := by
  apply List.ext_getElem
  · simp
  · intro n h1 h2
    simp only [List.length_reverse, List.length_set] at h1
    simp only [List.getElem_reverse, List.getElem_set, List.length_set]
    by_cases h : i = l.length - 1 - n
    · rw [if_pos h, if_pos (by omega)]
    · rw [if_neg h, if_neg (by omega)]

theorem set_getD_self {α : Type} (l : List α) (q : ℕ) (d : α) (hq : q < l.length) :
    l.set q (l.getD q d) = l := by
  rw [List.getD_eq_getElem _ _ hq, List.set_getElem_self]

section layout
variable {R : Type} [One R] [Add R] [Mul R]

/-- parity 1: reduced phase `j` sits at the two mirror positions `d-1-j` and `d+j` -/
theorem layout_odd_set (r : List R) (j : ℕ) (hj : j < r.length) (t : R) :
    layout 1 (r.set j t)
      = ((layout 1 r).set (r.length - 1 - j) t).set (r.length + j) t := by
  simp only [layout, if_true]
  rw [reverse_set _ _ hj, List.set_append_left _ _ (by simp; omega),
    List.set_append_right _ _ (by simp)]
  simp

/-- other parities, reduced phase 0: the doubled centre -/
theorem layout_even_set_zero (parity : ℤ) (h : parity ≠ 1) (x : R) (rest : List R) (t : R) :
    layout parity ((x :: rest).set 0 t)
      = (layout parity (x :: rest)).set rest.length (two * t) := by
  simp only [layout, if_neg h, List.set_cons_zero]
  rw [List.set_append_left _ _ (by simp), List.set_append_right _ _ (by simp)]
  simp

/-- other parities, reduced phase `j+1`: mirror positions around the centre -/
theorem layout_even_set_succ (parity : ℤ) (h : parity ≠ 1) (x : R) (rest : List R) (j : ℕ)
    (hj : j < rest.length) (t : R) :
    layout parity ((x :: rest).set (j + 1) t)
      = ((layout parity (x :: rest)).set (rest.length - 1 - j) t).set (rest.length + 1 + j) t := by
  simp only [layout, if_neg h, List.set_cons_succ]
  rw [reverse_set _ _ hj, List.append_assoc, List.append_assoc,
    List.set_append_left _ _ (by simp; omega),
    List.set_append_right _ _ (by simp; omega)]
  simp only [List.length_set, List.length_reverse]
  have : rest.length + 1 + j - rest.length = j + 1 := by omega
  rw [this]
  simp

end layout

/-! ## 5. chain rule for a reduced phase -/

theorem pairs_set_self (φs : List ℝ) (q : ℕ) (hq : q < φs.length) :
    (φs.map prC).set q (prC (φs.getD q 0)) = φs.map prC := by
  rw [← List.map_set, set_getD_self _ _ _ hq]

/-- the same variable entering at two positions (both currently holding the value `x`) -/
theorem hasDerivAtM_Ucirc_set_two (θ : ℝ) (φs : List ℝ) (p q : ℕ) (hpq : p < q)
    (hq : q < φs.length) (x : ℝ) (hp' : φs.getD p 0 = x) (hq' : φs.getD q 0 = x) :
    HasDerivAtM (fun t => Ucirc θ ((φs.set p t).set q t))
      (UcircD θ φs p + UcircD θ φs q) x := by
  have h := hasDerivAtM_pairs_two θ (φs.map prC) p q hpq (by simpa using hq) x
  have ep : (φs.map prC).set p (prC x) = φs.map prC := by
    rw [← hp']; exact pairs_set_self φs p (by omega)
  have eq : (φs.map prC).set q (prC x) = φs.map prC := by
    rw [← hq']; exact pairs_set_self φs q hq
  refine (h.congr_fun ?_).congr_deriv ?_
  · intro t; rw [Ucirc_eq_pairs, List.map_set, List.map_set]
  · unfold UcircD
    rw [hp', hq', List.set_comm _ _ (by omega : p ≠ q), eq, ep]

/-- a variable entering doubled at one position (currently holding `2x`) -/
theorem hasDerivAtM_Ucirc_set_double (θ : ℝ) (φs : List ℝ) (p : ℕ) (hp : p < φs.length) (x : ℝ)
    (hx : φs.getD p 0 = two * x) :
    HasDerivAtM (fun t => Ucirc θ (φs.set p (two * t))) ((2 : ℂ) • UcircD θ φs p) x := by
  have hu : HasDerivAt (fun t : ℝ => (two : ℝ) * t) 2 x := by
    refine ((hasDerivAt_id x).const_mul (two : ℝ)).congr_deriv ?_
    simp [two]; norm_num
  have h := hasDerivAtM_pairs_one θ (φs.map prC) p (by simpa using hp) _ 2 x hu
  refine (h.congr_fun ?_).congr_deriv ?_
  · intro t; rw [Ucirc_eq_pairs, List.map_set]
  · unfold UcircD
    rw [hx]; norm_num

/-- the matrix whose `<+|·|+>` corner the Jacobian routine evaluates: the sum, over the
    positions `positions par d j` of reduced phase `j` in the full list, of the chain factor
    times the product with the factor at that position replaced by its derivative -/
noncomputable def jacD (θ : ℝ) (par : ℕ) (red : List ℝ) (j : ℕ) : M22 :=
  ((positions par red.length j).map (fun pk : ℕ × ℚ =>
      (((pk.2 : ℚ) : ℝ) : ℂ) • UcircD θ (layout (par : ℤ) red) pk.1)).sum

/-- item 3: the partial derivative of the full product with respect to reduced phase `j` -/
theorem hasDerivAtM_layout (θ : ℝ) (par : ℕ) (red : List ℝ) (j : ℕ) (hj : j < red.length) :
    HasDerivAtM (fun t => Ucirc θ (layout (par : ℤ) (red.set j t))) (jacD θ par red j)
      (red.getD j 0) := by
  by_cases hpar : par = 1
  · subst hpar
    have hlen := layout_length_odd red
    obtain ⟨g1, g2⟩ := layout_odd_getD red j hj
    have h := hasDerivAtM_Ucirc_set_two θ (layout 1 red) (red.length - 1 - j) (red.length + j)
      (by omega) (by omega) (red.getD j 0) g2 g1
    refine (h.congr_fun ?_).congr_deriv ?_
    · intro t
      rw [Nat.cast_one, layout_odd_set red j hj]
    · simp [jacD, positions]
  · have hparZ : (par : ℤ) ≠ 1 := by exact_mod_cast hpar
    cases red with
    | nil => simp at hj
    | cons x0 rest =>
      have hlen := layout_length_even (par : ℤ) hparZ (x0 :: rest) (by simp)
      simp only [List.length_cons] at hlen hj
      cases j with
      | zero =>
        have h := hasDerivAtM_Ucirc_set_double θ (layout (par : ℤ) (x0 :: rest)) rest.length
          (by omega) x0 (layout_centre (par : ℤ) hparZ x0 rest)
        refine (h.congr_fun ?_).congr_deriv ?_
        · intro t
          rw [layout_even_set_zero (par : ℤ) hparZ]
        · simp [jacD, positions, hpar]
      | succ j =>
        have hj' : j < rest.length := by omega
        obtain ⟨g1, g2⟩ := layout_even_getD (par : ℤ) hparZ x0 rest j hj'
        have h := hasDerivAtM_Ucirc_set_two θ (layout (par : ℤ) (x0 :: rest))
          (rest.length - 1 - j) (rest.length + 1 + j) (by omega) (by omega) (rest.getD j 0) g2 g1
        refine (h.congr_fun ?_).congr_deriv ?_
        · intro t
          rw [layout_even_set_succ (par : ℤ) hparZ x0 rest j hj']
        · have e1 : rest.length - (j + 1) = rest.length - 1 - j := by omega
          have e2 : rest.length + (j + 1) = rest.length + 1 + j := by omega
          simp [jacD, positions, hpar]
          rw [e1, e2]

/-! ## 6. the entrywise derivative IS Mathlib's derivative of the matrix-valued function

`HasDerivAt` only needs the topological vector space structure of the target; `M22` carries the
product topology (`instTopologicalSpaceMatrix`), which is the topology of every norm on it. -/

theorem hasDerivAtM_iff (F : ℝ → M22) (D : M22) (x : ℝ) :
    HasDerivAtM F D x ↔ HasDerivAt F D x := by
  unfold HasDerivAtM
  have h1 := hasDerivAt_pi (𝕜 := ℝ) (φ := (F : ℝ → Fin 2 → Fin 2 → ℂ))
    (φ' := (D : Fin 2 → Fin 2 → ℂ)) (x := x)
  simp only [hasDerivAt_pi] at h1
  exact h1.symm

/-- item 1, matrix-valued -/
theorem hasDerivAt_rotC (φ : ℝ) :
    HasDerivAt (fun t : ℝ => rotC ((Real.cos t : ℝ) : ℂ) ((Real.sin t : ℝ) : ℂ))
      (rotC (-((Real.sin φ : ℝ) : ℂ)) ((Real.cos φ : ℝ) : ℂ)) φ :=
  (hasDerivAtM_iff _ _ _).mp (hasDerivAtM_rotC φ)

/-- item 2, matrix-valued -/
theorem hasDerivAt_Ucirc_set (θ : ℝ) (φs : List ℝ) (p : ℕ) (hp : p < φs.length) :
    HasDerivAt (fun t => Ucirc θ (φs.set p t)) (UcircD θ φs p) (φs.getD p 0) :=
  (hasDerivAtM_iff _ _ _).mp (hasDerivAtM_Ucirc_set θ φs p hp)

/-- item 3, matrix-valued -/
theorem hasDerivAt_layout (θ : ℝ) (par : ℕ) (red : List ℝ) (j : ℕ) (hj : j < red.length) :
    HasDerivAt (fun t => Ucirc θ (layout (par : ℤ) (red.set j t))) (jacD θ par red j)
      (red.getD j 0) :=
  (hasDerivAtM_iff _ _ _).mp (hasDerivAtM_layout θ par red j hj)

/-! ## 7. the quantity the Jacobian routine differentiates: `Im <0|U_x(a)|0>` -/

/-- one position of an arbitrary phase list: `∂/∂φ_p <0|U_x(cos θ)|0>` -/
theorem hasDerivAt_resp_set (θ : ℝ) (hθ : 0 ≤ Real.sin θ) (φs : List ℝ) (p : ℕ)
    (hp : p < φs.length) :
    HasDerivAt (fun t => respDef .Wx .z (φs.set p t) (Real.cos θ))
      (brG .x (UcircD θ φs p)) (φs.getD p 0) := by
  have h := (hasDerivAtM_Ucirc_set θ φs p hp).brG_x
  simpa only [Ucirc_corner_eq_Wx_z θ hθ] using h

/-- the complex response of the symmetric protocol against reduced phase `j` -/
theorem hasDerivAt_resp_layout (θ : ℝ) (hθ : 0 ≤ Real.sin θ) (par : ℕ) (red : List ℝ) (j : ℕ)
    (hj : j < red.length) :
    HasDerivAt (fun t => respDef .Wx .z (layout (par : ℤ) (red.set j t)) (Real.cos θ))
      (brG .x (jacD θ par red j)) (red.getD j 0) := by
  have h := (hasDerivAtM_layout θ par red j hj).brG_x
  simpa only [Ucirc_corner_eq_Wx_z θ hθ] using h

/-- item 4: `∂/∂(red_j) Im <0|U_x(cos θ)|0> = Im <+| Σ k · UcircD |+>` -/
theorem hasDerivAt_resp_layout_im (θ : ℝ) (hθ : 0 ≤ Real.sin θ) (par : ℕ) (red : List ℝ) (j : ℕ)
    (hj : j < red.length) :
    HasDerivAt (fun t => (respDef .Wx .z (layout (par : ℤ) (red.set j t)) (Real.cos θ)).im)
      ((brG .x (jacD θ par red j)).im) (red.getD j 0) :=
  hasDerivAt_im_real (hasDerivAt_resp_layout θ hθ par red j hj)

/-- … for every signal value `a ∈ [-1, 1]` (`θ = arccos a`) -/
theorem hasDerivAt_resp_layout_im_of_mem_Icc (a : ℝ) (ha : a ∈ Set.Icc (-1 : ℝ) 1) (par : ℕ)
    (red : List ℝ) (j : ℕ) (hj : j < red.length) :
    HasDerivAt (fun t => (respDef .Wx .z (layout (par : ℤ) (red.set j t)) a).im)
      ((brG .x (jacD (Real.arccos a) par red j)).im) (red.getD j 0) := by
  have hθ : 0 ≤ Real.sin (Real.arccos a) :=
    Real.sin_nonneg_of_nonneg_of_le_pi (Real.arccos_nonneg a) (Real.arccos_le_pi a)
  have h := hasDerivAt_resp_layout_im (Real.arccos a) hθ par red j hj
  rwa [Real.cos_arccos ha.1 ha.2] at h

/-! ## 8. link to the executable specification `jacSpec` -/

/-- a rational pair as a complex pair -/
noncomputable def castP (c : ℚ × ℚ) : ℂ × ℂ := (((c.1 : ℝ) : ℂ), ((c.2 : ℝ) : ℂ))

/-- `fromAngles_eval` in terms of `UcircPairs`: the exactly computed element, at every point of
    the circle, is the product over the given rational pairs (unit or not) -/
theorem fromAngles_eval_pairs (ps : List (ℚ × ℚ)) (g : LA ℚ) (h : LA.fromAngles ps = .ok g)
    (θ : ℝ) : evMat g θ = UcircPairs θ (ps.map castP) := by
  cases ps with
  | nil => rw [fromAngles_nil] at h; cases h
  | cons c cs =>
    rw [fromAngles_eval c cs g h θ]
    simp only [List.map_cons, UcircPairs, List.foldl_map, castP]

/-- the element `jacSpec` computes for one position: the pair at `pos` replaced by
    `derivPair (c, s) k = (−k s, k c)`.  At every point of the circle it is `k` times the product
    with the factor at `pos` replaced by `rotC (−s) c` -/
theorem fromAngles_derivPair_eval (ps : List (ℚ × ℚ)) (pos : ℕ) (hpos : pos < ps.length) (k : ℚ)
    (g : LA ℚ)
    (h : LA.fromAngles (ps.set pos (derivPair (ps.getD pos (1, 0)) k)) = .ok g) (θ : ℝ) :
    evMat g θ = (((k : ℚ) : ℝ) : ℂ) •
      UcircPairs θ ((ps.map castP).set pos
        (-(((ps.getD pos (1, 0)).2 : ℝ) : ℂ), (((ps.getD pos (1, 0)).1 : ℝ) : ℂ))) := by
  rw [fromAngles_eval_pairs _ g h θ, List.map_set,
    ← UcircPairs_set_smul θ _ pos (by simpa using hpos)]
  congr 2
  simp only [castP, derivPair]
  push_cast
  ext <;> simp

/-- if the pairs ARE the cosines and sines of the phases `φs`, this is `k · UcircD` — the term
    of `jacD` for that position -/
theorem fromAngles_derivPair_exact (ps : List (ℚ × ℚ)) (φs : List ℝ)
    (hex : ps.map castP = φs.map prC) (pos : ℕ) (hpos : pos < ps.length) (k : ℚ) (g : LA ℚ)
    (h : LA.fromAngles (ps.set pos (derivPair (ps.getD pos (1, 0)) k)) = .ok g) (θ : ℝ) :
    evMat g θ = (((k : ℚ) : ℝ) : ℂ) • UcircD θ φs pos := by
  rw [fromAngles_derivPair_eval ps pos hpos k g h θ, UcircD, hex]
  have hlen : ps.length = φs.length := by
    have := congrArg List.length hex
    simpa using this
  have e : castP (ps.getD pos (1, 0)) = prC (φs.getD pos 0) := by
    have h1 : (ps.map castP).getD pos (castP (1, 0)) = castP (ps.getD pos (1, 0)) :=
      List.getD_map ps (1, 0) castP
    have h2 : (φs.map prC).getD pos (prC 0) = prC (φs.getD pos 0) := List.getD_map φs 0 prC
    rw [← h1, ← h2, hex, List.getD_eq_getElem _ _ (by simpa using hlen ▸ hpos),
      List.getD_eq_getElem _ _ (by simpa using hlen ▸ hpos)]
  have e1 := congrArg Prod.fst e
  have e2 := congrArg Prod.snd e
  simp only [castP, prC] at e1 e2
  rw [e1, e2, dprC]

/-- `evQ p (−θ)` is the complex conjugate of `evQ p θ` (rational coefficients) -/
theorem evQ_neg_conj (p : LP ℚ) (θ : ℝ) : evQ p (-θ) = (starRingEnd ℂ) (evQ p θ) := by
  rw [evQ_eq_evalC, evQ_eq_evalC, evalC_neg_eq_conj]

/-- the polynomial `imCheb` reads its coefficients from: `symHalf g.X` is real on the circle
    and IS the imaginary part of the `<+| · |+>` corner of the evaluated element -/
theorem symHalf_X_eq_corner_im (g : LA ℚ) (hg : g.WF) (sb : LP ℚ) (h : symHalf g.X = .ok sb)
    (θ : ℝ) : evQ sb θ = (((brG .x (evMat g θ)).im : ℝ) : ℂ) := by
  rw [(symHalf_spec g.X sb hg.2 h θ).1, QSP.brG_x, evMat_00, evMat_01, evMat_10, evMat_11,
    evQ_neg_conj g.X θ, evQ_neg_conj g.I θ]
  apply Complex.ext
  · simp
    ring
  · simp

/-- the entries `imCheb` returns: `c_m = (1 if m = 0 else 2) · [w^m] symHalf(g.X)`,
    `m = 2k + par` — the Chebyshev (cosine) coefficients of that symmetric polynomial -/
theorem imCheb_getD (par d : ℕ) (g : LA ℚ) (f : List ℚ) (h : imCheb par d g = .ok f) :
    ∃ sb, symHalf g.X = .ok sb ∧ f.length = d ∧ ∀ k < d,
      f.getD k 0 = (if (2 * (k : ℤ) + (par : ℤ)) = 0 then (1 : ℚ) else 2)
        * (den sb).coeff (2 * (k : ℤ) + (par : ℤ)) := by
  unfold imCheb at h
  obtain ⟨sb, hsb, h⟩ := bind_ok h
  injection h with h
  subst h
  refine ⟨sb, hsb, by simp, fun k hk => ?_⟩
  rw [List.getD_eq_getElem _ _ (by simpa using hk)]
  simp [getItem_eq]

/-! ## 9. `imCheb` returns the Chebyshev coefficients of `Im <+| · |+>`

The element computed by `LA.fromAngles` from `n+1` pairs is stored on the `n+1` powers
`w^{-n}, w^{-n+2}, …, w^{n}`; hence so is `symHalf g.X`, which is moreover symmetric.  Its
coefficients at the powers `2k + par` (doubled for a non-zero power) are therefore ALL the cosine
coefficients of `θ ↦ Im <+| evMat g θ |+>`. -/

section window
open LaurentPolynomial

/-- `f` is stored on the `n+1` powers `-n, -n+2, …, n` -/
def Win (n : ℕ) (f : ℚ[T;T⁻¹]) : Prop :=
  ∃ l : List ℚ, l.length = n + 1 ∧ f = denL l (-(n : ℤ))

theorem Win.mul_T {n : ℕ} {f : ℚ[T;T⁻¹]} (h : Win n f) : Win (n + 1) (f * T 1) := by
  obtain ⟨l, hl, rfl⟩ := h
  refine ⟨0 :: l, by simp [hl], ?_⟩
  rw [denL_cons, map_zero, zero_mul, zero_add,
    show (-((n + 1 : ℕ) : ℤ) + 2) = -(n : ℤ) + 1 by push_cast; ring, denL_shift, mul_comm]

theorem Win.mul_T_neg {n : ℕ} {f : ℚ[T;T⁻¹]} (h : Win n f) : Win (n + 1) (f * T (-1)) := by
  obtain ⟨l, hl, rfl⟩ := h
  refine ⟨l ++ [0], by simp [hl], ?_⟩
  rw [denL_append, denL_cons, map_zero, zero_mul, zero_add, denL_nil, add_zero,
    show (-((n + 1 : ℕ) : ℤ)) = -(n : ℤ) + (-1) by push_cast; ring, denL_shift, mul_comm]

theorem Win.C_mul {n : ℕ} {f : ℚ[T;T⁻¹]} (c : ℚ) (h : Win n f) : Win n (C c * f) := by
  obtain ⟨l, hl, rfl⟩ := h
  exact ⟨l.map (c * ·), by simp [hl], (denL_map_mul c l _).symm⟩

theorem Win.add {n : ℕ} {f g : ℚ[T;T⁻¹]} (hf : Win n f) (hg : Win n g) : Win n (f + g) := by
  obtain ⟨l, hl, rfl⟩ := hf
  obtain ⟨l', hl', rfl⟩ := hg
  exact ⟨addL l l', by rw [length_addL, hl, hl', max_self], (denL_addL l l' _).symm⟩

theorem Win.sub {n : ℕ} {f g : ℚ[T;T⁻¹]} (hf : Win n f) (hg : Win n g) : Win n (f - g) := by
  have h := hf.add (hg.C_mul (-1))
  have e : f + C (-1 : ℚ) * g = f - g := by
    rw [map_neg, map_one]; ring
  rwa [e] at h

theorem Win.invert {n : ℕ} {f : ℚ[T;T⁻¹]} (h : Win n f) : Win n (invert f) := by
  obtain ⟨l, hl, rfl⟩ := h
  refine ⟨l.reverse, by simp [hl], ?_⟩
  rw [← denL_reverse, hl]
  congr 1
  push_cast; ring

theorem Win.const (c : ℚ) : Win 0 (C c) :=
  ⟨[c], rfl, by simp⟩

/-- support of a windowed polynomial -/
theorem Win.coeff_ne_zero {n : ℕ} {f : ℚ[T;T⁻¹]} (h : Win n f) {m : ℤ} (hm : f.coeff m ≠ 0) :
    (m + n) % 2 = 0 ∧ -(n : ℤ) ≤ m ∧ m ≤ n := by
  obtain ⟨l, hl, rfl⟩ := h
  have := denL_coeff_ne_zero hm
  rw [hl] at this
  push_cast at this
  omega

theorem fromAnglesAux_Win (cs : List (ℚ × ℚ)) (acc g : LA ℚ) (hacc : acc.NZ) (n : ℕ)
    (hI : Win n (den acc.I)) (hX : Win n (den acc.X))
    (h : LA.fromAnglesAux acc cs = .ok g) :
    Win (n + cs.length) (den g.I) ∧ Win (n + cs.length) (den g.X) := by
  induction cs generalizing acc n with
  | nil => cases h; exact ⟨hI, hX⟩
  | cons c cs ih =>
    unfold LA.fromAnglesAux at h
    obtain ⟨a, ha, h⟩ := bind_ok h
    obtain ⟨b, hb, h⟩ := bind_ok h
    obtain ⟨a', ha', aNZ⟩ := LA.mulR_NZ hacc (NZ_w (R := ℚ))
    rw [ha] at ha'; cases ha'
    obtain ⟨b', hb', bNZ⟩ := LA.mul_NZ aNZ (NZ_rotation c)
    rw [hb] at hb'; cases hb'
    obtain ⟨aI, aX, -⟩ := LA.mulR_ok hacc.wf WF_w ha
    obtain ⟨bI, bX, -⟩ := LA.mul_ok aNZ.wf (WF_rotation c) hb
    have rI : den (LA.rotation c).I = C c.1 := den_const c.1
    have rX : den (LA.rotation c).X = C c.2 := den_const c.2
    rw [den_w] at aI
    rw [den_w, invert_T] at aX
    rw [aI, aX, rI, rX, invert_C] at bI bX
    have wI := hI.mul_T
    have wX := hX.mul_T_neg
    have e1 : den acc.I * T 1 * C c.1 - den acc.X * T (-1) * C c.2
        = C c.1 * (den acc.I * T 1) - C c.2 * (den acc.X * T (-1)) := by ring
    have e2 : den acc.I * T 1 * C c.2 + den acc.X * T (-1) * C c.1
        = C c.2 * (den acc.I * T 1) + C c.1 * (den acc.X * T (-1)) := by ring
    have := ih b bNZ (n + 1) (by rw [bI, e1]; exact (wI.C_mul _).sub (wX.C_mul _))
      (by rw [bX, e2]; exact (wI.C_mul _).add (wX.C_mul _)) h
    rw [List.length_cons, show n + (cs.length + 1) = n + 1 + cs.length by omega]
    exact this

/-- the element computed from `n+1` pairs is stored on the powers `-n, …, n` -/
theorem fromAngles_Win (ps : List (ℚ × ℚ)) (g : LA ℚ) (h : LA.fromAngles ps = .ok g) :
    Win (ps.length - 1) (den g.I) ∧ Win (ps.length - 1) (den g.X) := by
  cases ps with
  | nil => rw [fromAngles_nil] at h; cases h
  | cons c cs =>
    have := fromAnglesAux_Win cs (LA.rotation c) g (NZ_rotation c) 0
      (by rw [show den (LA.rotation c).I = C c.1 from den_const c.1]; exact Win.const _)
      (by rw [show den (LA.rotation c).X = C c.2 from den_const c.2]; exact Win.const _) h
    simpa using this

/-- `symHalf p` at the level of Laurent polynomials -/
theorem den_symHalf (p s : LP ℚ) (hp : p.WF) (h : symHalf p = .ok s) :
    den s = C (1 / 2 : ℚ) * (den p + invert (den p)) := by
  unfold symHalf at h
  obtain ⟨a, ha, h⟩ := bind_ok h
  cases h
  have hi := den_inv p hp
  obtain ⟨a1, a2⟩ := add_ok hp hi.2 ha
  rw [(den_smul _ a a2).1, a1, hi.1]

/-- a symmetric polynomial stored on the powers `-(2(d-1)+par), …, 2(d-1)+par` IS the Laurent
    form `chebToLP par f` of the list `f` of its (doubled) coefficients at `2k + par` -/
theorem den_chebToLP_of_coeffs (par d : ℕ) (hpar : par ≤ 1) (hd : 0 < d) (S : ℚ[T;T⁻¹])
    (hW : Win (2 * (d - 1) + par) S) (hsym : invert S = S) (f : List ℚ) (hlen : f.length = d)
    (hf : ∀ k < d, f.getD k 0 = (if (2 * (k : ℤ) + (par : ℤ)) = 0 then (1 : ℚ) else 2)
      * S.coeff (2 * (k : ℤ) + (par : ℤ))) :
    den (chebToLP par f) = S := by
  have hp2 : par % 2 = par := Nat.mod_eq_of_lt (by omega)
  have hsym' : ∀ m, S.coeff (-m) = S.coeff m := fun m => by rw [← invert_apply, hsym]
  have hz : ∀ m : ℤ, ¬((m + ((2 * (d - 1) + par : ℕ) : ℤ)) % 2 = 0 ∧
      -((2 * (d - 1) + par : ℕ) : ℤ) ≤ m ∧ m ≤ ((2 * (d - 1) + par : ℕ) : ℤ)) →
      S.coeff m = 0 := by
    intro m hm; by_contra hne; exact hm (hW.coeff_ne_zero hne)
  have hh : ∀ i : ℕ, i < d → (f.map (· / 2)).getD i 0
      = S.coeff (2 * (i : ℤ) + par) * (if 2 * (i : ℤ) + par = 0 then 1 / 2 else 1) := by
    intro i hi
    rw [List.getD_eq_getElem _ _ (by simpa [hlen] using hi), List.getElem_map,
      ← List.getD_eq_getElem _ (0 : ℚ) (by simpa [hlen] using hi), hf i hi]
    split_ifs <;> ring
  have key : ∀ k : ℤ, ((k - (par : ℤ)) % 2 = 0 ∧ 0 ≤ (k - (par : ℤ)) / 2 ∧
      (k - (par : ℤ)) / 2 < (d : ℤ)) →
      (f.map (· / 2)).getD ((k - (par : ℤ)) / 2).toNat 0
        = S.coeff k * (if k = 0 then 1 / 2 else 1) := by
    intro k ⟨a, b, c⟩
    have hi : ((k - (par : ℤ)) / 2).toNat < d := by omega
    have e : 2 * (((k - (par : ℤ)) / 2).toNat : ℤ) + par = k := by omega
    rw [hh _ hi, e]
  rw [den_chebToLP, hp2]
  apply LaurentPolynomial.ext
  intro m
  rw [AddMonoidAlgebra.coeff_add, Finsupp.add_apply, invert_apply, denL_coeff, denL_coeff]
  simp only [List.length_map, hlen]
  split_ifs with h1 h2 h2
  · have hm : m = 0 := by omega
    rw [key _ h1, key _ h2, hm]
    simp only [neg_zero, if_true]
    ring
  · have hm : -m ≠ 0 := by omega
    rw [key _ h1, if_neg hm, hsym']
    ring
  · have hm : m ≠ 0 := by omega
    rw [key _ h2, if_neg hm]
    ring
  · rw [hz m (by omega)]
    ring

/-- SPEC of `imCheb` on an element computed by `LA.fromAngles` from `2d - 1 + par` pairs
    (`par ∈ {0, 1}`): the returned list has `d` entries and they are ALL the cosine (Chebyshev)
    coefficients of `θ ↦ Im <+| R(e₀) W(θ) R(e₁) ⋯ |+>`:
    `Im <+|U(θ)|+> = Σ_{k<d} f_k cos((2k+par) θ) = Σ_{k<d} f_k T_{2k+par}(cos θ)` -/
theorem imCheb_spec (par d : ℕ) (hpar : par ≤ 1) (ps : List (ℚ × ℚ))
    (hlen : ps.length + 1 = 2 * d + par) (g : LA ℚ) (hg : LA.fromAngles ps = .ok g)
    (f : List ℚ) (hf : imCheb par d g = .ok f) (θ : ℝ) :
    f.length = d ∧
    (brG .x (UcircPairs θ (ps.map castP))).im
      = ∑ k ∈ Finset.range d, ((f.getD k 0 : ℚ) : ℝ) * Real.cos (((2 * k + par : ℕ) : ℝ) * θ) := by
  obtain ⟨sb, hsb, hl, hcoef⟩ := imCheb_getD par d g f hf
  have gWF : g.WF := by
    cases ps with
    | nil => rw [fromAngles_nil] at hg; cases hg
    | cons c cs => exact (fromAngles_NZ c cs g hg).wf
  have hps : ps ≠ [] := by
    intro h0; rw [h0, fromAngles_nil] at hg; cases hg
  have hpos : 0 < ps.length := List.length_pos_iff.mpr hps
  have hd : 0 < d := by omega
  have hWX := (fromAngles_Win ps g hg).2
  have hden := den_symHalf g.X sb gWF.2 hsb
  have hn : ps.length - 1 = 2 * (d - 1) + par := by omega
  have hWsb : Win (2 * (d - 1) + par) (den sb) := by
    rw [hden, ← hn]; exact (hWX.add hWX.invert).C_mul _
  have hsym : LaurentPolynomial.invert (den sb) = den sb := by
    rw [hden, map_mul, map_add, LaurentPolynomial.invert_C, invert_invert, add_comm]
  have hD := den_chebToLP_of_coeffs par d hpar hd (den sb) hWsb hsym f hl hcoef
  have e : evQ sb θ = evQ (chebToLP par f) θ := by rw [evQ_eq, evQ_eq, hD]
  rw [(chebToLP_spec par f θ).1, symHalf_X_eq_corner_im g gWF sb hsb θ,
    fromAngles_eval_pairs ps g hg θ, Nat.mod_eq_of_lt (by omega : par < 2), hl] at e
  exact ⟨hl, Complex.ofReal_injective e⟩

/-- … in Chebyshev form -/
theorem imCheb_spec_T (par d : ℕ) (hpar : par ≤ 1) (ps : List (ℚ × ℚ))
    (hlen : ps.length + 1 = 2 * d + par) (g : LA ℚ) (hg : LA.fromAngles ps = .ok g)
    (f : List ℚ) (hf : imCheb par d g = .ok f) (θ : ℝ) :
    (brG .x (UcircPairs θ (ps.map castP))).im
      = ∑ k ∈ Finset.range d, ((f.getD k 0 : ℚ) : ℝ) *
          (Polynomial.Chebyshev.T ℝ ((2 * k + par : ℕ) : ℤ)).eval (Real.cos θ) := by
  rw [(imCheb_spec par d hpar ps hlen g hg f hf θ).2]
  refine Finset.sum_congr rfl fun k _ => ?_
  rw [Polynomial.Chebyshev.T_real_cos]
  push_cast
  rfl

end window

/-! ## 10. the specification-level Jacobian `jacSpec` -/

/-- the generating cosine series of a coefficient list:
    `Σ_{k<d} c_k cos((2k+par) θ) = Σ_{k<d} c_k T_{2k+par}(cos θ)` -/
noncomputable def cosGen (par d : ℕ) (c : List ℚ) (θ : ℝ) : ℝ :=
  ∑ k ∈ Finset.range d, ((c.getD k 0 : ℚ) : ℝ) * Real.cos (((2 * k + par : ℕ) : ℝ) * θ)

/-- `jacD` over ARBITRARY pairs: the sum over the positions of reduced phase `j` of the chain
    factor times the product with the pair `(c, s)` at that position replaced by `(−s, c)` -/
noncomputable def jacDPairs (θ : ℝ) (par d : ℕ) (l : List (ℂ × ℂ)) (j : ℕ) : M22 :=
  ((positions par d j).map (fun pk : ℕ × ℚ => (((pk.2 : ℚ) : ℝ) : ℂ) •
      UcircPairs θ (l.set pk.1 (-(l.getD pk.1 (1, 0)).2, (l.getD pk.1 (1, 0)).1)))).sum

/-- the true derivative `jacD` is `jacDPairs` at the exact pairs `(cos φ, sin φ)` -/
theorem jacD_eq_jacDPairs (θ : ℝ) (par : ℕ) (red : List ℝ) (j : ℕ) :
    jacD θ par red j
      = jacDPairs θ par red.length ((layout (par : ℤ) red).map prC) j := by
  unfold jacD jacDPairs UcircD
  congr 2
  funext pk
  have h0 : prC 0 = ((1 : ℂ), (0 : ℂ)) := by simp [prC]
  have h1 := List.getD_map (layout (par : ℤ) red) 0 prC (n := pk.1)
  rw [h0] at h1
  rw [h1]
  rfl

theorem mapM_forall₂ {α β : Type} (f : α → Except Err β) (P : α → Prop) :
    ∀ (l : List α) (r : List β), (∀ a ∈ l, P a) → l.mapM f = .ok r →
      List.Forall₂ (fun a b => P a ∧ f a = .ok b) l r := by
  intro l
  induction l with
  | nil =>
    intro r _ h
    rw [List.mapM_nil] at h
    cases h
    exact List.Forall₂.nil
  | cons a l ih =>
    intro r hP h
    rw [List.mapM_cons] at h
    obtain ⟨b, hb, h⟩ := bind_ok h
    obtain ⟨bs, hbs, h⟩ := bind_ok h
    cases h
    exact List.Forall₂.cons ⟨hP a (by simp), hb⟩
      (ih bs (fun x hx => hP x (List.mem_cons_of_mem _ hx)) hbs)

theorem brG_x_add (A B : M22) : brG .x (A + B) = brG .x A + brG .x B := by
  rw [QSP.brG_x, QSP.brG_x, QSP.brG_x]
  simp only [Matrix.add_apply]
  ring

theorem brG_x_zero : brG .x (0 : M22) = 0 := by
  rw [QSP.brG_x]; simp

theorem cosGen_addLists (par d : ℕ) (a b : List ℚ) (ha : a.length = d) (hb : b.length = d)
    (θ : ℝ) :
    (addLists a b).length = d ∧
      cosGen par d (addLists a b) θ = cosGen par d a θ + cosGen par d b θ := by
  refine ⟨by simp [addLists, ha, hb], ?_⟩
  unfold cosGen
  rw [← Finset.sum_add_distrib]
  refine Finset.sum_congr rfl fun k hk => ?_
  have hk' : k < d := Finset.mem_range.mp hk
  have e : (addLists a b).getD k 0 = a.getD k 0 + b.getD k 0 := by
    rw [List.getD_eq_getElem _ _ (by simp [addLists, ha, hb, hk']),
      List.getD_eq_getElem _ _ (by omega), List.getD_eq_getElem _ _ (by omega)]
    simp [addLists]
  rw [e]
  push_cast
  ring

theorem cosGen_replicate_zero (par d : ℕ) (θ : ℝ) :
    cosGen par d (List.replicate d 0) θ = 0 := by
  unfold cosGen
  refine Finset.sum_eq_zero fun k hk => ?_
  have hk' : k < d := Finset.mem_range.mp hk
  rw [List.getD_eq_getElem _ _ (by simpa using hk')]
  simp

/-- folding `addLists` adds the generating series -/
theorem cosGen_foldl (par d : ℕ) (θ : ℝ) (pks : List (ℕ × ℚ)) (parts : List (List ℚ))
    (term : ℕ × ℚ → M22)
    (h : List.Forall₂ (fun pk part => part.length = d ∧
      cosGen par d part θ = (brG .x (term pk)).im) pks parts)
    (acc : List ℚ) (hacc : acc.length = d) :
    (parts.foldl addLists acc).length = d ∧
      cosGen par d (parts.foldl addLists acc) θ
        = cosGen par d acc θ + (brG .x ((pks.map term).sum)).im := by
  induction h generalizing acc with
  | nil => simp [hacc, brG_x_zero]
  | cons hab _ ih =>
    obtain ⟨h1, h2⟩ := hab
    obtain ⟨l1, l2⟩ := cosGen_addLists par d acc _ hacc h1 θ
    obtain ⟨i1, i2⟩ := ih _ l1
    refine ⟨by simpa using i1, ?_⟩
    rw [List.foldl_cons, i2, l2, h2, List.map_cons, List.sum_cons, brG_x_add, Complex.add_im]
    ring

/-- the complex pairs `jacSpec` works with: the rational enclosure centres of
    `(cos φ, sin φ)` for the full phase list -/
noncomputable def specPairs (par bits : ℕ) (reduced : List ℚ) : List (ℂ × ℂ) :=
  ((enclList bits (layout (par : ℤ) reduced)).map Encl.pair).map castP

theorem positions_valid (par d j : ℕ) (hpar : par ≤ 1) (hj : j < d) :
    ∀ pk ∈ positions par d j, pk.1 + 1 < 2 * d + par := by
  intro pk hpk
  unfold positions at hpk
  split_ifs at hpk with h1 h2
  · simp only [List.mem_cons, List.not_mem_nil, or_false] at hpk
    rcases hpk with rfl | rfl <;> simp <;> omega
  · simp only [List.mem_cons, List.not_mem_nil, or_false] at hpk
    subst hpk; simp; omega
  · simp only [List.mem_cons, List.not_mem_nil, or_false] at hpk
    rcases hpk with rfl | rfl <;> simp <;> omega

theorem layout_length_par {R : Type} [One R] [Add R] [Mul R] (par : ℕ) (hpar : par ≤ 1)
    (r : List R) (hr : r ≠ []) :
    (layout (par : ℤ) r).length + 1 = 2 * r.length + par := by
  have hpos : 0 < r.length := List.length_pos_iff.mpr hr
  by_cases h : par = 1
  · subst h
    rw [Nat.cast_one]
    simp only [layout, if_true, List.length_append, List.length_reverse]
    omega
  · have h0 : par = 0 := by omega
    subst h0
    cases r with
    | nil => exact absurd rfl hr
    | cons x rest =>
      simp only [layout, Nat.cast_zero, zero_ne_one, if_false, List.length_append,
        List.length_reverse, List.length_cons, List.length_nil]
      omega

/-- SPEC of `jacSpec` (`par ∈ {0, 1}`).  With `pairs` the enclosure centres of the full phase
    list: `f` is the list of ALL cosine coefficients of `θ ↦ Im <+|U~(θ)|+>` (`U~` the product
    over `pairs`), and column `j` the list of ALL cosine coefficients of
    `θ ↦ Im <+| jacDPairs θ … pairs j |+>` — the product-rule expression that, at the exact
    pairs, is the true partial derivative `jacD` (`jacD_eq_jacDPairs`, `hasDerivAt_layout`) -/
theorem jacSpec_spec (par : ℕ) (hpar : par ≤ 1) (bits : ℕ) (reduced : List ℚ) (f : List ℚ)
    (cols : List (List ℚ)) (h : jacSpec par bits reduced = .ok (f, cols)) :
    f.length = reduced.length ∧ cols.length = reduced.length ∧
    (∀ θ : ℝ, (brG .x (UcircPairs θ (specPairs par bits reduced))).im
      = cosGen par reduced.length f θ) ∧
    ∀ j < reduced.length, (cols.getD j []).length = reduced.length ∧ ∀ θ : ℝ,
      (brG .x (jacDPairs θ par reduced.length (specPairs par bits reduced) j)).im
        = cosGen par reduced.length (cols.getD j []) θ := by
  unfold jacSpec at h
  dsimp only at h
  obtain ⟨g, hg, h⟩ := bind_ok h
  obtain ⟨f', hf, h⟩ := bind_ok h
  obtain ⟨cols', hcols, h⟩ := bind_ok h
  injection h with h
  injection h with h1 h2
  subst h1 h2
  set d := reduced.length with hd
  set pairs := (enclList bits (layout (par : ℤ) reduced)).map Encl.pair with hpairs
  have hred : reduced ≠ [] := by
    intro h0
    have : pairs = [] := by
      rw [hpairs, h0]
      by_cases hp : (par : ℤ) = 1 <;> simp [layout, enclList, hp]
    rw [this, fromAngles_nil] at hg
    cases hg
  have hlenP : pairs.length + 1 = 2 * d + par := by
    rw [hpairs, List.length_map, enclList, List.length_map]
    exact layout_length_par par hpar reduced hred
  have hcast10 : castP (1, 0) = ((1 : ℂ), (0 : ℂ)) := by simp [castP]
  have hf0 := fun θ => imCheb_spec par d hpar pairs hlenP g hg f' hf θ
  -- the columns
  have hF := mapM_forall₂ _ (fun j => j < d) (List.range d) cols'
    (fun a ha => List.mem_range.mp ha) hcols
  have hlenC : cols'.length = d := by rw [← hF.length_eq, List.length_range]
  refine ⟨(hf0 0).1, hlenC, fun θ => (hf0 θ).2, fun j hj => ?_⟩
  have hjc : j < cols'.length := by omega
  have hR := hF.get (i := j) (by simpa using hj) hjc
  simp only [List.get_eq_getElem, List.getElem_range] at hR
  obtain ⟨-, hG⟩ := hR
  obtain ⟨parts, hparts, hc⟩ := bind_ok hG
  injection hc with hc
  rw [List.getD_eq_getElem _ _ hjc, ← hc]
  have hP := mapM_forall₂ _ (fun pk : ℕ × ℚ => pk.1 + 1 < 2 * d + par) (positions par d j) parts
    (positions_valid par d j hpar hj) hparts
  have key : ∀ θ : ℝ, List.Forall₂ (fun (pk : ℕ × ℚ) (part : List ℚ) => part.length = d ∧
      cosGen par d part θ = (brG .x ((((pk.2 : ℚ) : ℝ) : ℂ) •
        UcircPairs θ ((specPairs par bits reduced).set pk.1
          (-((specPairs par bits reduced).getD pk.1 (1, 0)).2,
            ((specPairs par bits reduced).getD pk.1 (1, 0)).1)))).im) (positions par d j) parts := by
    intro θ
    refine hP.imp ?_
    rintro ⟨pos, k⟩ part ⟨hv, hFpk⟩
    dsimp only at hv hFpk ⊢
    obtain ⟨gj, hgj, hpart⟩ := bind_ok hFpk
    have hpos : pos < pairs.length := by omega
    have hsp := imCheb_spec par d hpar _ (by rw [List.length_set]; exact hlenP) gj hgj part hpart θ
    refine ⟨hsp.1, ?_⟩
    unfold cosGen
    rw [← hsp.2, ← fromAngles_eval_pairs _ gj hgj θ,
      fromAngles_derivPair_eval pairs pos hpos k gj hgj θ]
    have e : (specPairs par bits reduced).getD pos (1, 0) = castP (pairs.getD pos (1, 0)) := by
      have := List.getD_map pairs (1, 0) castP (n := pos)
      rw [hcast10] at this
      exact this
    rw [e]
    rfl
  obtain ⟨l0, -⟩ := cosGen_foldl par d 0 _ _ _ (key 0) (List.replicate d 0) (by simp)
  refine ⟨l0, fun θ => ?_⟩
  obtain ⟨-, l1⟩ := cosGen_foldl par d θ _ _ _ (key θ) (List.replicate d 0) (by simp)
  rw [l1, cosGen_replicate_zero, zero_add]
  rfl

/-- HEADLINE: the functional `jacDPairs` whose cosine coefficients `jacSpec` tabulates (at the
    enclosure centres, `jacSpec_spec`), taken at the exact pairs `(cos φ, sin φ)` of the full
    phase list, is the true partial derivative of `Im <0|U_x(cos θ)|0>` with respect to reduced
    phase `j` -/
theorem hasDerivAt_resp_layout_im_pairs (θ : ℝ) (hθ : 0 ≤ Real.sin θ) (par : ℕ) (red : List ℝ)
    (j : ℕ) (hj : j < red.length) :
    HasDerivAt (fun t => (respDef .Wx .z (layout (par : ℤ) (red.set j t)) (Real.cos θ)).im)
      ((brG .x (jacDPairs θ par red.length ((layout (par : ℤ) red).map prC) j)).im)
      (red.getD j 0) := by
  rw [← jacD_eq_jacDPairs]
  exact hasDerivAt_resp_layout_im θ hθ par red j hj

/-! ### non-vacuity: a kernel-checked run of `jacSpec` (both parities) -/

example : (jacSpec 1 10 [1 / 4, 1 / 3]).map (fun r => (r.1.length, r.2.map List.length))
    = .ok (2, [2, 2]) := by decide +kernel

example : (jacSpec 0 10 [1 / 4, 1 / 3]).map (fun r => (r.1.length, r.2.map List.length))
    = .ok (2, [2, 2]) := by decide +kernel

end QSP

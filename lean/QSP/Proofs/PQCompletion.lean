/-
  Proofs for the `_pq_completion` glue (`QSP/Model/PQCompletion.lean`), properties C05/C02/C03.

  * section `Algebra`: over any field `K` with a ring endomorphism `σ` (conjugation) and a
    square root `i` of `-1` with `σ i = -i`: if the root finder's specification holds,
      1 - P P* = L (1 - x²) ∏ (x-r)² ∏ (x²+y²)² ∏ (x-z)(x+z)(x-σz)(x+σz),
    then `Q = s ∏(x-r) ∏(x-iy)(x+iy) ∏(x-z)(x+z)` with `s² = L`, `σ s = s` completes `P`,
    `L` is the ratio the code puts under the square root, and `deg P = #roots(Q) + 1`.
  * section `Lists`: the decision logic (classification, argmin, sort, pairing).
  * section `Denote`: `polyFromRoots` denotes `∏ (X - C r)` in `ℂ[X]`, the model's `Q`
    is the `qMonic` of the algebra section, and the end-to-end statement for `pqComplete`.
-/
import QSP.Model.PQCompletion
import QSP.Proofs.Sup
import Mathlib.Algebra.Polynomial.Basic
import Mathlib.Algebra.Polynomial.Coeff
import Mathlib.Algebra.Polynomial.Monic
import Mathlib.Algebra.Polynomial.Eval.Defs
import Mathlib.Algebra.Polynomial.FieldDivision
import Mathlib.Algebra.Polynomial.Degree.Lemmas
import Mathlib.Algebra.Polynomial.Degree.Operations
import Mathlib.Algebra.BigOperators.Group.List.Basic
import Mathlib.Algebra.Field.Basic
import Mathlib.Algebra.Order.Field.Rat
import Mathlib.Data.Complex.Basic
import Mathlib.Tactic.Ring
import Mathlib.Tactic.Linarith
import Mathlib.Tactic.LinearCombination
open Polynomial
namespace QSP

/-! ## the exact-arithmetic completion identity -/
section Algebra
variable {K : Type} [Field K]

/-- the monic polynomial `_pq_completion` builds from the selected roots:
    real roots `r`, imaginary roots `± i y`, complex roots `± z` -/
noncomputable def qMonic (i : K) (re im cx : List K) : K[X] :=
  (re.map fun r => X - C r).prod *
    (im.map fun y => (X - C (i * y)) * (X + C (i * y))).prod *
    (cx.map fun z => (X - C z) * (X + C z)).prod

/-- what the root finder is specified to have seen (besides `±1`): every real root of `Q`
    twice, every imaginary pair twice, every complex root with its negative, its conjugate and
    its negative conjugate -/
noncomputable def fullProd (σ : K →+* K) (re im cx : List K) : K[X] :=
  (re.map fun r => (X - C r) ^ 2).prod *
    (im.map fun y => (X ^ 2 + C (y ^ 2)) ^ 2).prod *
    (cx.map fun z => (X - C z) * (X + C z) * (X - C (σ z)) * (X + C (σ z))).prod

theorem monic_list_prod_map {α : Type} (l : List α) (f : α → K[X]) (h : ∀ a ∈ l, (f a).Monic) :
    (l.map f).prod.Monic := by
  induction l with
  | nil => simp
  | cons a as ih =>
    rw [List.map_cons, List.prod_cons]
    exact (h a (by simp)).mul (ih fun b hb => h b (by simp [hb]))

theorem natDegree_list_prod_map {α : Type} (l : List α) (f : α → K[X]) (d : ℕ)
    (h : ∀ a ∈ l, (f a).Monic ∧ (f a).natDegree = d) :
    (l.map f).prod.natDegree = d * l.length := by
  induction l with
  | nil => simp
  | cons a as ih =>
    have h' : ∀ b ∈ as, (f b).Monic ∧ (f b).natDegree = d := fun b hb => h b (by simp [hb])
    rw [List.map_cons, List.prod_cons,
      (h a (by simp)).1.natDegree_mul (monic_list_prod_map as f fun b hb => (h' b hb).1),
      ih h', (h a (by simp)).2, List.length_cons]
    ring

theorem pair_monic (a : K) : ((X - C a) * (X + C a)).Monic := (monic_X_sub_C a).mul (monic_X_add_C a)

theorem pair_natDegree (a : K) : ((X - C a) * (X + C a)).natDegree = 2 := by
  rw [(monic_X_sub_C a).natDegree_mul (monic_X_add_C a), natDegree_X_sub_C, natDegree_X_add_C]

theorem qMonic_monic (i : K) (re im cx : List K) : (qMonic i re im cx).Monic := by
  unfold qMonic
  refine ((monic_list_prod_map _ _ fun r _ => monic_X_sub_C r).mul
    (monic_list_prod_map _ _ fun y _ => pair_monic _)).mul
    (monic_list_prod_map _ _ fun z _ => pair_monic _)

/-- the number of roots of `Q` -/
theorem qMonic_natDegree (i : K) (re im cx : List K) :
    (qMonic i re im cx).natDegree = re.length + 2 * im.length + 2 * cx.length := by
  unfold qMonic
  rw [(((monic_list_prod_map _ _ fun r _ => monic_X_sub_C r).mul
      (monic_list_prod_map _ _ fun y _ => pair_monic _))).natDegree_mul
      (monic_list_prod_map _ _ fun z _ => pair_monic _),
    (monic_list_prod_map _ _ fun r _ => monic_X_sub_C r).natDegree_mul
      (monic_list_prod_map _ _ fun y _ => pair_monic _),
    natDegree_list_prod_map re _ 1 fun r _ => ⟨monic_X_sub_C r, natDegree_X_sub_C r⟩,
    natDegree_list_prod_map im _ 2 fun y _ => ⟨pair_monic _, pair_natDegree _⟩,
    natDegree_list_prod_map cx _ 2 fun z _ => ⟨pair_monic _, pair_natDegree _⟩]
  ring

theorem map_list_prod_map {α : Type} (σ : K →+* K) (l : List α) (f : α → K[X]) :
    ((l.map f).prod).map σ = (l.map fun a => (f a).map σ).prod := by
  rw [Polynomial.map_list_prod, List.map_map]; rfl

theorem list_prod_map_mul' {α : Type} (l : List α) (f g : α → K[X]) :
    (l.map f).prod * (l.map g).prod = (l.map fun a => f a * g a).prod := by
  induction l with
  | nil => simp
  | cons a as ih => simp only [List.map_cons, List.prod_cons, ← ih]; ring

theorem list_prod_map_congr {α : Type} (l : List α) (f g : α → K[X]) (h : ∀ a ∈ l, f a = g a) :
    (l.map f).prod = (l.map g).prod := by
  rw [List.map_congr_left h]

/-- `Q · Q*` is the full symmetric product -/
theorem qMonic_mul_conj (σ : K →+* K) (i : K) (hi : i * i = -1) (hσi : σ i = -i)
    (re im cx : List K) (hre : ∀ r ∈ re, σ r = r) (him : ∀ y ∈ im, σ y = y) :
    qMonic i re im cx * (qMonic i re im cx).map σ = fullProd σ re im cx := by
  have hC : (C i : K[X]) * C i = -1 := by rw [← C_mul, hi]; simp
  unfold qMonic fullProd
  rw [Polynomial.map_mul, Polynomial.map_mul, map_list_prod_map, map_list_prod_map,
    map_list_prod_map]
  have e1 : (re.map fun r => X - C r).prod * (re.map fun a => (X - C a).map σ).prod
      = (re.map fun r => (X - C r) ^ 2).prod := by
    rw [list_prod_map_mul']
    refine list_prod_map_congr _ _ _ fun r hr => ?_
    simp only [Polynomial.map_sub, map_X, map_C, hre r hr]; ring
  have e2 : (im.map fun y => (X - C (i * y)) * (X + C (i * y))).prod *
      (im.map fun a => ((X - C (i * a)) * (X + C (i * a))).map σ).prod
      = (im.map fun y => (X ^ 2 + C (y ^ 2)) ^ 2).prod := by
    rw [list_prod_map_mul']
    refine list_prod_map_congr _ _ _ fun y hy => ?_
    simp only [Polynomial.map_sub, Polynomial.map_add, Polynomial.map_mul, map_X, map_C,
      map_mul, hσi, him y hy, C_neg, C_pow]
    linear_combination (-(C y) ^ 2 * (2 * X ^ 2 + C y ^ 2 - C i * C i * C y ^ 2)) * hC
  have e3 : (cx.map fun z => (X - C z) * (X + C z)).prod *
      (cx.map fun a => ((X - C a) * (X + C a)).map σ).prod
      = (cx.map fun z => (X - C z) * (X + C z) * (X - C (σ z)) * (X + C (σ z))).prod := by
    rw [list_prod_map_mul']
    refine list_prod_map_congr _ _ _ fun z _ => ?_
    simp only [Polynomial.map_sub, Polynomial.map_add, Polynomial.map_mul, map_X, map_C]; ring
  rw [← e1, ← e2, ← e3]; ring

theorem one_sub_X_sq_eq : (1 - X ^ 2 : K[X]) = -(X ^ 2 - C 1) := by simp

theorem leadingCoeff_one_sub_X_sq : (1 - X ^ 2 : K[X]).leadingCoeff = -1 := by
  rw [one_sub_X_sq_eq, leadingCoeff_neg, (monic_X_pow_sub_C (1 : K) two_ne_zero).leadingCoeff]

theorem natDegree_one_sub_X_sq : (1 - X ^ 2 : K[X]).natDegree = 2 := by
  rw [one_sub_X_sq_eq, natDegree_neg, natDegree_X_pow_sub_C]

/-- the denominator of the code's normalisation, `lead(Q Q* (1 - x²))`, is `-1` -/
theorem lead_den (σ : K →+* K) (i : K) (re im cx : List K) :
    (qMonic i re im cx * (qMonic i re im cx).map σ * (1 - X ^ 2)).leadingCoeff = -1 := by
  rw [leadingCoeff_mul, leadingCoeff_mul, (qMonic_monic i re im cx).leadingCoeff,
    ((qMonic_monic i re im cx).map σ).leadingCoeff, leadingCoeff_one_sub_X_sq]
  ring

/-- under the root finder's specification the ratio the code puts under the square root is
    the constant `L` of the factorisation -/
theorem pq_ratio (σ : K →+* K) (i : K) (hi : i * i = -1) (hσi : σ i = -i)
    (re im cx : List K) (hre : ∀ r ∈ re, σ r = r) (him : ∀ y ∈ im, σ y = y)
    (P : K[X]) (L : K)
    (hR : 1 - P * P.map σ = C L * (1 - X ^ 2) * fullProd σ re im cx) :
    (1 - P * P.map σ).leadingCoeff /
      (qMonic i re im cx * (qMonic i re im cx).map σ * (1 - X ^ 2)).leadingCoeff = L := by
  rw [lead_den, hR, ← qMonic_mul_conj σ i hi hσi re im cx hre him, leadingCoeff_mul,
    leadingCoeff_mul, leadingCoeff_mul, (qMonic_monic i re im cx).leadingCoeff,
    ((qMonic_monic i re im cx).map σ).leadingCoeff, leadingCoeff_one_sub_X_sq, leadingCoeff_C]
  field_simp

/-- **the completion identity**: with the model's normalisation (`s² = L`, `s` real) the
    polynomial `Q = s · qMonic` satisfies `P P* + (1 - x²) Q Q* = 1` -/
theorem pq_completion_identity (σ : K →+* K) (i : K) (hi : i * i = -1) (hσi : σ i = -i)
    (re im cx : List K) (hre : ∀ r ∈ re, σ r = r) (him : ∀ y ∈ im, σ y = y)
    (P : K[X]) (L s : K) (hs : s * s = L) (hσs : σ s = s)
    (hR : 1 - P * P.map σ = C L * (1 - X ^ 2) * fullProd σ re im cx) :
    P * P.map σ + (1 - X ^ 2) *
      ((C s * qMonic i re im cx) * (C s * qMonic i re im cx).map σ) = 1 := by
  have hq := qMonic_mul_conj σ i hi hσi re im cx hre him
  rw [Polynomial.map_mul, map_C, hσs]
  have hCs : (C s : K[X]) * C s = C L := by rw [← C_mul, hs]
  linear_combination (-1 : K[X]) * hR + (C L * (1 - X ^ 2)) * hq + ((1 - X ^ 2) * (qMonic i re im cx * (qMonic i re im cx).map σ)) * hCs

/-- the number of roots of `Q` is what the degree of `P` dictates -/
theorem pq_root_count (σ : K →+* K) (i : K) (hi : i * i = -1) (hσi : σ i = -i)
    (re im cx : List K) (hre : ∀ r ∈ re, σ r = r) (him : ∀ y ∈ im, σ y = y)
    (P : K[X]) (L : K) (hL : L ≠ 0)
    (hR : 1 - P * P.map σ = C L * (1 - X ^ 2) * fullProd σ re im cx) :
    re.length + 2 * im.length + 2 * cx.length + 1 = P.natDegree := by
  have hq := qMonic_mul_conj σ i hi hσi re im cx hre him
  have hm : (qMonic i re im cx * (qMonic i re im cx).map σ).Monic :=
    (qMonic_monic i re im cx).mul ((qMonic_monic i re im cx).map σ)
  have hm2 : ((X ^ 2 - C 1 : K[X]) * (qMonic i re im cx * (qMonic i re im cx).map σ)).Monic :=
    (monic_X_pow_sub_C (1 : K) two_ne_zero).mul hm
  have hdeg : (C L * (1 - X ^ 2) * fullProd σ re im cx).natDegree
      = 2 + 2 * (re.length + 2 * im.length + 2 * cx.length) := by
    rw [← hq, show C L * (1 - X ^ 2) * (qMonic i re im cx * (qMonic i re im cx).map σ)
      = C (-L) * ((X ^ 2 - C 1) * (qMonic i re im cx * (qMonic i re im cx).map σ)) by
        simp only [C_neg, C_1]; ring,
      natDegree_C_mul (neg_ne_zero.mpr hL),
      (monic_X_pow_sub_C (1 : K) two_ne_zero).natDegree_mul hm, natDegree_X_pow_sub_C,
      (qMonic_monic i re im cx).natDegree_mul ((qMonic_monic i re im cx).map σ),
      (qMonic_monic i re im cx).natDegree_map, qMonic_natDegree]
    ring
  by_cases h0 : P.natDegree = 0
  · exfalso
    obtain ⟨c, hc⟩ : ∃ c, P = C c := ⟨_, eq_C_of_natDegree_eq_zero h0⟩
    have : (1 - P * P.map σ).natDegree = 0 := by
      rw [hc, map_C, ← C_mul, ← C_1, ← C_sub, natDegree_C]
    rw [hR, hdeg] at this
    omega
  · have hP : P ≠ 0 := fun h => h0 (by rw [h, natDegree_zero])
    have hPσ : P.map σ ≠ 0 := (Polynomial.map_ne_zero_iff σ.injective).mpr hP
    have h2 : (P * P.map σ).natDegree = 2 * P.natDegree := by
      rw [natDegree_mul hP hPσ, natDegree_map]; ring
    have h3 : (1 - P * P.map σ).natDegree = 2 * P.natDegree := by
      rw [natDegree_sub_eq_right_of_natDegree_lt (by rw [natDegree_one, h2]; omega), h2]
    rw [hR, hdeg] at h3
    omega

end Algebra


/-! ## the decision logic -/
section Lists

set_option linter.unusedSimpArgs false in
local macro "cls_simp" : tactic => `(tactic| simp [classifyPQ, List.filter_cons, *])

/-- the real list: exactly the roots with `|Im| < tol`, in order, real parts kept -/
theorem classifyPQ_real (tol : ℚ) (roots : List CQ) :
    (classifyPQ tol roots).1
      = (roots.filter fun r => decide (qabs r.2 < tol)).map Prod.fst := by
  induction roots with
  | nil => rfl
  | cons r rs ih =>
    by_cases h1 : qabs r.2 < tol
    · cls_simp
    · have h1' : tol ≤ qabs r.2 := not_lt.mp h1
      by_cases h3 : r.1 < tol
      · by_cases h2 : r.1 > -tol
        · by_cases h4 : r.2 > -tol
          · cls_simp
          · cls_simp
        · cls_simp
      · by_cases h2 : r.1 > -tol
        · by_cases h4 : r.2 > -tol
          · cls_simp
          · cls_simp
        · cls_simp

/-- the imaginary list: not real, `Re > -tol`, `Im > -tol`, `Re < tol`; imaginary parts kept -/
theorem classifyPQ_imag (tol : ℚ) (roots : List CQ) :
    (classifyPQ tol roots).2.1
      = (roots.filter fun r => decide (¬ qabs r.2 < tol ∧ r.1 > -tol ∧ r.2 > -tol ∧ r.1 < tol)).map
          Prod.snd := by
  induction roots with
  | nil => rfl
  | cons r rs ih =>
    by_cases h1 : qabs r.2 < tol
    · cls_simp
    · have h1' : tol ≤ qabs r.2 := not_lt.mp h1
      by_cases h3 : r.1 < tol
      · by_cases h2 : r.1 > -tol
        · by_cases h4 : r.2 > -tol
          · cls_simp
          · cls_simp
        · cls_simp
      · by_cases h2 : r.1 > -tol
        · by_cases h4 : r.2 > -tol
          · cls_simp
          · cls_simp
        · cls_simp

/-- the complex list: not real, `Re ≥ tol`, `Im > -tol` (closed first quadrant side) -/
theorem classifyPQ_cplx (tol : ℚ) (roots : List CQ) :
    (classifyPQ tol roots).2.2
      = roots.filter fun r => decide (¬ qabs r.2 < tol ∧ r.1 > -tol ∧ r.2 > -tol ∧ ¬ r.1 < tol) := by
  induction roots with
  | nil => rfl
  | cons r rs ih =>
    by_cases h1 : qabs r.2 < tol
    · cls_simp
    · have h1' : tol ≤ qabs r.2 := not_lt.mp h1
      by_cases h3 : r.1 < tol
      · by_cases h2 : r.1 > -tol
        · by_cases h4 : r.2 > -tol
          · cls_simp
          · cls_simp
        · cls_simp
      · by_cases h2 : r.1 > -tol
        · by_cases h4 : r.2 > -tol
          · cls_simp
          · cls_simp
        · cls_simp

/-- every root within `tol` of the real axis is classified real -/
theorem classifyPQ_real_mem (tol : ℚ) (roots : List CQ) (r : CQ) (hr : r ∈ roots)
    (h : |r.2| < tol) : r.1 ∈ (classifyPQ tol roots).1 := by
  rw [classifyPQ_real, List.mem_map]
  exact ⟨r, List.mem_filter.mpr ⟨hr, by simpa [qabs_eq] using h⟩, rfl⟩

/-- nothing is counted twice and nothing outside the closed first quadrant is kept -/
theorem classifyPQ_length_le (tol : ℚ) (roots : List CQ) :
    (classifyPQ tol roots).1.length + (classifyPQ tol roots).2.1.length
      + (classifyPQ tol roots).2.2.length ≤ roots.length := by
  induction roots with
  | nil => simp [classifyPQ]
  | cons r rs ih =>
    simp only [classifyPQ]
    split_ifs <;> simp only [List.length_cons] <;> omega

theorem argminQ_none (l : List ℚ) : argminQ l = none ↔ l = [] := by
  cases l with
  | nil => simp [argminQ]
  | cons x xs =>
    simp only [argminQ]
    cases argminQ xs with
    | none => simp
    | some m => simp only []; split_ifs <;> simp

/-- `np.argmin`: a valid index, a minimum, and the FIRST one -/
theorem argminQ_spec (l : List ℚ) (j : ℕ) (h : argminQ l = some j) :
    j < l.length ∧ (∀ k, k < l.length → l.getD j 0 ≤ l.getD k 0) ∧
      (∀ k, k < j → l.getD j 0 < l.getD k 0) := by
  induction l generalizing j with
  | nil => simp [argminQ] at h
  | cons x xs ih =>
    simp only [argminQ] at h
    cases hx : argminQ xs with
    | none =>
      rw [hx] at h
      simp only [Option.some.injEq] at h
      subst h
      have hnil : xs = [] := (argminQ_none xs).1 hx
      subst hnil
      refine ⟨by simp, ?_, by simp⟩
      intro k hk
      have : k = 0 := by simpa using hk
      subst this; simp
    | some m =>
      rw [hx] at h
      obtain ⟨h1, h2, h3⟩ := ih m hx
      by_cases hc : x ≤ xs.getD m 0
      · simp only [hc, if_true, Option.some.injEq] at h
        subst h
        refine ⟨by simp, ?_, by simp⟩
        intro k hk
        cases k with
        | zero => simp
        | succ k =>
          simp only [List.length_cons, Nat.add_lt_add_iff_right] at hk
          simp only [List.getD_cons_succ, List.getD_cons_zero]
          exact le_trans hc (h2 k hk)
      · simp only [hc, if_false, Option.some.injEq] at h
        subst h
        have hc' : xs.getD m 0 < x := not_le.mp hc
        refine ⟨by simpa using h1, ?_, ?_⟩
        · intro k hk
          cases k with
          | zero => simpa using le_of_lt hc'
          | succ k =>
            simp only [List.length_cons, Nat.add_lt_add_iff_right] at hk
            simpa using h2 k hk
        · intro k hk
          cases k with
          | zero => simpa using hc'
          | succ k =>
            simp only [Nat.add_lt_add_iff_right] at hk
            simpa using h3 k hk

theorem distKeys_getD (c : ℚ) (l : List ℚ) (k : ℕ) (hk : k < l.length) :
    (distKeys c l).getD k 0 = |c - l.getD k 0| := by
  simp [distKeys, List.getD_eq_getElem?_getD, hk, qabs_eq]

/-- `np.delete(l, np.argmin(np.abs(c - l)))`: the removed entry is the first one nearest to `c` -/
theorem removeNearest_spec (c : ℚ) (l l' : List ℚ) (h : removeNearest c l = some l') :
    ∃ j, j < l.length ∧ l' = l.eraseIdx j ∧
      (∀ k, k < l.length → |c - l.getD j 0| ≤ |c - l.getD k 0|) ∧
      (∀ k, k < j → |c - l.getD j 0| < |c - l.getD k 0|) := by
  unfold removeNearest at h
  rw [Option.map_eq_some_iff] at h
  obtain ⟨j, hj, rfl⟩ := h
  obtain ⟨h1, h2, h3⟩ := argminQ_spec _ j hj
  have hlen : (distKeys c l).length = l.length := by simp [distKeys]
  rw [hlen] at h1 h2
  refine ⟨j, h1, rfl, ?_, ?_⟩
  · intro k hk
    have := h2 k hk
    rwa [distKeys_getD c l j h1, distKeys_getD c l k hk] at this
  · intro k hk
    have := h3 k hk
    rwa [distKeys_getD c l j h1, distKeys_getD c l k (lt_trans hk h1)] at this

/-- it fails (numpy raises) exactly on the empty list -/
theorem removeNearest_none (c : ℚ) (l : List ℚ) : removeNearest c l = none ↔ l = [] := by
  unfold removeNearest
  rw [Option.map_eq_none_iff, argminQ_none]
  simp [distKeys]

/-- if `c` itself is present, an entry equal to `c` is removed -/
theorem removeNearest_exact (c : ℚ) (l l' : List ℚ) (hc : c ∈ l)
    (h : removeNearest c l = some l') :
    ∃ j, j < l.length ∧ l' = l.eraseIdx j ∧ l.getD j 0 = c := by
  obtain ⟨j, hj, rfl, h2, -⟩ := removeNearest_spec c l l' h
  obtain ⟨k, hk, rfl⟩ := List.getElem_of_mem hc
  refine ⟨j, hj, rfl, ?_⟩
  have := h2 k hk
  have e : l.getD k 0 = l[k] := by simp [List.getD_eq_getElem?_getD, hk]
  rw [e, sub_self] at this
  have h0 : l[k] - l.getD j 0 = 0 := abs_eq_zero.mp (le_antisymm (by simpa using this) (abs_nonneg _))
  linarith

theorem insertQ_perm (x : ℚ) (l : List ℚ) : (insertQ x l).Perm (x :: l) := by
  induction l with
  | nil => simp [insertQ]
  | cons y ys ih =>
    simp only [insertQ]
    split_ifs
    · exact List.Perm.refl _
    · exact (List.Perm.cons y ih).trans (List.Perm.swap x y ys)

theorem sortQ_perm (l : List ℚ) : (sortQ l).Perm l := by
  induction l with
  | nil => simp [sortQ]
  | cons x xs ih => exact (insertQ_perm x _).trans (List.Perm.cons x ih)

theorem sortQ_length (l : List ℚ) : (sortQ l).length = l.length := (sortQ_perm l).length_eq

theorem insertQ_sorted (x : ℚ) (l : List ℚ) (h : l.Pairwise (· ≤ ·)) :
    (insertQ x l).Pairwise (· ≤ ·) := by
  induction l with
  | nil => simp [insertQ]
  | cons y ys ih =>
    simp only [insertQ]
    rw [List.pairwise_cons] at h
    split_ifs with hxy
    · refine List.pairwise_cons.mpr ⟨?_, List.pairwise_cons.mpr h⟩
      intro z hz
      rcases List.mem_cons.mp hz with rfl | hz
      · exact hxy
      · exact le_trans hxy (h.1 z hz)
    · refine List.pairwise_cons.mpr ⟨?_, ih h.2⟩
      intro z hz
      rcases List.mem_cons.mp ((insertQ_perm x ys).mem_iff.mp hz) with rfl | hz
      · exact le_of_lt (not_le.mp hxy)
      · exact h.1 z hz

/-- `np.sort`: ascending, same entries -/
theorem sortQ_sorted (l : List ℚ) : (sortQ l).Pairwise (· ≤ ·) := by
  induction l with
  | nil => simp [sortQ]
  | cons x xs ih => exact insertQ_sorted x _ ih

theorem pairMeans_length : ∀ l : List ℚ, (pairMeans l).length = l.length / 2
  | [] => rfl
  | [_] => by simp [pairMeans]
  | a :: b :: rest => by
    simp only [pairMeans, List.length_cons, pairMeans_length rest]; omega

/-- entry `k` of the paired list is the mean of entries `2k`, `2k+1` -/
theorem pairMeans_getD : ∀ (l : List ℚ) (k : ℕ), 2 * k + 1 < l.length →
    (pairMeans l).getD k 0 = (l.getD (2 * k) 0 + l.getD (2 * k + 1) 0) / 2
  | [], k, h => by simp at h
  | [_], k, h => by simp at h
  | a :: b :: rest, 0, _ => by simp [pairMeans]
  | a :: b :: rest, k + 1, h => by
    have h' : 2 * k + 1 < rest.length := by simp only [List.length_cons] at h; omega
    have e1 : 2 * (k + 1) = (2 * k) + 1 + 1 := by ring
    rw [pairMeans, List.getD_cons_succ, pairMeans_getD rest k h', e1]
    simp only [List.getD_cons_succ]

theorem everySecond_length : ∀ l : List ℚ, (everySecond l).length = (l.length + 1) / 2
  | [] => rfl
  | [_] => by simp [everySecond]
  | a :: b :: rest => by
    simp only [everySecond, List.length_cons, everySecond_length rest]; omega

theorem everySecond_getD : ∀ (l : List ℚ) (k : ℕ), 2 * k < l.length →
    (everySecond l).getD k 0 = l.getD (2 * k) 0
  | [], k, h => by simp at h
  | [a], k, h => by
    have : k = 0 := by simp only [List.length_cons, List.length_nil] at h; omega
    subst this; simp [everySecond]
  | a :: b :: rest, 0, _ => by simp [everySecond]
  | a :: b :: rest, k + 1, h => by
    have h' : 2 * k < rest.length := by simp only [List.length_cons] at h; omega
    have e1 : 2 * (k + 1) = (2 * k) + 1 + 1 := by ring
    rw [everySecond, List.getD_cons_succ, everySecond_getD rest k h', e1]
    simp only [List.getD_cons_succ]

/-- the even branch: half the length, every entry the mean of its two sources -/
theorem pairUp_even (l : List ℚ) (h : l.length % 2 = 0) :
    pairUp l = pairMeans l ∧ 2 * (pairUp l).length = l.length := by
  have : pairUp l = pairMeans l := by simp [pairUp, h]
  refine ⟨this, ?_⟩
  rw [this, pairMeans_length]; omega

/-- the odd branch keeps every other entry -/
theorem pairUp_odd (l : List ℚ) (h : l.length % 2 = 1) :
    pairUp l = everySecond l ∧ 2 * (pairUp l).length = l.length + 1 := by
  have : pairUp l = everySecond l := by simp [pairUp, h]
  refine ⟨this, ?_⟩
  rw [this, everySecond_length]; omega

/-- a sorted list in which every value is listed twice in a row pairs up to the values -/
theorem pairMeans_doubled (l : List ℚ) :
    pairMeans (l.flatMap fun r => [r, r]) = l := by
  induction l with
  | nil => rfl
  | cons a as ih =>
    simp only [List.flatMap_cons, List.cons_append, List.nil_append, pairMeans, ih]
    congr 1; ring

theorem rootsOfQ_length (re im : List ℚ) (cx : List CQ) :
    (rootsOfQ re im cx).length = re.length + 2 * im.length + 2 * cx.length := by
  simp [rootsOfQ]; ring

end Lists


/-! ## denotation of the model in `ℂ[X]` and the end-to-end statement -/
section Denote

/-- the polynomial an ascending coefficient list denotes -/
noncomputable def toPolyC : List CQ → ℂ[X]
  | [] => 0
  | c :: cs => C (toC c) + X * toPolyC cs

theorem toC_zero : toC ((0, 0) : CQ) = 0 := by apply Complex.ext <;> simp
theorem toC_one : toC ((1, 0) : CQ) = 1 := by apply Complex.ext <;> simp
theorem toC_neg_one : toC ((-1, 0) : CQ) = -1 := by apply Complex.ext <;> simp
theorem toC_neg (a : CQ) : toC a.neg = -toC a := by apply Complex.ext <;> simp [CQ.neg]
theorem toC_ratRe (r : ℚ) : toC ((r, 0) : CQ) = (r : ℂ) := by apply Complex.ext <;> simp
theorem toC_I_mul (y : ℚ) : toC ((0, y) : CQ) = Complex.I * (y : ℂ) := by
  apply Complex.ext <;> simp

theorem toC_injective : Function.Injective toC := by
  intro a b h
  have h1 := congrArg Complex.re h
  have h2 := congrArg Complex.im h
  simp only [toC_re, toC_im, Rat.cast_inj] at h1 h2
  exact Prod.ext h1 h2

theorem toPolyC_cqAddL : ∀ a b : List CQ, toPolyC (cqAddL a b) = toPolyC a + toPolyC b
  | [], b => by simp [cqAddL, toPolyC]
  | x :: xs, [] => by simp [cqAddL, toPolyC]
  | x :: xs, y :: ys => by
    simp only [cqAddL, toPolyC, toC_add, toPolyC_cqAddL xs ys, C_add]; ring

theorem toPolyC_map_mul (x : CQ) (b : List CQ) :
    toPolyC (b.map (x.mul ·)) = C (toC x) * toPolyC b := by
  induction b with
  | nil => simp [toPolyC]
  | cons y ys ih => simp only [List.map_cons, toPolyC, toC_mul, ih, C_mul]; ring

theorem toPolyC_cqConvL (a b : List CQ) : toPolyC (cqConvL a b) = toPolyC a * toPolyC b := by
  induction a with
  | nil => simp [cqConvL, toPolyC]
  | cons x xs ih =>
    simp only [cqConvL, toPolyC_cqAddL, toPolyC_map_mul, toPolyC, ih, toC_zero, C_0]; ring

/-- (a) `polyFromRoots` denotes `∏ (X - C r)` -/
theorem toPolyC_polyFromRoots (rs : List CQ) :
    toPolyC (polyFromRoots rs) = (rs.map fun r => X - C (toC r)).prod := by
  induction rs with
  | nil => simp [polyFromRoots, toPolyC, toC_one]
  | cons r rs ih =>
    simp only [polyFromRoots, toPolyC_cqConvL, ih, toPolyC, toC_neg, toC_one, List.map_cons,
      List.prod_cons, C_neg, C_1]
    ring

theorem toPolyC_map_conj (q : List CQ) :
    toPolyC (q.map CQ.conj) = (toPolyC q).map (starRingEnd ℂ) := by
  induction q with
  | nil => simp [toPolyC]
  | cons c cs ih =>
    simp only [List.map_cons, toPolyC, toC_conj, ih, Polynomial.map_add, Polynomial.map_mul,
      map_C, map_X]

theorem coeff_toPolyC : ∀ (l : List CQ) (k : ℕ), (toPolyC l).coeff k = toC (l.getD k (0, 0))
  | [], k => by simp [toPolyC, toC_zero]
  | c :: cs, 0 => by simp [toPolyC]
  | c :: cs, k + 1 => by
    simp only [toPolyC, coeff_add, coeff_X_mul, coeff_C_succ, zero_add, coeff_toPolyC cs k,
      List.getD_cons_succ]

theorem length_cqAddL : ∀ a b : List CQ, (cqAddL a b).length = max a.length b.length
  | [], b => by simp [cqAddL]
  | x :: xs, [] => by simp [cqAddL]
  | x :: xs, y :: ys => by simp only [cqAddL, List.length_cons, length_cqAddL xs ys]; omega

theorem length_cqConvL (a b : List CQ) (ha : 0 < a.length) (hb : 0 < b.length) :
    (cqConvL a b).length + 1 = a.length + b.length := by
  induction a with
  | nil => simp at ha
  | cons x xs ih =>
    simp only [cqConvL, length_cqAddL, List.length_map, List.length_cons]
    cases xs with
    | nil => simp only [cqConvL, List.length_nil]; omega
    | cons y ys =>
      have := ih (by simp)
      simp only [List.length_cons] at this ⊢
      omega

/-- (a) `deg + 1` coefficients -/
theorem polyFromRoots_length (rs : List CQ) : (polyFromRoots rs).length = rs.length + 1 := by
  induction rs with
  | nil => rfl
  | cons r rs ih =>
    have := length_cqConvL [r.neg, (1, 0)] (polyFromRoots rs) (by simp) (by omega)
    simp only [polyFromRoots, List.length_cons, List.length_nil] at this ⊢
    omega

theorem polyFromRoots_monic (rs : List CQ) :
    (toPolyC (polyFromRoots rs)).Monic ∧ (toPolyC (polyFromRoots rs)).natDegree = rs.length := by
  rw [toPolyC_polyFromRoots]
  refine ⟨monic_list_prod_map _ _ fun r _ => monic_X_sub_C _, ?_⟩
  rw [natDegree_list_prod_map rs _ 1 fun r _ => ⟨monic_X_sub_C _, natDegree_X_sub_C _⟩]; ring

/-- (a) the leading coefficient is exactly one -/
theorem polyFromRoots_lead (rs : List CQ) : (polyFromRoots rs).getD rs.length (0, 0) = (1, 0) := by
  apply toC_injective
  rw [← coeff_toPolyC, toC_one]
  have h := polyFromRoots_monic rs
  rw [← h.2]; exact h.1.coeff_natDegree

theorem cq_getLastD_eq_getD (l : List CQ) (d : CQ) : l.getLastD d = l.getD (l.length - 1) d := by
  rw [List.getLastD_eq_getLast?, List.getLast?_eq_getElem?, ← List.getD_eq_getElem?_getD]

theorem coeff_den_of_monic {K : Type} [Field K] (σ : K →+* K) (Q : K[X]) (hQ : Q.Monic) :
    (Q * Q.map σ * (1 - X ^ 2)).coeff (2 * Q.natDegree + 2) = -1 := by
  have hm : (Q * Q.map σ).Monic := hQ.mul (hQ.map σ)
  have hm2 : ((X ^ 2 - C 1 : K[X]) * (Q * Q.map σ)).Monic :=
    (monic_X_pow_sub_C (1 : K) two_ne_zero).mul hm
  have hd : ((X ^ 2 - C 1 : K[X]) * (Q * Q.map σ)).natDegree = 2 * Q.natDegree + 2 := by
    rw [(monic_X_pow_sub_C (1 : K) two_ne_zero).natDegree_mul hm, natDegree_X_pow_sub_C,
      hQ.natDegree_mul (hQ.map σ), hQ.natDegree_map]
    ring
  have e : Q * Q.map σ * (1 - X ^ 2) = -((X ^ 2 - C 1) * (Q * Q.map σ)) := by
    simp only [C_1]; ring
  rw [e, coeff_neg, ← hd, hm2.coeff_natDegree]

theorem toPolyC_one_sub_sq : toPolyC [(1, 0), (0, 0), (-1, 0)] = 1 - X ^ 2 := by
  simp only [toPolyC, toC_one, toC_zero, toC_neg_one, C_1, C_0, C_neg]; ring

/-- the denominator of the normalisation is `-1` for every root list -/
theorem pqDen_eq (rs : List CQ) : pqDen (polyFromRoots rs) = (-1, 0) := by
  apply toC_injective
  have hl := polyFromRoots_length rs
  have hl1 := length_cqConvL (polyFromRoots rs) ((polyFromRoots rs).map CQ.conj)
    (by omega) (by rw [List.length_map]; omega)
  have hl2 := length_cqConvL (cqConvL (polyFromRoots rs) ((polyFromRoots rs).map CQ.conj))
    [(1, 0), (0, 0), (-1, 0)] (by rw [List.length_map] at hl1; omega) (by simp)
  rw [List.length_map] at hl1
  simp only [List.length_cons, List.length_nil] at hl2
  unfold pqDen
  rw [cq_getLastD_eq_getD, ← coeff_toPolyC, toPolyC_cqConvL, toPolyC_cqConvL, toPolyC_map_conj,
    toPolyC_one_sub_sq, toC_neg_one]
  have h := polyFromRoots_monic rs
  have := coeff_den_of_monic (starRingEnd ℂ) _ h.1
  rw [h.2] at this
  rw [show (cqConvL (cqConvL (polyFromRoots rs) ((polyFromRoots rs).map CQ.conj))
    [(1, 0), (0, 0), (-1, 0)]).length - 1 = 2 * rs.length + 2 by omega]
  exact this

/-- what `pqComplete` returns: the exact product over the selected roots, and `-lead` -/
theorem pqComplete_eq (tol : ℚ) (roots : List CQ) (lead : ℚ) (q : List CQ) (ratio : ℚ)
    (h : pqComplete tol roots lead = some (q, ratio)) :
    ∃ re im cx, pqSelect tol roots = some (re, im, cx) ∧
      q = polyFromRoots (rootsOfQ re im cx) ∧ ratio = -lead := by
  unfold pqComplete at h
  cases hs : pqSelect tol roots with
  | none => rw [hs] at h; simp at h
  | some s =>
    rw [hs] at h
    obtain ⟨re, im, cx⟩ := s
    simp only [Option.some.injEq, Prod.mk.injEq] at h
    obtain ⟨rfl, rfl⟩ := h
    refine ⟨re, im, cx, rfl, rfl, ?_⟩
    rw [pqDen_eq]
    show lead / (-1 : ℚ) = -lead
    rw [div_neg, div_one]

/-- the model's `Q` before normalisation is the `qMonic` of the algebra section -/
theorem toPolyC_rootsOfQ (re im : List ℚ) (cx : List CQ) :
    toPolyC (polyFromRoots (rootsOfQ re im cx))
      = qMonic Complex.I (re.map fun r : ℚ => (r : ℂ)) (im.map fun y : ℚ => (y : ℂ)) (cx.map toC) := by
  have hA : ∀ l : List ℚ, ((l.map fun r => ((r, 0) : CQ)).map fun r => X - C (toC r)).prod
      = ((l.map fun r : ℚ => (r : ℂ)).map fun r => X - C r).prod := by
    intro l
    induction l with
    | nil => simp
    | cons a as ih => simp only [List.map_cons, List.prod_cons, ih, toC_ratRe]
  have hB1 : ∀ l : List ℚ, ((l.map fun y => ((0, y) : CQ)).map fun r => X - C (toC r)).prod
      = ((l.map fun y : ℚ => (y : ℂ)).map fun y => X - C (Complex.I * y)).prod := by
    intro l
    induction l with
    | nil => simp
    | cons a as ih => simp only [List.map_cons, List.prod_cons, ih, toC_I_mul]
  have hB2 : ∀ l : List ℚ,
      (((l.map fun y => -y).map fun y => ((0, y) : CQ)).map fun r => X - C (toC r)).prod
      = ((l.map fun y : ℚ => (y : ℂ)).map fun y => X + C (Complex.I * y)).prod := by
    intro l
    induction l with
    | nil => simp
    | cons a as ih =>
      simp only [List.map_cons, List.prod_cons, ih, toC_I_mul, Rat.cast_neg, mul_neg, C_neg,
        sub_neg_eq_add]
  have hC1 : ∀ l : List CQ, (l.map fun r => X - C (toC r)).prod
      = ((l.map toC).map fun z => X - C z).prod := by
    intro l; rw [List.map_map]; rfl
  have hC2 : ∀ l : List CQ, ((l.map CQ.neg).map fun r => X - C (toC r)).prod
      = ((l.map toC).map fun z => X + C z).prod := by
    intro l
    induction l with
    | nil => simp
    | cons a as ih =>
      simp only [List.map_cons, List.prod_cons, ih, toC_neg, C_neg, sub_neg_eq_add]
  rw [toPolyC_polyFromRoots]
  unfold rootsOfQ qMonic
  simp only [List.map_append, List.prod_append]
  rw [hA, hB1, hB2, hC1, hC2, ← list_prod_map_mul', ← list_prod_map_mul']

theorem conj_ratCast (r : ℚ) : (starRingEnd ℂ) (r : ℂ) = r := by
  rw [← toC_ratRe, ← toC_conj]; simp [CQ.conj]

/-- **end to end**: if `pqComplete` returns `(q, ratio)` and the roots it selected satisfy
    the root finder's specification for `1 - P P*`, then `Q = s · q` with the real
    `s = sqrt L` completes `P`; and `L` is the `ratio` the model returns whenever `lead` is
    the leading coefficient of `1 - P P*` -/
theorem pqComplete_sound (tol : ℚ) (roots : List CQ) (lead : ℚ) (q : List CQ) (ratio : ℚ)
    (h : pqComplete tol roots lead = some (q, ratio))
    (re im : List ℚ) (cx : List CQ) (hsel : pqSelect tol roots = some (re, im, cx))
    (P : ℂ[X]) (L : ℂ)
    (hR : 1 - P * P.map (starRingEnd ℂ) = C L * (1 - X ^ 2) *
      fullProd (starRingEnd ℂ) (re.map fun r : ℚ => (r : ℂ)) (im.map fun y : ℚ => (y : ℂ)) (cx.map toC)) :
    (∀ s : ℝ, (s : ℂ) * s = L →
      P * P.map (starRingEnd ℂ) + (1 - X ^ 2) *
        ((C (s : ℂ) * toPolyC q) * (C (s : ℂ) * toPolyC q).map (starRingEnd ℂ)) = 1) ∧
    ((1 - P * P.map (starRingEnd ℂ)).leadingCoeff = (lead : ℂ) → (ratio : ℂ) = L) ∧
    (L ≠ 0 → q.length = P.natDegree) := by
  obtain ⟨re', im', cx', hsel', rfl, rfl⟩ := pqComplete_eq _ _ _ _ _ h
  rw [hsel] at hsel'
  simp only [Option.some.injEq, Prod.mk.injEq] at hsel'
  obtain ⟨rfl, rfl, rfl⟩ := hsel'
  have hre : ∀ r ∈ re.map (fun r : ℚ => (r : ℂ)), (starRingEnd ℂ) r = r := by
    intro r hr
    obtain ⟨a, -, rfl⟩ := List.mem_map.mp hr
    exact conj_ratCast a
  have him : ∀ y ∈ im.map (fun y : ℚ => (y : ℂ)), (starRingEnd ℂ) y = y := by
    intro y hy
    obtain ⟨a, -, rfl⟩ := List.mem_map.mp hy
    exact conj_ratCast a
  have hI : Complex.I * Complex.I = -1 := Complex.I_mul_I
  have hσI : (starRingEnd ℂ) Complex.I = -Complex.I := Complex.conj_I
  refine ⟨?_, ?_, ?_⟩
  · intro s hs
    rw [toPolyC_rootsOfQ]
    exact pq_completion_identity (starRingEnd ℂ) Complex.I hI hσI _ _ _ hre him P L (s : ℂ) hs
      (Complex.conj_ofReal s) hR
  · intro hlead
    have := pq_ratio (starRingEnd ℂ) Complex.I hI hσI _ _ _ hre him P L hR
    rw [lead_den, hlead] at this
    rw [← this]; push_cast; ring
  · intro hL
    have := pq_root_count (starRingEnd ℂ) Complex.I hI hσI _ _ _ hre him P L hL hR
    rw [polyFromRoots_length, rootsOfQ_length]
    simpa using this

end Denote

end QSP

/-
  Proofs for `QSP/Properties/C06g.lean`: the phases of a QSP element are unique up to the sign
  gauge.  If `angP qs = angP ps` (unit pairs, regular interior cosines of `ps`) then
  `qs_k = ε_k • ps_k` with `ε_k = ±1` and `∏ ε_k = 1`; conversely such sign flips do not change
  the element.  The first pair is determined up to a sign by the peeling lemma `DS.peel` with
  `e = 1`; the sign is carried to the next pair.
-/
import QSP.Proofs.DecompRec
open LaurentPolynomial
namespace QSP
namespace DS
variable {R : Type} [CommRing R]

/-! ## scalars -/

/-- the scalar `ε` as the rotation-shaped element `(C ε, 0)`; it is central -/
theorem sc_comm (ε : R) (g : P2 R) : rot (ε, 0) * g = g * rot (ε, 0) := by
  refine P2.ext ?_ ?_
  · simp only [mul_A, rot, map_zero, mul_zero, sub_zero, invert_C]; ring
  · simp only [mul_B, rot, map_zero, mul_zero, zero_mul, add_zero, zero_add, invert_C]; ring

theorem sc_pull (ε : R) (a b : P2 R) : a * (rot (ε, 0) * b) = rot (ε, 0) * (a * b) := by
  rw [← mul_assoc, ← sc_comm, mul_assoc]

theorem sc_mul_rot (ε : R) (p : R × R) : rot (ε, 0) * rot p = rot (ε * p.1, ε * p.2) := by
  rw [rot_mul_rot]; simp [rotMul]

theorem sc_one : rot ((1 : R), (0 : R)) = 1 := by
  refine P2.ext ?_ ?_ <;> simp [rot]

theorem sc_mul_sc (a b : R) : rot (a, (0 : R)) * rot (b, 0) = rot (a * b, 0) := by
  rw [sc_mul_rot]; simp

/-! ## converse: sign flips scale the element by their product -/

/-- the list with the `k`-th pair multiplied by `es[k]` -/
def scalePairs (es : List R) (cs : List (R × R)) : List (R × R) :=
  List.zipWith (fun e c => (e * c.1, e * c.2)) es cs

theorem tailP_scale (es : List R) (cs : List (R × R)) (h : es.length = cs.length) :
    tailP (scalePairs es cs) = rot (es.prod, 0) * tailP cs := by
  induction es generalizing cs with
  | nil => cases cs with
    | nil => simp [scalePairs, tailP_nil, sc_one]
    | cons c cs => simp at h
  | cons e es ih => cases cs with
    | nil => simp at h
    | cons c cs =>
      simp only [List.length_cons, Nat.add_right_cancel_iff] at h
      have := ih cs h
      simp only [scalePairs] at this
      simp only [scalePairs, List.zipWith_cons_cons, tailP_cons, this, List.prod_cons,
        ← sc_mul_sc, ← sc_mul_rot]
      rw [sc_pull e W (rot c), sc_pull es.prod _ (tailP cs), mul_assoc (rot (e, 0)),
        sc_pull e (rot (es.prod, 0))]
      simp only [mul_assoc]

theorem angP_scale (es : List R) (cs : List (R × R)) (h : es.length = cs.length) :
    angP (scalePairs es cs) = rot (es.prod, 0) * angP cs := by
  cases es with
  | nil => cases cs with
    | nil => simp [scalePairs, angP, sc_one]
    | cons c cs => simp at h
  | cons e es => cases cs with
    | nil => simp at h
    | cons c cs =>
      simp only [List.length_cons, Nat.add_right_cancel_iff] at h
      have := tailP_scale es cs h
      simp only [scalePairs] at this
      simp only [scalePairs, List.zipWith_cons_cons, angP, this, List.prod_cons, ← sc_mul_sc,
        ← sc_mul_rot]
      rw [mul_assoc (rot (e, 0)) (rot c), sc_pull es.prod (rot c) (tailP cs)]
      simp only [mul_assoc]


/-! ## the first pair is determined up to a sign -/

theorem win_tail (cs : List (R × R)) : ∀ (u : P2 R) (e : ℤ), Win e u →
    Win (e + cs.length) (u * tailP cs) := by
  induction cs with
  | nil => intro u e h; simpa [tailP_nil] using h
  | cons c cs ih =>
    intro u e h
    have := ih (u * W * rot c) (e + 1) (step_win h c)
    rw [tailP_cons, ← mul_assoc, ← mul_assoc]
    simp only [List.length_cons]
    push_cast
    rw [show e + ((cs.length : ℤ) + 1) = e + 1 + cs.length by ring]
    exact this

theorem coeff_C' (c : R) (k : ℤ) : (C c : R[T;T⁻¹]).coeff k = if 0 = k then c else 0 := by
  have := coeff_C_mul_T c 0 k
  simpa using this

theorem win_rot (c : R × R) : Win 0 (rot c) := by
  intro k hk
  simp only [rot, coeff_C']
  constructor <;> rw [if_neg (by omega)]

theorem win_angP (cs : List (R × R)) (m : ℕ) (h : cs.length = m + 1) : Win m (angP cs) := by
  cases cs with
  | nil => simp at h
  | cons c cs =>
    have := win_tail cs (rot c) 0 (win_rot c)
    simp only [List.length_cons, Nat.add_right_cancel_iff] at h
    rw [zero_add, h] at this
    exact this

theorem conj_rot (c : R × R) : conj (rot c) = rot (conjPair c) := by
  refine P2.ext ?_ ?_ <;> simp [conj, rot, conjPair]

theorem conjW_rot_W (d : R × R) :
    conj (W : P2 R) * rot d * W = ⟨C d.1, C d.2 * T (-2)⟩ := by
  refine P2.ext ?_ ?_
  · simp only [mul_A, mul_B, conj, W, rot, invert_T, invert_C, map_zero, mul_zero, neg_zero,
      zero_mul, sub_zero, add_zero]
    rw [mul_comm (T (-1)), mul_assoc, ← T_add]; simp
  · simp only [mul_A, mul_B, conj, W, rot, invert_T, invert_C, map_zero, mul_zero, neg_zero,
      zero_mul, sub_zero, add_zero, zero_add]
    rw [mul_comm (T (-1)), mul_assoc, ← T_add]; rfl

/-- the first pairs of two unit lists with the same product agree up to a sign `ε = ±1`
    (`hsq`: the only square roots of `1` are `±1`; true in a domain) -/
theorem first_pair (p0 q0 : R × R) (ps' qs' : List (R × R)) (m : ℕ) (hm : 1 ≤ m)
    (hlp : (p0 :: ps').length = m + 1) (hlq : (q0 :: qs').length = m + 1)
    (hup : ∀ c ∈ p0 :: ps', c.1 ^ 2 + c.2 ^ 2 = 1) (huq : ∀ c ∈ q0 :: qs', c.1 ^ 2 + c.2 ^ 2 = 1)
    (hreg : ∀ c ∈ (p0 :: ps').tail.dropLast, ∀ x : R, x * c.1 = 0 → x = 0)
    (hsq : ∀ x : R, x * x = 1 → x = 1 ∨ x = -1)
    (heq : angP (q0 :: qs') = angP (p0 :: ps')) :
    ∃ ε : R, (ε = 1 ∨ ε = -1) ∧ q0 = (ε * p0.1, ε * p0.2) := by
  have hq0 := huq q0 (List.mem_cons_self ..)
  have hp0 := hup p0 (List.mem_cons_self ..)
  have hqs' : qs' ≠ [] := by intro h; rw [h] at hlq; simp at hlq; omega
  have hqs'len : qs'.length = (m - 1) + 1 := by simp at hlq; omega
  -- x = ~(R(q0) W), stored on -1 .. 1
  have hx : conj (rot q0 * W) = X [q0.1, 0] [-q0.2, 0] 1 := by
    refine P2.ext ?_ ?_
    · simp only [conj_mul, mul_A, conj, W, rot, X, invert_T, invert_C, neg_zero, map_zero,
        mul_zero, sub_zero, denL_cons, denL_nil, zero_mul, add_zero, Nat.cast_one, map_mul]
    · simp only [conj_mul, mul_B, conj, W, rot, X, invert_T, invert_C, neg_zero, map_zero,
        zero_mul, add_zero, denL_cons, denL_nil, map_neg, inv_inv', Nat.cast_one]
      ring
  have hn : nrm (rot q0 * W) = 1 := by rw [nrm_mul, nrm_rot_unit hq0, nrm_W, one_mul]
  have hprod : X [q0.1, 0] [-q0.2, 0] 1 * angP (p0 :: ps') = angP qs' := by
    rw [← hx, ← heq, angP, tailP_eq' qs' hqs', ← mul_assoc (rot q0), ← mul_assoc,
      conj_mul_self_of_nrm hn, one_mul]
  have hwin := win_angP qs' (m - 1) hqs'len
  obtain ⟨t, ht⟩ := peel 1 (p0 :: ps') m [q0.1, 0] [-q0.2, 0] hlp hm hup hreg rfl rfl
    (fun k hk => by
      rw [hprod]
      exact hwin k (by push_cast at hk ⊢; omega))
  rw [← hx, headP_succ, headP_zero, mul_one] at ht
  have hnp : nrm (rot p0 * W) = 1 := by rw [nrm_mul, nrm_rot_unit hp0, nrm_W, one_mul]
  have h2 : conj (rot q0 * W) * (rot p0 * W) = rot t := by
    rw [ht, mul_assoc, conj_mul_self_of_nrm hnp, mul_one]
  rw [conj_mul, conj_rot, mul_assoc, ← mul_assoc (rot (conjPair q0)), rot_mul_rot, ← mul_assoc,
    conjW_rot_W] at h2
  have hB := congrArg (fun g : P2 R => g.B.coeff (-2)) h2
  simp only [rot, coeff_C_mul_T, coeff_C'] at hB
  have hd2 : (rotMul (conjPair q0) p0).2 = 0 := by simpa using hB
  have hd := rotMul_normSq (conjPair q0) p0
  simp only [rotMul, conjPair] at hd2 hd
  refine ⟨q0.1 * p0.1 + q0.2 * p0.2, hsq _ ?_, ?_⟩
  · linear_combination hd + (q0.1 ^ 2 + q0.2 ^ 2) * hp0 + hq0
      - (-q0.2 * p0.1 + q0.1 * p0.2) * hd2
  · refine Prod.ext ?_ ?_
    · simp only; linear_combination (-q0.1) * hp0 + p0.2 * hd2
    · simp only; linear_combination (-q0.2) * hp0 - p0.1 * hd2

/-! ## the gauge theorem -/

theorem left_cancel {N Y Z : P2 R} (hn : nrm N = 1) (h : N * Y = N * Z) : Y = Z := by
  have := congrArg (fun g => conj N * g) h
  simpa only [← mul_assoc, conj_mul_self_of_nrm hn, one_mul] using this

theorem sq_of_sign {δ : R} (h : δ = 1 ∨ δ = -1) : δ * δ = 1 := by
  rcases h with rfl | rfl <;> ring

theorem gauge_aux (hsq : ∀ x : R, x * x = 1 → x = 1 ∨ x = -1) :
    ∀ (ps qs : List (R × R)) (δ : R), ps.length = qs.length → ps ≠ [] → (δ = 1 ∨ δ = -1) →
      (∀ c ∈ ps, c.1 ^ 2 + c.2 ^ 2 = 1) → (∀ c ∈ qs, c.1 ^ 2 + c.2 ^ 2 = 1) →
      (∀ c ∈ ps.tail.dropLast, ∀ x : R, x * c.1 = 0 → x = 0) →
      angP qs = rot (δ, 0) * angP ps →
      ∃ es : List R, es.length = ps.length ∧ (∀ e ∈ es, e = 1 ∨ e = -1) ∧ es.prod = δ ∧
        qs = scalePairs es ps := by
  intro ps
  induction ps with
  | nil => intro qs δ _ h; exact absurd rfl h
  | cons p0 ps' ih =>
    intro qs δ hlen _ hδ hup huq hreg heq
    cases qs with
    | nil => simp at hlen
    | cons q0 qs' =>
      have hlen' : ps'.length = qs'.length := by simpa using hlen
      have hδ2 := sq_of_sign hδ
      by_cases hps' : ps' = []
      · subst hps'
        have hqs' : qs' = [] := List.length_eq_zero_iff.mp hlen'.symm
        subst hqs'
        simp only [angP, tailP_nil, mul_one, sc_mul_rot] at heq
        have := congrArg ev1 heq
        rw [ev1_rot, ev1_rot] at this
        exact ⟨[δ], rfl, by simpa using hδ, by simp, by simp [scalePairs, this]⟩
      · have hp0 := hup p0 (List.mem_cons_self ..)
        have hup' : ∀ c ∈ (δ * p0.1, δ * p0.2) :: ps', c.1 ^ 2 + c.2 ^ 2 = 1 := by
          intro c hc
          rcases List.mem_cons.mp hc with rfl | hc
          · simp only; linear_combination (δ * δ) * hp0 + hδ2
          · exact hup c (List.mem_cons_of_mem _ hc)
        have heq' : angP (q0 :: qs') = angP ((δ * p0.1, δ * p0.2) :: ps') := by
          rw [heq, angP, angP, ← sc_mul_rot, mul_assoc]
        have hm : 1 ≤ ps'.length := by
          cases ps' with
          | nil => exact absurd rfl hps'
          | cons _ _ => simp
        obtain ⟨ε, hε, hq0⟩ := first_pair (δ * p0.1, δ * p0.2) q0 ps' qs' ps'.length hm
          (by simp) (by simp [hlen']) hup' huq (by simpa using hreg) hsq heq'
        have hε2 := sq_of_sign hε
        have hqs' : qs' ≠ [] := by
          intro h; rw [h] at hlen'; simp at hlen'; exact hps' hlen'
        -- the sign is carried to the next pair
        have hnext : angP qs' = rot (ε, 0) * angP ps' := by
          have hN : nrm (rot (δ * p0.1, δ * p0.2) * W) = 1 := by
            rw [nrm_mul, nrm_rot_unit (hup' _ (List.mem_cons_self ..)), nrm_W, one_mul]
          have h1 : rot q0 = rot (ε, 0) * rot (δ * p0.1, δ * p0.2) := by rw [sc_mul_rot, hq0]
          have h2 := heq'
          rw [angP, angP, tailP_eq' qs' hqs', tailP_eq' ps' hps', h1] at h2
          have h3 := congrArg (fun g => rot (ε, 0) * g) h2
          simp only [← mul_assoc, sc_mul_sc, hε2, sc_one, one_mul] at h3
          apply left_cancel hN
          rw [h3]
          simp only [mul_assoc]
          rw [sc_pull ε W, sc_pull ε (rot (δ * p0.1, δ * p0.2))]
        have hreg' : ∀ c ∈ ps'.tail.dropLast, ∀ x : R, x * c.1 = 0 → x = 0 := by
          intro c hc
          refine hreg c ?_
          simp only [List.tail_cons]
          cases ps' with
          | nil => simp at hc
          | cons p1 pt =>
            cases pt with
            | nil => simp at hc
            | cons p2 pu =>
              rw [List.dropLast_cons_of_ne_nil (by simp)]
              exact List.mem_cons_of_mem _ (by simpa using hc)
        obtain ⟨es', hl, hs, hpr, hqs⟩ := ih qs' ε hlen' hps' hε
          (fun c hc => hup c (List.mem_cons_of_mem _ hc))
          (fun c hc => huq c (List.mem_cons_of_mem _ hc)) hreg' hnext
        refine ⟨(ε * δ) :: es', by simp [hl], ?_, ?_, ?_⟩
        · intro e he
          rcases List.mem_cons.mp he with rfl | he
          · rcases hε with rfl | rfl <;> rcases hδ with rfl | rfl <;> simp
          · exact hs e he
        · rw [List.prod_cons, hpr]; linear_combination δ * hε2
        · rw [hqs, hq0]
          simp only [scalePairs, List.zipWith_cons_cons, mul_assoc]

/-- GAUGE: two lists of unit pairs of the same length with the same product, the first with
    regular interior cosines, differ by signs `ε_k = ±1` with `∏ ε_k = 1` -/
theorem gauge (hsq : ∀ x : R, x * x = 1 → x = 1 ∨ x = -1) (ps qs : List (R × R))
    (hlen : ps.length = qs.length) (hne : ps ≠ [])
    (hup : ∀ c ∈ ps, c.1 ^ 2 + c.2 ^ 2 = 1) (huq : ∀ c ∈ qs, c.1 ^ 2 + c.2 ^ 2 = 1)
    (hreg : ∀ c ∈ ps.tail.dropLast, ∀ x : R, x * c.1 = 0 → x = 0)
    (heq : angP qs = angP ps) :
    ∃ es : List R, es.length = ps.length ∧ (∀ e ∈ es, e = 1 ∨ e = -1) ∧ es.prod = 1 ∧
      qs = scalePairs es ps :=
  gauge_aux hsq ps qs 1 hlen hne (Or.inl rfl) hup huq hreg (by rw [heq, sc_one, one_mul])

/-! ## the model level -/

theorem length_scalePairs (es : List R) (cs : List (R × R)) (h : es.length = cs.length) :
    (scalePairs es cs).length = cs.length := by
  simp [scalePairs, h]

/-- converse: sign flips (any scalars) of product `1` do not change the stored element -/
theorem fromAngles_scale (es : List R) (ps : List (R × R)) (n : ℕ) (hlen : es.length = ps.length)
    (hn : ps.length = n + 1) (hprod : es.prod = 1) :
    LA.fromAngles (scalePairs es ps) = LA.fromAngles ps := by
  obtain ⟨g, hg, dg, rg⟩ := fromAngles_spec ps n hn
  obtain ⟨g', hg', dg', rg'⟩ := fromAngles_spec (scalePairs es ps) n
    (by rw [length_scalePairs es ps hlen, hn])
  have e : pden g' = pden g := by rw [dg', angP_scale es ps hlen, hprod, sc_one, one_mul, dg]
  rw [hg, hg', Rng_ext rg' rg e]

/-- gauge theorem for the model: same denotation suffices -/
theorem fromAngles_gauge (hsq : ∀ x : R, x * x = 1 → x = 1 ∨ x = -1) (ps qs : List (R × R)) (n : ℕ)
    (hlp : ps.length = n + 1) (hlq : qs.length = n + 1)
    (hup : ∀ c ∈ ps, c.1 ^ 2 + c.2 ^ 2 = 1) (huq : ∀ c ∈ qs, c.1 ^ 2 + c.2 ^ 2 = 1)
    (hreg : ∀ c ∈ ps.tail.dropLast, ∀ x : R, x * c.1 = 0 → x = 0) (gp gq : LA R)
    (hp : LA.fromAngles ps = .ok gp) (hq : LA.fromAngles qs = .ok gq)
    (hI : den gq.I = den gp.I) (hX : den gq.X = den gp.X) :
    ∃ es : List R, es.length = n + 1 ∧ (∀ e ∈ es, e = 1 ∨ e = -1) ∧ es.prod = 1 ∧
      qs = scalePairs es ps := by
  obtain ⟨g, hg, dg, -⟩ := fromAngles_spec ps n hlp
  obtain ⟨g', hg', dg', -⟩ := fromAngles_spec qs n hlq
  cases ok_inj hp hg
  cases ok_inj hq hg'
  have e : angP qs = angP ps := by rw [← dg, ← dg']; exact P2.ext hI hX
  obtain ⟨es, h1, h2, h3, h4⟩ := gauge hsq ps qs (by rw [hlp, hlq])
    (by intro h; rw [h] at hlp; simp at hlp) hup huq hreg e
  exact ⟨es, by rw [h1, hlp], h2, h3, h4⟩

/-- every exact run of `angseq` whose returned pairs are unit returns the original pairs up to
    the sign gauge -/
theorem exact_gauge (hsq : ∀ x : R, x * x = 1 → x = 1 ∨ x = -1) {g : LA R} {out : List (R × R)}
    (h : ExactAngSeq g out) (n : ℕ) (ps : List (R × R)) (hlen : ps.length = n + 1)
    (hunit : ∀ c ∈ ps, c.1 ^ 2 + c.2 ^ 2 = 1)
    (hreg : ∀ c ∈ ps.tail.dropLast, ∀ x : R, x * c.1 = 0 → x = 0)
    (hg : LA.fromAngles ps = .ok g) (hout : ∀ c ∈ out, c.1 ^ 2 + c.2 ^ 2 = 1) :
    ∃ es : List R, es.length = n + 1 ∧ (∀ e ∈ es, e = 1 ∨ e = -1) ∧ es.prod = 1 ∧
      out = scalePairs es ps := by
  obtain ⟨ho, hl⟩ := exact_sound h n ps hlen hunit hreg hg
  exact fromAngles_gauge hsq ps out n hlen hl hunit hout hreg g g hg ho rfl rfl

theorem hsq_of_domain {K : Type} [CommRing K] [NoZeroDivisors K] (x : K) (h : x * x = 1) :
    x = 1 ∨ x = -1 := by
  have : (x - 1) * (x + 1) = 0 := by linear_combination h
  rcases mul_eq_zero.mp this with h | h
  · left; linear_combination h
  · right; linear_combination h

end DS
end QSP

/-
  The mathematical definition of the QSP response (properties C10, C01, C02, ...):
  2×2 complex matrices, the documented signal and phase operators of both conventions,
  the ordered product and the measurement bracket.  These are the definitions every
  validator theorem refers to ("computed from the mathematical definition, not by the
  library").  Nothing here is executable.
-/
import Mathlib.Analysis.SpecialFunctions.Trigonometric.Basic
import Mathlib.Analysis.SpecialFunctions.Sqrt
import Mathlib.LinearAlgebra.Matrix.Notation
import Mathlib.Analysis.Complex.Exponential
open Matrix Complex
namespace QSP

abbrev M22 := Matrix (Fin 2) (Fin 2) ℂ

/-- X-rotation signal  W(a) = [[a, i√(1-a²)], [i√(1-a²), a]] -/
noncomputable def WxMat (a : ℝ) : M22 :=
  !![(a : ℂ), I * ((Real.sqrt (1 - a ^ 2) : ℝ) : ℂ); I * ((Real.sqrt (1 - a ^ 2) : ℝ) : ℂ), (a : ℂ)]

/-- Z phase  e^{iφZ} = diag(e^{iφ}, e^{-iφ}) -/
noncomputable def PzMat (φ : ℝ) : M22 := !![exp ((φ : ℂ) * I), 0; 0, exp (-((φ : ℂ) * I))]

/-- Hadamard gate -/
noncomputable def HadMat : M22 := (((1 / Real.sqrt 2 : ℝ)) : ℂ) • !![1, 1; 1, -1]

inductive SigOp where
  | Wx | Wz
deriving DecidableEq, Repr

inductive Meas where
  | x | z
deriving DecidableEq, Repr

def SigOp.name : SigOp → String
  | .Wx => "Wx"
  | .Wz => "Wz"

def Meas.name : Meas → String
  | .x => "x"
  | .z => "z"

/-- the signal operator's own basis -/
def SigOp.defaultMeas : SigOp → Meas
  | .Wx => .x
  | .Wz => .z

/-- signal operator: Wx is the X rotation, Wz its Hadamard conjugate -/
noncomputable def sigDef : SigOp → ℝ → M22
  | .Wx, a => WxMat a
  | .Wz, a => HadMat * WxMat a * HadMat

/-- phase operator: Z phases for Wx, their Hadamard conjugates for Wz -/
noncomputable def phaseDef : SigOp → ℝ → M22
  | .Wx, φ => PzMat φ
  | .Wz, φ => HadMat * PzMat φ * HadMat

/-- `U = e^{iφ₀S} ∏_k W(a) e^{iφ_k S}` as the left fold the documentation describes -/
noncomputable def Udef (so : SigOp) (a : ℝ) : List ℝ → M22
  | [] => 1
  | φ :: φs => φs.foldl (fun U ψ => U * sigDef so a * phaseDef so ψ) (phaseDef so φ)

/-- measurement state: `|0>` for z, `|+>` for x -/
noncomputable def ketDef : Meas → (Fin 2 → ℂ)
  | .z => ![1, 0]
  | .x => (((1 / Real.sqrt 2 : ℝ)) : ℂ) • ![1, 1]

/-- the response `<m| U |m>` -/
noncomputable def respDef (so : SigOp) (me : Meas) (φs : List ℝ) (a : ℝ) : ℂ :=
  ketDef me ⬝ᵥ (Udef so a φs *ᵥ ketDef me)

end QSP

/-
  Property C12 (Jacobian clause), algorithm level, part 5 — the assembly of `gen_jacobian()`
  (`JacImpl.jacAssemble`, `QSP/Model/JacImpl.lean`): with the exact DFT cosines, applied to the
  samples at `θ_n = n·π/(2d)`, `n = 0 … d`, of functions that are cosine sums
  `Σ_{k<d} a_k cos((2k+par)θ)`, the mirror/sign extension, the real DFT, the doubling, the
  division by `2·dd` and the slicing return exactly the coefficients `a_i`.
-/
import QSP.Proofs.JacCoeff
import QSP.Proofs.JacImpl

set_option linter.unusedSimpArgs false

open Finset
namespace QSP
namespace JacImpl

/-- the sample angles `2π m / (4d) = m·π/(2d)` -/
noncomputable def asmNode (d m : ℕ) : ℝ := 2 * Real.pi * (m : ℝ) / ((4 * d : ℕ) : ℝ)

/-- `Σ_{k<d} a_k cos((2k+par) θ)` -/
noncomputable def cosSum (par d : ℕ) (a : ℕ → ℝ) (θ : ℝ) : ℝ :=
  ∑ k ∈ range d, a k * Real.cos (((2 * k + par : ℕ) : ℝ) * θ)

theorem cosGenR_eq_cosSum (par d : ℕ) (c : List ℝ) (θ : ℝ) :
    cosGenR par d c θ = cosSum par d (fun k => c.getD k 0) θ := rfl

/-- the sign `(−1)^parity` as the model computes it -/
noncomputable def sgnR (par : ℕ) : ℝ := if par % 2 = 0 then 1 else -1

theorem sgnR_mul_self (par : ℕ) : sgnR par * sgnR par = 1 := by
  unfold sgnR; split_ifs <;> norm_num

theorem cosSum_pi_sub (par d : ℕ) (a : ℕ → ℝ) (θ : ℝ) :
    cosSum par d a (Real.pi - θ) = sgnR par * cosSum par d a θ := by
  unfold cosSum
  rw [Finset.mul_sum]
  refine Finset.sum_congr rfl fun k _ => ?_
  have h1 : ((2 * k + par : ℕ) : ℝ) * (Real.pi - θ)
      = -(((2 * k + par : ℕ) : ℝ) * θ - ((2 * k + par : ℕ) : ℝ) * Real.pi) := by ring
  rw [h1, Real.cos_neg, Real.cos_sub_nat_mul_pi]
  have h2 : ((-1 : ℝ)) ^ (2 * k + par) = sgnR par := by
    rw [pow_add, pow_mul, neg_one_sq, one_pow, one_mul]
    unfold sgnR
    split_ifs with h
    · exact Even.neg_one_pow (Nat.even_iff.mpr h)
    · exact Odd.neg_one_pow (Nat.odd_iff.mpr (by omega))
  rw [h2]; ring

theorem cosSum_two_pi_sub (par d : ℕ) (a : ℕ → ℝ) (θ : ℝ) :
    cosSum par d a (2 * Real.pi - θ) = cosSum par d a θ := by
  unfold cosSum
  refine Finset.sum_congr rfl fun k _ => ?_
  have h1 : ((2 * k + par : ℕ) : ℝ) * (2 * Real.pi - θ)
      = ((2 * k + par : ℕ) : ℝ) * (2 * Real.pi) - ((2 * k + par : ℕ) : ℝ) * θ := by ring
  rw [h1, Real.cos_nat_mul_two_pi_sub]

theorem asmNode_pi_sub (d j : ℕ) (hd : 0 < d) (hj : j ≤ 2 * d) :
    asmNode d (2 * d - j) = Real.pi - asmNode d j := by
  unfold asmNode
  have hd' : (d : ℝ) ≠ 0 := by exact_mod_cast hd.ne'
  rw [Nat.cast_sub hj]
  push_cast
  field_simp
  ring

theorem asmNode_two_pi_sub (d m : ℕ) (hd : 0 < d) (hm : m ≤ 4 * d) :
    asmNode d (4 * d - m) = 2 * Real.pi - asmNode d m := by
  unfold asmNode
  have hd' : (d : ℝ) ≠ 0 := by exact_mod_cast hd.ne'
  rw [Nat.cast_sub hm]
  push_cast
  field_simp

theorem getD_map_mul (s : ℝ) (l : List ℝ) (c : ℕ) :
    (l.map (s * ·)).getD c 0 = s * l.getD c 0 := by
  by_cases h : c < l.length
  · rw [List.getD_eq_getElem _ _ (by simpa using h), List.getD_eq_getElem _ _ h, List.getElem_map]
  · rw [List.getD_eq_default _ _ (by simpa using h), List.getD_eq_default _ _ (by simpa using h),
      mul_zero]

section ext
variable (par d : ℕ) (hd : 0 < d) (a : ℕ → ℝ) (M : List (List ℝ)) (c : ℕ)
  (hM : ∀ n ≤ d, (M.getD n []).getD c 0 = cosSum par d a (asmNode d n))
include hd hM

theorem extHalf_getD (j : ℕ) (hj : j ≤ 2 * d) :
    (extHalf par d M j).getD c 0 = cosSum par d a (asmNode d j) := by
  unfold extHalf
  simp only
  by_cases h1 : j ≤ d
  · rw [if_pos h1]; exact hM j h1
  · rw [if_neg h1]
    change (List.map (sgnR par * ·) (M.getD (2 * d - j) [])).getD c 0 = _
    rw [getD_map_mul, hM _ (by omega), asmNode_pi_sub d j hd hj, cosSum_pi_sub, ← mul_assoc,
      sgnR_mul_self, one_mul]

theorem extRow_getD (m : ℕ) (hm : m < 4 * d) :
    (extRow par d M m).getD c 0 = cosSum par d a (asmNode d m) := by
  unfold extRow
  split_ifs with h1
  · exact extHalf_getD par d hd a M c hM m h1
  · rw [extHalf_getD par d hd a M c hM _ (by omega), asmNode_two_pi_sub d m hd (by omega),
      cosSum_two_pi_sub]

end ext

theorem list_sum_range_map (f : ℕ → ℝ) (n : ℕ) :
    ((List.range n).map f).sum = ∑ i ∈ range n, f i := by
  induction n with
  | zero => simp
  | succ n ih => simp [List.range_succ, Finset.sum_range_succ, ih]

theorem cos_tab_mod (N : ℕ) (hN : 0 < N) (x : ℕ) :
    Real.cos (2 * Real.pi * ((x % N : ℕ) : ℝ) / (N : ℝ)) = Real.cos (2 * Real.pi * (x : ℝ) / (N : ℝ)) := by
  have hN' : (N : ℝ) ≠ 0 := by exact_mod_cast hN.ne'
  have hx : ((x % N : ℕ) : ℝ) = (x : ℝ) - (N : ℝ) * ((x / N : ℕ) : ℝ) := by
    have := Nat.div_add_mod x N
    have h2 : ((N * (x / N) + x % N : ℕ) : ℝ) = (x : ℝ) := by rw [this]
    push_cast at h2
    linarith
  have e : 2 * Real.pi * ((x % N : ℕ) : ℝ) / (N : ℝ)
      = 2 * Real.pi * (x : ℝ) / (N : ℝ) - ((x / N : ℕ) : ℝ) * (2 * Real.pi) := by
    rw [hx]; field_simp
  rw [e, Real.cos_sub_nat_mul_two_pi]

/-- the real part of the DFT as a finite sum of cosines at the nodes -/
theorem dftRe_eq (d : ℕ) (hd : 0 < d) (cosTab : List ℝ)
    (hcos : ∀ j < 4 * d, cosTab.getD j 0 = Real.cos (2 * Real.pi * (j : ℝ) / ((4 * d : ℕ) : ℝ)))
    (row : ℕ → List ℝ) (r c : ℕ) :
    dftRe cosTab (4 * d) row r c
      = ∑ m ∈ range (4 * d), (row m).getD c 0 * Real.cos ((r : ℝ) * asmNode d m) := by
  unfold dftRe
  rw [list_sum_range_map]
  refine Finset.sum_congr rfl fun m _ => ?_
  rw [hcos _ (Nat.mod_lt _ (by omega)), cos_tab_mod _ (by omega), mul_comm]
  congr 2
  unfold asmNode
  push_cast
  ring

/-- discrete orthogonality at the `4d` nodes -/
theorem sum_cosSum_cos (par d : ℕ) (hpar : par ≤ 1) (a : ℕ → ℝ) (i : ℕ) (hi : i < d) :
    ∑ m ∈ range (4 * d), cosSum par d a (asmNode d m)
        * Real.cos (((2 * i + par : ℕ) : ℝ) * asmNode d m)
      = a i * (if 2 * i + par = 0 then ((4 * d : ℕ) : ℝ) else ((4 * d : ℕ) : ℝ) / 2) := by
  unfold cosSum
  have e1 : ∑ m ∈ range (4 * d),
        (∑ k ∈ range d, a k * Real.cos (((2 * k + par : ℕ) : ℝ) * asmNode d m))
          * Real.cos (((2 * i + par : ℕ) : ℝ) * asmNode d m)
      = ∑ k ∈ range d, a k * ∑ m ∈ range (4 * d),
          Real.cos (((2 * k + par : ℕ) : ℝ) * asmNode d m)
            * Real.cos (((2 * i + par : ℕ) : ℝ) * asmNode d m) := by
    simp only [Finset.sum_mul, Finset.mul_sum]
    rw [Finset.sum_comm]
    refine Finset.sum_congr rfl fun k _ => Finset.sum_congr rfl fun r _ => ?_
    ring
  rw [e1]
  have e2 : ∀ k ∈ range d, a k * ∑ m ∈ range (4 * d),
          Real.cos (((2 * k + par : ℕ) : ℝ) * asmNode d m)
            * Real.cos (((2 * i + par : ℕ) : ℝ) * asmNode d m)
      = a k * (if 2 * k + par = 2 * i + par then
          (if 2 * k + par = 0 then ((4 * d : ℕ) : ℝ) else ((4 * d : ℕ) : ℝ) / 2) else 0) := by
    intro k hk
    have hk' := Finset.mem_range.mp hk
    unfold asmNode
    rw [sum_cos_cos_nodes (4 * d) (2 * k + par) (2 * i + par) (by omega)]
  rw [Finset.sum_congr rfl e2, Finset.sum_eq_single_of_mem i (Finset.mem_range.mpr hi)]
  · rw [if_pos rfl]
  · intro k _ hki
    rw [if_neg (by omega), mul_zero]

/-- one entry of the assembled matrix is the coefficient -/
theorem asmEntry_eq (par d : ℕ) (hpar : par ≤ 1) (hd : 0 < d) (cosTab : List ℝ)
    (hcos : ∀ j < 4 * d, cosTab.getD j 0 = Real.cos (2 * Real.pi * (j : ℝ) / ((4 * d : ℕ) : ℝ)))
    (a : ℕ → ℝ) (M : List (List ℝ)) (c : ℕ)
    (hM : ∀ n ≤ d, (M.getD n []).getD c 0 = cosSum par d a (asmNode d n)) (i : ℕ) (hi : i < d) :
    asmEntry par d cosTab ((4 * d : ℕ) : ℝ) M (par + 2 * i) c = a i := by
  unfold asmEntry
  simp only
  rw [dftRe_eq d hd cosTab hcos]
  have e : ∑ m ∈ range (4 * d), (extRow par d M m).getD c 0
        * Real.cos (((par + 2 * i : ℕ) : ℝ) * asmNode d m)
      = ∑ m ∈ range (4 * d), cosSum par d a (asmNode d m)
        * Real.cos (((2 * i + par : ℕ) : ℝ) * asmNode d m) := by
    refine Finset.sum_congr rfl fun m hm => ?_
    rw [extRow_getD par d hd a M c hM m (Finset.mem_range.mp hm), Nat.add_comm par]
  rw [e, sum_cosSum_cos par d hpar a i hi]
  have hN : (((4 * d : ℕ)) : ℝ) ≠ 0 := by
    have : (4 * d : ℕ) ≠ 0 := by omega
    exact_mod_cast this
  by_cases h0 : 2 * i + par = 0
  · have h0' : ¬ (1 ≤ par + 2 * i ∧ par + 2 * i < 2 * d) := by omega
    rw [if_neg h0', if_pos h0]
    field_simp
  · have h0' : 1 ≤ par + 2 * i ∧ par + 2 * i < 2 * d := by omega
    rw [if_pos h0', if_neg h0]
    unfold two
    field_simp
    ring

/-- `gen_jacobian()` on exact samples of cosine sums returns their coefficients -/
theorem jacAssemble_spec (par d : ℕ) (hpar : par ≤ 1) (hd : 0 < d) (cosTab : List ℝ)
    (hcos : ∀ j < 4 * d, cosTab.getD j 0 = Real.cos (2 * Real.pi * (j : ℝ) / ((4 * d : ℕ) : ℝ)))
    (a : ℕ → ℕ → ℝ) (M : List (List ℝ))
    (hM : ∀ c ≤ d, ∀ n ≤ d, (M.getD n []).getD c 0 = cosSum par d (a c) (asmNode d n)) :
    jacAssemble par d cosTab ((4 * d : ℕ) : ℝ) M
      = ((List.range d).map fun i => a d i,
         (List.range d).map fun i => (List.range d).map fun c => a c i) := by
  unfold jacAssemble
  have hsel : (((List.range d).map fun i => par + 2 * i).filter (· < 2 * d))
      = (List.range d).map fun i => par + 2 * i := by
    rw [List.filter_eq_self]
    intro r hr
    obtain ⟨i, hi, rfl⟩ := List.mem_map.mp hr
    have := List.mem_range.mp hi
    simp only [decide_eq_true_eq]
    omega
  simp only [hsel, List.map_map]
  refine Prod.ext ?_ ?_
  · refine List.map_congr_left fun i hi => ?_
    exact asmEntry_eq par d hpar hd cosTab hcos (a d) M d (hM d le_rfl) i (List.mem_range.mp hi)
  · refine List.map_congr_left fun i hi => ?_
    refine List.map_congr_left fun c hc => ?_
    have hc' := List.mem_range.mp hc
    exact asmEntry_eq par d hpar hd cosTab hcos (a c) M c (hM c (by omega)) i (List.mem_range.mp hi)

/-! ## the two halves together: recurrences at the nodes, then the assembly -/

theorem jacImplPt_respIm (par : ℕ) (hpar : par ≤ 1) (red : List ℝ) (hne : red ≠ []) (θ : ℝ) :
    (jacImplPt par (pairs2Of red) (Real.cos θ) (Real.sin θ)).getD red.length 0
      = respIm par red θ := jacImplPt_last_brG par hpar red hne θ

theorem jacImplPt_dRespIm (par : ℕ) (hpar : par ≤ 1) (red : List ℝ) (θ : ℝ) (k : ℕ)
    (hk : k < red.length) :
    (jacImplPt par (pairs2Of red) (Real.cos θ) (Real.sin θ)).getD k 0 = dRespIm par red k θ := by
  rw [jacImplPt_col_brG par hpar red θ k hk]
  unfold dRespIm
  rw [← jacD_eq_jacDPairs]

/-- the matrix `gen_jacobian()` samples: row `n` is `gen_poly_jacobian_components(cos θ_n)`,
    `θ_n = n·π/(2d)`, `n = 0 … d` -/
noncomputable def sampleMat (par : ℕ) (red : List ℝ) : List (List ℝ) :=
  (List.range (red.length + 1)).map fun n =>
    jacImplPt par (pairs2Of red) (Real.cos (asmNode red.length n)) (Real.sin (asmNode red.length n))

/-- `gen_jacobian()` in exact arithmetic: recurrences at the nodes followed by the assembly give
    the Chebyshev coefficients of the value and of every partial derivative -/
theorem jacAssemble_sampleMat (par : ℕ) (hpar : par ≤ 1) (red : List ℝ) (hne : red ≠ [])
    (cosTab : List ℝ)
    (hcos : ∀ j < 4 * red.length,
      cosTab.getD j 0 = Real.cos (2 * Real.pi * (j : ℝ) / ((4 * red.length : ℕ) : ℝ))) :
    jacAssemble par red.length cosTab ((4 * red.length : ℕ) : ℝ) (sampleMat par red)
      = ((List.range red.length).map fun i => (chebCoefs par red).getD i 0,
         (List.range red.length).map fun i =>
           (List.range red.length).map fun c => (dCoefs par red c).getD i 0) := by
  have hd : 0 < red.length := List.length_pos_iff.mpr hne
  let a : ℕ → ℕ → ℝ := fun c k =>
    if c < red.length then (dCoefs par red c).getD k 0 else (chebCoefs par red).getD k 0
  have hM : ∀ c ≤ red.length, ∀ n ≤ red.length,
      ((sampleMat par red).getD n []).getD c 0 = cosSum par red.length (a c) (asmNode red.length n) := by
    intro c hc n hn
    have hrow : (sampleMat par red).getD n [] = jacImplPt par (pairs2Of red)
        (Real.cos (asmNode red.length n)) (Real.sin (asmNode red.length n)) := by
      unfold sampleMat
      rw [List.getD_eq_getElem _ _ (by simp; omega), List.getElem_map, List.getElem_range]
    rw [hrow]
    by_cases hlt : c < red.length
    · rw [jacImplPt_dRespIm par hpar red _ c hlt, dRespIm_eq_cosGenR par hpar red hne,
        cosGenR_eq_cosSum]
      simp only [a, if_pos hlt]
    · have hceq : c = red.length := by omega
      subst hceq
      rw [jacImplPt_respIm par hpar red hne, respIm_eq_cosGenR par hpar red hne, cosGenR_eq_cosSum]
      simp only [a, if_neg hlt]
  rw [jacAssemble_spec par red.length hpar hd cosTab hcos a (sampleMat par red) hM]
  refine Prod.ext ?_ ?_
  · simp only [a, lt_irrefl, if_false]
  · refine List.map_congr_left fun i _ => ?_
    refine List.map_congr_left fun c hc => ?_
    simp only [a, if_pos (List.mem_range.mp hc)]

end JacImpl
end QSP

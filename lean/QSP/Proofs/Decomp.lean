/-
  Proofs for `QSP/Model/Decomp.lean` — the list glue of `pyqsp/decomposition.py :: angseq`,
  `a[:-1] + [a[-1] + b[0]] + b[1:]`, is right for EVERY pair of phase lists:

  * list level: characterisation on `as ++ [x]`, `y :: ys`; the literal Python expression;
    length; compatibility with `List.map`; associativity (the glue is a monoid operation with
    unit `[]` as soon as the junction function is associative; for a middle list with at least
    two entries no algebra is needed at all);
  * matrix level: `rotC` is multiplicative for `rotMul`, hence `UcircPairs θ` and `Ucirc θ` turn
    the glue into the matrix product;
  * the executable model: `LA.fromAngles` on the glued rational pairs evaluates, at every point
    of the circle, to the product of the two evaluated elements;
  * the recursion of `angseq` with an exact oracle (`AngSeq`).
-/
import QSP.Model.Decomp
import QSP.Proofs.Jacobian

open Matrix Complex
namespace QSP

/-! ## 1. the glue as a list operation -/

section glue
variable {α β : Type} (f : α → α → α)

@[simp] theorem mergeWith_nil_left (b : List α) : mergeWith f [] b = b := rfl

@[simp] theorem mergeWith_nil_right (a : List α) : mergeWith f a [] = a := by
  unfold mergeWith
  cases h : a.getLast? with
  | none => exact (List.getLast?_eq_none_iff.mp h).symm
  | some x => rfl

/-- the defining equation on non-empty lists, written with the last entry of `a` and the first
    entry of `b` exposed -/
theorem mergeWith_concat_cons (as : List α) (x y : α) (ys : List α) :
    mergeWith f (as ++ [x]) (y :: ys) = as ++ f x y :: ys := by
  simp [mergeWith]

theorem exists_concat_of_ne_nil {l : List α} (h : l ≠ []) : ∃ as x, l = as ++ [x] :=
  ⟨l.dropLast, l.getLast h, (List.dropLast_concat_getLast h).symm⟩

theorem exists_cons_of_ne_nil' {l : List α} (h : l ≠ []) : ∃ y ys, l = y :: ys := by
  cases l with
  | nil => exact absurd rfl h
  | cons y ys => exact ⟨y, ys, rfl⟩

/-- the model IS the Python expression `a[:-1] + [f(a[-1], b[0])] + b[1:]` on non-empty lists -/
theorem mergeWith_eq_python (a b : List α) (ha : a ≠ []) (hb : b ≠ []) :
    mergeWith f a b = a.dropLast ++ [f (a.getLast ha) (b.head hb)] ++ b.tail := by
  obtain ⟨y, ys, rfl⟩ := exists_cons_of_ne_nil' hb
  have h := mergeWith_concat_cons f a.dropLast (a.getLast ha) y ys
  rw [List.dropLast_concat_getLast ha] at h
  rw [h]
  simp

/-- the glued list is empty only if both lists are -/
theorem mergeWith_eq_nil_iff (a b : List α) : mergeWith f a b = [] ↔ a = [] ∧ b = [] := by
  by_cases ha : a = []
  · subst ha; simp
  by_cases hb : b = []
  · subst hb; simp
  obtain ⟨as, x, rfl⟩ := exists_concat_of_ne_nil ha
  obtain ⟨y, ys, rfl⟩ := exists_cons_of_ne_nil' hb
  rw [mergeWith_concat_cons]
  simp

theorem mergeWith_ne_nil_left (a b : List α) (ha : a ≠ []) : mergeWith f a b ≠ [] :=
  fun h => ha ((mergeWith_eq_nil_iff f a b).mp h).1

/-- one entry is saved at the junction: with `n_a + 1`, `n_b + 1` entries (degrees `n_a`, `n_b`)
    the glued list has `n_a + n_b + 1` entries — degrees add -/
theorem length_mergeWith (a b : List α) (ha : a ≠ []) (hb : b ≠ []) :
    (mergeWith f a b).length + 1 = a.length + b.length := by
  obtain ⟨as, x, rfl⟩ := exists_concat_of_ne_nil ha
  obtain ⟨y, ys, rfl⟩ := exists_cons_of_ne_nil' hb
  rw [mergeWith_concat_cons]
  simp
  omega

/-- the glue commutes with any map that carries one junction function to the other -/
theorem map_mergeWith (g : α → β) (f' : β → β → β) (hg : ∀ x y, g (f x y) = f' (g x) (g y))
    (a b : List α) : (mergeWith f a b).map g = mergeWith f' (a.map g) (b.map g) := by
  by_cases ha : a = []
  · subst ha; simp
  by_cases hb : b = []
  · subst hb; simp
  obtain ⟨as, x, rfl⟩ := exists_concat_of_ne_nil ha
  obtain ⟨y, ys, rfl⟩ := exists_cons_of_ne_nil' hb
  rw [mergeWith_concat_cons, List.map_append, List.map_cons, List.map_append, List.map_cons,
    List.map_cons, List.map_nil, mergeWith_concat_cons, hg]

/-- associativity, NO algebra needed: the middle list has at least two entries, so the two
    junctions do not interact -/
theorem mergeWith_assoc_of_two_le (a b c : List α) (hb : 2 ≤ b.length) :
    mergeWith f (mergeWith f a b) c = mergeWith f a (mergeWith f b c) := by
  by_cases ha : a = []
  · subst ha; simp
  by_cases hc : c = []
  · subst hc; simp
  obtain ⟨as, x, rfl⟩ := exists_concat_of_ne_nil ha
  obtain ⟨z, zs, rfl⟩ := exists_cons_of_ne_nil' hc
  cases b with
  | nil => simp at hb
  | cons y t =>
    have ht : t ≠ [] := by
      intro h; subst h; simp at hb
    obtain ⟨ys, y', rfl⟩ := exists_concat_of_ne_nil ht
    have e1 : as ++ f x y :: (ys ++ [y']) = (as ++ f x y :: ys) ++ [y'] := by simp
    have e2 : y :: (ys ++ [y']) = (y :: ys) ++ [y'] := by simp
    rw [mergeWith_concat_cons, e1, mergeWith_concat_cons, e2, mergeWith_concat_cons,
      List.cons_append, mergeWith_concat_cons]
    simp

/-- associativity for ALL lists (empty ones included) when the junction function is
    associative: the glue is a monoid operation with unit `[]` -/
theorem mergeWith_assoc (hf : ∀ x y z, f (f x y) z = f x (f y z)) (a b c : List α) :
    mergeWith f (mergeWith f a b) c = mergeWith f a (mergeWith f b c) := by
  by_cases ha : a = []
  · subst ha; simp
  by_cases hc : c = []
  · subst hc; simp
  cases b with
  | nil => simp
  | cons y t =>
    cases t with
    | nil =>
      obtain ⟨as, x, rfl⟩ := exists_concat_of_ne_nil ha
      obtain ⟨z, zs, rfl⟩ := exists_cons_of_ne_nil' hc
      have e : mergeWith f [y] (z :: zs) = f y z :: zs := mergeWith_concat_cons f [] y z zs
      rw [mergeWith_concat_cons, mergeWith_concat_cons, e, mergeWith_concat_cons, hf]
    | cons y' t' => exact mergeWith_assoc_of_two_le f a (y :: y' :: t') c (by simp)

/-- without associativity of the junction function the statement is FALSE for a one-entry
    middle list (subtraction on `ℤ`; in the code the junction is floating-point `+`, which is
    not associative either — there the two sides differ by rounding only) -/
theorem mergeWith_not_assoc :
    mergeWith (fun x y : Int => x - y) (mergeWith (fun x y : Int => x - y) [1] [1]) [1]
      ≠ mergeWith (fun x y : Int => x - y) [1] (mergeWith (fun x y : Int => x - y) [1] [1]) := by
  decide

end glue

/-! ## 2. `mergeAngles`, `mergePairs` -/

section angles
variable {α : Type} [Add α]

@[simp] theorem mergeAngles_nil_left (b : List α) : mergeAngles [] b = b := rfl

@[simp] theorem mergeAngles_nil_right (a : List α) : mergeAngles a [] = a :=
  mergeWith_nil_right _ a

theorem mergeAngles_concat_cons (as : List α) (x y : α) (ys : List α) :
    mergeAngles (as ++ [x]) (y :: ys) = as ++ (x + y) :: ys :=
  mergeWith_concat_cons _ as x y ys

/-- `mergeAngles a b` IS `a[:-1] + [a[-1] + b[0]] + b[1:]` -/
theorem mergeAngles_eq_python (a b : List α) (ha : a ≠ []) (hb : b ≠ []) :
    mergeAngles a b = a.dropLast ++ [a.getLast ha + b.head hb] ++ b.tail :=
  mergeWith_eq_python _ a b ha hb

theorem length_mergeAngles (a b : List α) (ha : a ≠ []) (hb : b ≠ []) :
    (mergeAngles a b).length + 1 = a.length + b.length :=
  length_mergeWith _ a b ha hb

theorem mergeAngles_ne_nil (a b : List α) (ha : a ≠ []) : mergeAngles a b ≠ [] :=
  mergeWith_ne_nil_left _ a b ha

theorem mergeAngles_assoc_of_two_le (a b c : List α) (hb : 2 ≤ b.length) :
    mergeAngles (mergeAngles a b) c = mergeAngles a (mergeAngles b c) :=
  mergeWith_assoc_of_two_le _ a b c hb

end angles

theorem mergeAngles_assoc {α : Type} [AddSemigroup α] (a b c : List α) :
    mergeAngles (mergeAngles a b) c = mergeAngles a (mergeAngles b c) :=
  mergeWith_assoc _ add_assoc a b c

section pairs
variable {R : Type} [CommRing R]

@[simp] theorem mergePairs_nil_left (b : List (R × R)) : mergePairs [] b = b := rfl

@[simp] theorem mergePairs_nil_right (a : List (R × R)) : mergePairs a [] = a :=
  mergeWith_nil_right _ a

theorem mergePairs_concat_cons (as : List (R × R)) (x y : R × R) (ys : List (R × R)) :
    mergePairs (as ++ [x]) (y :: ys) = as ++ rotMul x y :: ys :=
  mergeWith_concat_cons _ as x y ys

theorem mergePairs_eq_python (a b : List (R × R)) (ha : a ≠ []) (hb : b ≠ []) :
    mergePairs a b = a.dropLast ++ [rotMul (a.getLast ha) (b.head hb)] ++ b.tail :=
  mergeWith_eq_python _ a b ha hb

theorem length_mergePairs (a b : List (R × R)) (ha : a ≠ []) (hb : b ≠ []) :
    (mergePairs a b).length + 1 = a.length + b.length :=
  length_mergeWith _ a b ha hb

theorem rotMul_assoc (x y z : R × R) : rotMul (rotMul x y) z = rotMul x (rotMul y z) := by
  simp only [rotMul]
  ext <;> simp <;> ring

theorem mergePairs_assoc (a b c : List (R × R)) :
    mergePairs (mergePairs a b) c = mergePairs a (mergePairs b c) :=
  mergeWith_assoc _ rotMul_assoc a b c

/-- `rotMul` multiplies the "norms" `c² + s²`: unit pairs are glued to a unit pair -/
theorem rotMul_normSq (x y : R × R) :
    (rotMul x y).1 * (rotMul x y).1 + (rotMul x y).2 * (rotMul x y).2
      = (x.1 * x.1 + x.2 * x.2) * (y.1 * y.1 + y.2 * y.2) := by
  simp only [rotMul]; ring

end pairs

/-! ## 3. the glue is the matrix product -/

/-- two adjacent X-rotations merge: `R(x ⋆ y) = R(x) R(y)` for ARBITRARY pairs -/
theorem rotC_rotMul (x y : ℂ × ℂ) :
    rotC (rotMul x y).1 (rotMul x y).2 = rotC x.1 x.2 * rotC y.1 y.2 := by
  apply Matrix.ext; intro i j
  fin_cases i <;> fin_cases j <;>
    simp [rotC, rotMul, Matrix.mul_apply, Fin.sum_univ_two] <;>
    first | ring1 | linear_combination (-(x.2 * y.2)) * Complex.I_mul_I

/-- angle addition: `(cos (x+y), sin (x+y)) = (cos x, sin x) ⋆ (cos y, sin y)` -/
theorem prC_add (x y : ℝ) : prC (x + y) = rotMul (prC x) (prC y) := by
  simp only [prC, rotMul, Real.cos_add, Real.sin_add]
  ext <;> push_cast <;> ring

/-- `rotC (cos (x+y)) (sin (x+y)) = rotC (cos x) (sin x) * rotC (cos y) (sin y)` -/
theorem rotC_add (x y : ℝ) :
    rotC (Real.cos (x + y)) (Real.sin (x + y))
      = rotC (Real.cos x) (Real.sin x) * rotC (Real.cos y) (Real.sin y) := by
  have h := rotC_rotMul (prC x) (prC y)
  rw [← prC_add] at h
  exact h

/-- the rational cast commutes with `rotMul` -/
theorem castP_rotMul (x y : ℚ × ℚ) : castP (rotMul x y) = rotMul (castP x) (castP y) := by
  simp only [castP, rotMul]
  ext <;> push_cast <;> ring

theorem wC_neg_mul_cancel (θ : ℝ) (M : M22) : wC (-θ) * (wC θ * M) = M := by
  rw [← Matrix.mul_assoc, wC_neg_mul, Matrix.one_mul]

/-- (b) for ALL lists: the product over the glued pairs is the product of the two products -/
theorem UcircPairs_mergePairs_total (θ : ℝ) (a b : List (ℂ × ℂ)) :
    UcircPairs θ (mergePairs a b) = UcircPairs θ a * UcircPairs θ b := by
  by_cases ha : a = []
  · subst ha; simp [UcircPairs]
  by_cases hb : b = []
  · subst hb; simp [UcircPairs]
  obtain ⟨as, x, rfl⟩ := exists_concat_of_ne_nil ha
  obtain ⟨y, ys, rfl⟩ := exists_cons_of_ne_nil' hb
  rw [mergePairs_concat_cons, UcircPairs_eq_prod θ _ (by simp), UcircPairs_eq_prod θ _ ha,
    UcircPairs_eq_prod θ _ hb]
  simp only [List.map_append, List.map_cons, List.map_nil, List.prod_append, List.prod_cons,
    List.prod_nil, stepM, rotC_rotMul, Matrix.mul_assoc, Matrix.mul_one, wC_neg_mul_cancel]

theorem UcircPairs_mergePairs (θ : ℝ) (a b : List (ℂ × ℂ)) (_ha : a ≠ []) (_hb : b ≠ []) :
    UcircPairs θ (mergePairs a b) = UcircPairs θ a * UcircPairs θ b :=
  UcircPairs_mergePairs_total θ a b

theorem map_prC_mergeAngles (φ ψ : List ℝ) :
    (mergeAngles φ ψ).map prC = mergePairs (φ.map prC) (ψ.map prC) :=
  map_mergeWith _ prC rotMul prC_add φ ψ

theorem map_castP_mergePairs (a b : List (ℚ × ℚ)) :
    (mergePairs a b).map castP = mergePairs (a.map castP) (b.map castP) :=
  map_mergeWith _ castP rotMul castP_rotMul a b

/-- (a) for ALL lists: the circle product of the glued phase list is the product of the two
    circle products -/
theorem Ucirc_mergeAngles_total (θ : ℝ) (φ ψ : List ℝ) :
    Ucirc θ (mergeAngles φ ψ) = Ucirc θ φ * Ucirc θ ψ := by
  rw [Ucirc_eq_pairs, Ucirc_eq_pairs, Ucirc_eq_pairs, map_prC_mergeAngles,
    UcircPairs_mergePairs_total]

theorem Ucirc_mergeAngles (θ : ℝ) (φ ψ : List ℝ) (_hφ : φ ≠ []) (_hψ : ψ ≠ []) :
    Ucirc θ (mergeAngles φ ψ) = Ucirc θ φ * Ucirc θ ψ :=
  Ucirc_mergeAngles_total θ φ ψ

/-- (d) the recursion step of `angseq`, at one point of the circle -/
theorem angseq_step (θ : ℝ) (a b : List ℝ) (L R G : M22) (ha : Ucirc θ a = L)
    (hb : Ucirc θ b = R) (hG : G = L * R) : Ucirc θ (mergeAngles a b) = G := by
  rw [Ucirc_mergeAngles_total, ha, hb, hG]

/-- (d) … on the whole circle, with the degree count -/
theorem angseq_step_all (a b : List ℝ) (L R G : ℝ → M22) (ha : ∀ θ, Ucirc θ a = L θ)
    (hb : ∀ θ, Ucirc θ b = R θ) (hG : ∀ θ, G θ = L θ * R θ) (na nb : ℕ)
    (hna : a.length = na + 1) (hnb : b.length = nb + 1) :
    (∀ θ, Ucirc θ (mergeAngles a b) = G θ) ∧ (mergeAngles a b).length = na + nb + 1 := by
  refine ⟨fun θ => angseq_step θ a b _ _ _ (ha θ) (hb θ) (hG θ), ?_⟩
  have h := length_mergeAngles a b (by intro h; simp [h] at hna) (by intro h; simp [h] at hnb)
  omega

/-! ## 4. the whole recursion with an exact oracle -/

/-- the recursion tree of `angseq` run with an oracle `decompose` whose factorisations are EXACT
    on the circle: `AngSeq n g φ` — "`angseq` returns `φ` on the element `g` of degree `n`".
    A leaf is an element of degree 1 with its two angles; a node splits `g = l * r` into
    elements of degrees `nl`, `nr` (the code takes `nl = n / 2`; any split is allowed here) and
    glues the two returned lists -/
inductive AngSeq : ℕ → (ℝ → M22) → List ℝ → Prop
  | leaf (g : ℝ → M22) (φ₀ φ₁ : ℝ) (h : ∀ θ, g θ = Ucirc θ [φ₀, φ₁]) : AngSeq 1 g [φ₀, φ₁]
  | node (g l r : ℝ → M22) (nl nr : ℕ) (a b : List ℝ) (hg : ∀ θ, g θ = l θ * r θ)
      (hl : AngSeq nl l a) (hr : AngSeq nr r b) : AngSeq (nl + nr) g (mergeAngles a b)

/-- whatever the shape of the recursion tree, the returned list has `n + 1` phases and its
    circle product is the element -/
theorem AngSeq.sound {n : ℕ} {g : ℝ → M22} {φ : List ℝ} (h : AngSeq n g φ) :
    (∀ θ, Ucirc θ φ = g θ) ∧ φ.length = n + 1 ∧ 1 ≤ n := by
  induction h with
  | leaf g φ₀ φ₁ h => exact ⟨fun θ => (h θ).symm, rfl, le_refl _⟩
  | node g l r nl nr a b hg _ _ ihl ihr =>
    obtain ⟨h1, h2⟩ := angseq_step_all a b l r g ihl.1 ihr.1 hg nl nr ihl.2.1 ihr.2.1
    exact ⟨h1, h2, by have := ihl.2.2; omega⟩

/-! ## 5. the executable model -/

/-- (e) the element computed exactly by `LA.fromAngles` from the glued rational pairs is, at
    every point of the circle, the product of the two computed elements.  (`pa`, `pb` are
    non-empty because `LA.fromAngles` fails on the empty list.) -/
theorem fromAngles_mergePairs_eval (pa pb : List (ℚ × ℚ)) (ga gb g : LA ℚ)
    (ha : LA.fromAngles pa = .ok ga) (hb : LA.fromAngles pb = .ok gb)
    (h : LA.fromAngles (mergePairs pa pb) = .ok g) (θ : ℝ) :
    evMat g θ = evMat ga θ * evMat gb θ := by
  rw [fromAngles_eval_pairs _ g h θ, fromAngles_eval_pairs _ ga ha θ,
    fromAngles_eval_pairs _ gb hb θ, map_castP_mergePairs, UcircPairs_mergePairs_total]

theorem ne_nil_of_fromAngles_ok {ps : List (ℚ × ℚ)} {g : LA ℚ} (h : LA.fromAngles ps = .ok g) :
    ps ≠ [] := by
  intro h0; rw [h0, fromAngles_nil] at h; cases h

/-- … and the model does return on the glued list -/
theorem fromAngles_mergePairs_returns (pa pb : List (ℚ × ℚ)) (ga gb : LA ℚ)
    (ha : LA.fromAngles pa = .ok ga) (hb : LA.fromAngles pb = .ok gb) :
    ∃ g, LA.fromAngles (mergePairs pa pb) = .ok g ∧ g.WF ∧
      (mergePairs pa pb).length + 1 = pa.length + pb.length ∧
      ∀ θ : ℝ, evMat g θ = evMat ga θ * evMat gb θ := by
  have hpa := ne_nil_of_fromAngles_ok ha
  have hpb := ne_nil_of_fromAngles_ok hb
  obtain ⟨c, cs, hc⟩ := exists_cons_of_ne_nil' (mergeWith_ne_nil_left rotMul pa pb hpa)
  obtain ⟨g, hg, hWF⟩ := fromAngles_returns c cs
  have hg' : LA.fromAngles (mergePairs pa pb) = .ok g := by
    rw [mergePairs, hc]; exact hg
  exact ⟨g, hg', hWF, length_mergePairs pa pb hpa hpb,
    fromAngles_mergePairs_eval pa pb ga gb g ha hb hg'⟩

end QSP

/-
  The executable `completeFG` (`QSP/Model/Completion.lean`, the glue of `_fg_completion`)
  tied to the abstract statements of `QSP/Proofs/Completion.lean`.

  With `z = w²`, `deg = #selected roots` (complex ones counted with their conjugates):
  `G(w) = w^{-deg} g(z)`, `G~(w) = w^{-deg} grev(z)` (`grev(z) = z^deg g(1/z) = ∏ (1 - s z)`),
  `1 - F F~ = w^{-2 deg} poly(z)`, `norm = poly[-1]`.  So `F F~ + G G~ = 1` is
  `ratio · g · grev = poly` in `ℂ[z]`, and the root finder's specification is
  `poly = norm · ∏_s (z - s)(z - 1/s)` — symmetric in `s ↔ 1/s`, hence the same statement for
  every seed.
-/
import QSP.Model.Completion
import QSP.Proofs.Sup
import QSP.Proofs.Completion
import Mathlib.Algebra.Polynomial.Coeff
import Mathlib.Algebra.Polynomial.Eval.Defs
import Mathlib.Algebra.BigOperators.Group.List.Basic
import Mathlib.Data.Complex.Basic
import Mathlib.Tactic.Ring
import Mathlib.Tactic.FieldSimp
import Mathlib.Tactic.LinearCombination
open Polynomial
namespace QSP

/-! ### abstract part: any non-zero selection, normalised by `g(0)`, completes -/
section
variable {K : Type} [Field K]

/-- `∏ (X - s)(X - 1/s)`: what the root finder is specified to have seen, divided by `norm` -/
noncomputable def recipProd (S : List K) : K[X] :=
  (S.map fun s => (X - C s) * (X - C s⁻¹)).prod

/-- the constant term `g(0) = ∏ (-s)` -/
theorem Gpoly_coeff_zero (S : List K) : (Gpoly S).coeff 0 = (S.map fun s => -s).prod := by
  induction S with
  | nil => simp [Gpoly]
  | cons s S ih =>
    have : Gpoly (s :: S) = (X - C s) * Gpoly S := by simp [Gpoly]
    rw [this, mul_coeff_zero, ih]; simp

theorem Gpoly_mul_Grev (S : List K) (hS : ∀ s ∈ S, s ≠ 0) :
    Gpoly S * Grev S = C ((S.map fun s => -s).prod) * recipProd S := by
  induction S with
  | nil => simp [Gpoly, Grev, recipProd]
  | cons s S ih =>
    have hs : s ≠ 0 := hS s (by simp)
    have ih' := ih fun x hx => hS x (by simp [hx])
    have e1 : Gpoly (s :: S) = (X - C s) * Gpoly S := by simp [Gpoly]
    have e2 : Grev (s :: S) = (1 - C s * X) * Grev S := by simp [Grev]
    have e3 : recipProd (s :: S) = (X - C s) * (X - C s⁻¹) * recipProd S := by simp [recipProd]
    have h : (C s : K[X]) * C s⁻¹ = 1 := by rw [← C_mul, mul_inv_cancel₀ hs, C_1]
    rw [e1, e2, e3, List.map_cons, List.prod_cons, C_mul, C_neg]
    linear_combination ((X - C s) * (1 - C s * X)) * ih' -
      (C (List.map (fun s => -s) S).prod * recipProd S * (X - C s)) * h

/-- the specification does not see the selection: `s ↦ 1/s` at any positions -/
theorem recipProd_flipRoots (S : List K) (seed : List Bool) :
    recipProd (flipRoots S seed) = recipProd S := by
  induction S generalizing seed with
  | nil => rfl
  | cons r rs ih =>
    cases seed with
    | nil => rw [flipRoots_nil_seed]
    | cons b bs =>
      cases b
      · simp only [flipRoots, Bool.false_eq_true, if_false, recipProd, List.map_cons,
          List.prod_cons]
        have := ih bs
        simp only [recipProd] at this
        rw [this]
      · simp only [flipRoots, if_true, recipProd, List.map_cons, List.prod_cons, inv_inv]
        have := ih bs
        simp only [recipProd] at this
        rw [this]; ring

/-- **normalised completion** for a selection `S`: `(norm / g(0)) · g · grev = norm · ∏ (z-s)(z-1/s)` -/
theorem fg_normalised (S : List K) (hS : ∀ s ∈ S, s ≠ 0) (norm : K) :
    C (norm / (Gpoly S).coeff 0) * (Gpoly S * Grev S) = C norm * recipProd S := by
  have h0 : (S.map fun s => -s).prod ≠ 0 := by
    apply List.prod_ne_zero
    intro h
    obtain ⟨s, hs, hs0⟩ := List.mem_map.mp h
    exact hS s hs (by simpa using hs0)
  rw [Gpoly_mul_Grev S hS, Gpoly_coeff_zero, ← mul_assoc, ← C_mul, div_mul_cancel₀ _ h0]

end

/-! ### the executable: denotation of the factor list and of its product -/
section

/-- the polynomial in `z = w²` a real coefficient list denotes -/
noncomputable def toPolyR : List ℚ → ℂ[X]
  | [] => 0
  | c :: cs => C (c : ℂ) + X * toPolyR cs

theorem toPolyR_addL : ∀ a b : List ℚ, toPolyR (addL a b) = toPolyR a + toPolyR b
  | [], b => by simp [addL, toPolyR]
  | x :: xs, [] => by simp [addL, toPolyR]
  | x :: xs, y :: ys => by
    simp only [addL, toPolyR, toPolyR_addL xs ys, Rat.cast_add, C_add]; ring

theorem toPolyR_map_mul (x : ℚ) (b : List ℚ) :
    toPolyR (b.map (x * ·)) = C (x : ℂ) * toPolyR b := by
  induction b with
  | nil => simp [toPolyR]
  | cons y ys ih => simp only [List.map_cons, toPolyR, ih, Rat.cast_mul, C_mul]; ring

theorem toPolyR_convL (a b : List ℚ) : toPolyR (convL a b) = toPolyR a * toPolyR b := by
  induction a with
  | nil => simp [convL, toPolyR]
  | cons x xs ih =>
    simp only [convL, toPolyR_addL, toPolyR_map_mul, toPolyR, ih, Rat.cast_zero, C_0]; ring

theorem toPolyR_foldl (fs : List (List ℚ)) (a : List ℚ) :
    toPolyR (fs.foldl convL a) = toPolyR a * (fs.map toPolyR).prod := by
  induction fs generalizing a with
  | nil => simp
  | cons f fs ih => rw [List.foldl_cons, ih, toPolyR_convL, List.map_cons, List.prod_cons]; ring

/-- the exact product the model forms denotes the product of the factors -/
theorem toPolyR_prodFactors (fs : List (List ℚ)) :
    toPolyR (prodFactors fs) = (fs.map toPolyR).prod := by
  unfold prodFactors
  rw [toPolyR_foldl]; simp [toPolyR]

theorem coeff_zero_toPolyR (l : List ℚ) : (toPolyR l).coeff 0 = ((l.headD 0 : ℚ) : ℂ) := by
  cases l with
  | nil => simp [toPolyR]
  | cons c cs => simp [toPolyR]

theorem toC_cqInv (r : CQ) : toC (cqInv r) = (toC r)⁻¹ := by
  by_cases h : toC r = 0
  · have h1 : r.1 = 0 := by have := congrArg Complex.re h; simpa using this
    have h2 : r.2 = 0 := by have := congrArg Complex.im h; simpa using this
    rw [h, inv_zero]; apply Complex.ext <;> simp [cqInv, h1, h2]
  · apply eq_inv_of_mul_eq_one_left
    have hn : (r.1 : ℝ) * r.1 + (r.2 : ℝ) * r.2 ≠ 0 := by
      intro hz
      apply h
      have h1 : (r.1 : ℝ) = 0 := by nlinarith [mul_self_nonneg (r.1 : ℝ), mul_self_nonneg (r.2 : ℝ)]
      have h2 : (r.2 : ℝ) = 0 := by nlinarith [mul_self_nonneg (r.1 : ℝ), mul_self_nonneg (r.2 : ℝ)]
      apply Complex.ext <;> simp [h1, h2]
    apply Complex.ext
    · have hn' : (r.1 : ℝ) ^ 2 + (r.2 : ℝ) ^ 2 ≠ 0 := by rw [sq, sq]; exact hn
      simp [cqInv]; field_simp
      ring
    · simp [cqInv]; field_simp; ring

/-- the real quadratic factor `[|r|², -2 Re r, 1]` is `(z - r)(z - r̄)` -/
theorem toPolyR_cplxFactor (r : CQ) :
    toPolyR [r.1 * r.1 + r.2 * r.2, -2 * r.1, 1]
      = (X - C (toC r)) * (X - C ((starRingEnd ℂ) (toC r))) := by
  have e1 : C (toC r) + C ((starRingEnd ℂ) (toC r)) = C ((2 * r.1 : ℚ) : ℂ) := by
    rw [← C_add]; congr 1; apply Complex.ext <;> simp; ring
  have e2 : C (toC r) * C ((starRingEnd ℂ) (toC r)) = C ((r.1 * r.1 + r.2 * r.2 : ℚ) : ℂ) := by
    rw [← C_mul]; congr 1; apply Complex.ext <;> simp; ring
  simp only [toPolyR, Rat.cast_one, C_1, mul_zero, add_zero]
  have e3 : (C ((-2 * r.1 : ℚ) : ℂ) : ℂ[X]) = -C ((2 * r.1 : ℚ) : ℂ) := by
    rw [← C_neg]; congr 1; push_cast; ring
  rw [e3]
  linear_combination X * e1 - e2

/-- the linear factor `[-r, 1]` is `z - r` -/
theorem toPolyR_realFactor (r : ℚ) : toPolyR [-r, 1] = X - C ((r : ℚ) : ℂ) := by
  simp only [toPolyR, Rat.cast_neg, Rat.cast_one, C_neg, C_1, mul_zero, add_zero]; ring

/-- what `completeFG` returns -/
theorem completeFG_eq (thr : ℚ) (roots : List CQ) (seed : List Bool) (norm : ℚ)
    (g : List ℚ) (ratio : ℚ) (h : completeFG thr roots seed norm = some (g, ratio)) :
    ∃ fs, factorsFG (classifyRoots thr roots).1 (classifyRoots thr roots).2 seed = some fs ∧
      g = prodFactors fs ∧ g.headD 0 ≠ 0 ∧ ratio = norm / g.headD 0 := by
  unfold completeFG at h
  cases hf : factorsFG (classifyRoots thr roots).1 (classifyRoots thr roots).2 seed with
  | none => simp [hf] at h
  | some fs =>
    simp only [hf, Option.bind_eq_bind, Option.bind_some] at h
    split_ifs at h with h0
    simp only [Option.pure_def, Option.some.injEq, Prod.mk.injEq] at h
    obtain ⟨rfl, rfl⟩ := h
    exact ⟨fs, rfl, rfl, h0, rfl⟩

/-- **end to end, for every seed** (partial: that the factor list `fs` the run built denotes
    `∏ (z - s)` over a list `S` of non-zero selected roots is a hypothesis here, discharged
    factor by factor with `toPolyR_cplxFactor`, `toPolyR_realFactor`, `toC_cqInv`).
    If `1 - F F~ = w^{-2 deg} poly(z)` with `poly = norm · ∏ (z - s)(z - 1/s)`, then
    `ratio · g · grev = poly`, i.e. `G = sqrt(ratio) · g` satisfies `F F~ + G G~ = 1`. -/
theorem completeFG_sound_partial (thr : ℚ) (roots : List CQ) (seed : List Bool) (norm : ℚ)
    (g : List ℚ) (ratio : ℚ) (h : completeFG thr roots seed norm = some (g, ratio))
    (S : List ℂ) (hS : ∀ s ∈ S, s ≠ 0)
    (hfs : ∀ fs, factorsFG (classifyRoots thr roots).1 (classifyRoots thr roots).2 seed = some fs →
      (fs.map toPolyR).prod = Gpoly S)
    (poly : ℂ[X]) (hspec : poly = C (norm : ℂ) * recipProd S) :
    toPolyR g = Gpoly S ∧ C (ratio : ℂ) * (toPolyR g * Grev S) = poly := by
  obtain ⟨fs, hf, rfl, h0, rfl⟩ := completeFG_eq _ _ _ _ _ _ h
  have hg : toPolyR (prodFactors fs) = Gpoly S := by rw [toPolyR_prodFactors, hfs fs hf]
  refine ⟨hg, ?_⟩
  have := fg_normalised S hS (norm : ℂ)
  rw [hspec, ← this, hg, ← hg, coeff_zero_toPolyR]
  push_cast; rfl

end

/-! ### `factorsFG` in closed form, and `completeFG` end to end without side hypotheses -/
section Explicit
open ComplexConjugate

theorem mapM_some {α β : Type} (f : α → Option β) (g : α → β) (l : List α)
    (h : ∀ a ∈ l, f a = some (g a)) : l.mapM f = some (l.map g) := by
  induction l with
  | nil => simp
  | cons a as ih =>
    rw [List.mapM_cons, h a (by simp), ih fun b hb => h b (by simp [hb])]; simp

theorem mapM_none {α β : Type} (f : α → Option β) (l : List α)
    (h : ∃ a ∈ l, f a = none) : l.mapM f = none := by
  induction l with
  | nil => simp at h
  | cons a as ih =>
    rw [List.mapM_cons]
    cases hfa : f a with
    | none => simp
    | some b =>
      obtain ⟨x, hx, hfx⟩ := h
      rcases List.mem_cons.mp hx with rfl | hx
      · rw [hfa] at hfx; cases hfx
      · rw [ih ⟨x, hx, hfx⟩]; simp

/-- the seed bit: the root or its reciprocal -/
noncomputable def flipC (b : Bool) (a : ℂ) : ℂ := if b then a⁻¹ else a

/-- factor `i` of the complex block -/
def facI (im : List CQ) (seed : List Bool) (i : ℕ) : List ℚ :=
  let r := if seed.getD i false then cqInv (im.getD i (0, 0)) else im.getD i (0, 0)
  [r.1 * r.1 + r.2 * r.2, -2 * r.1, 1]

/-- factor `i` of the real block (bit `i + #complex`) -/
def facR (im : List CQ) (re : List ℚ) (seed : List Bool) (i : ℕ) : List ℚ :=
  [-(if seed.getD (i + im.length) false then 1 / re.getD i 0 else re.getD i 0), 1]

/-- the selected roots: every complex root with its conjugate, then the real ones, each
    replaced by its reciprocal where the seed bit is set (`seed = []`: nothing flipped) -/
noncomputable def selRoots (im : List CQ) (re : List ℚ) (seed : List Bool) : List ℂ :=
  ((List.range im.length).flatMap fun i =>
      [flipC (seed.getD i false) (toC (im.getD i (0, 0))),
        conj (flipC (seed.getD i false) (toC (im.getD i (0, 0))))]) ++
    (List.range re.length).map fun i =>
      flipC (seed.getD (i + im.length) false) ((re.getD i 0 : ℚ) : ℂ)

/-- every needed bit present: the factor list in closed form -/
theorem factorsFG_eq (im : List CQ) (re : List ℚ) (seed : List Bool)
    (hseed : im.length + re.length ≤ seed.length) :
    factorsFG im re seed
      = some ((List.range im.length).map (facI im seed) ++
          (List.range re.length).map (facR im re seed)) := by
  unfold factorsFG
  rw [mapM_some (g := facI im seed), Option.bind_eq_bind, Option.bind_some,
    mapM_some (g := facR im re seed)]
  · simp
  · intro i hi
    have hi' : i + im.length < seed.length := by have := List.mem_range.mp hi; omega
    simp [bitAt, facR, List.getD_eq_getElem?_getD, List.getElem?_eq_getElem hi']
  · intro i hi
    have hi' : i < seed.length := by have := List.mem_range.mp hi; omega
    simp [bitAt, facI, List.getD_eq_getElem?_getD, List.getElem?_eq_getElem hi']

/-- a missing bit is the code's `CompletionError` for a short seed -/
theorem factorsFG_none (im : List CQ) (re : List ℚ) (seed : List Bool)
    (hseed : seed.length < im.length + re.length) : factorsFG im re seed = none := by
  unfold factorsFG
  by_cases h1 : seed.length < im.length
  · rw [mapM_none]
    · simp
    · exact ⟨seed.length, List.mem_range.mpr h1, by simp [bitAt]⟩
  · rw [mapM_some (g := facI im seed), Option.bind_eq_bind, Option.bind_some, mapM_none]
    · simp
    · refine ⟨seed.length - im.length, List.mem_range.mpr (by omega), ?_⟩
      have : seed.length - im.length + im.length = seed.length := by omega
      simp [bitAt, this]
    · intro i hi
      have hi' : i < seed.length := by have := List.mem_range.mp hi; omega
      simp [bitAt, facI, List.getD_eq_getElem?_getD, List.getElem?_eq_getElem hi']

theorem factorsFG_some_iff (im : List CQ) (re : List ℚ) (seed : List Bool) :
    (factorsFG im re seed).isSome ↔ im.length + re.length ≤ seed.length := by
  constructor
  · intro h
    by_contra hc
    rw [factorsFG_none im re seed (by omega)] at h
    simp at h
  · intro h; rw [factorsFG_eq im re seed h]; simp

theorem Gpoly_append {K : Type} [Field K] (a b : List K) :
    Gpoly (a ++ b) = Gpoly a * Gpoly b := by simp [Gpoly]

theorem recipProd_append {K : Type} [Field K] (a b : List K) :
    recipProd (a ++ b) = recipProd a * recipProd b := by simp [recipProd]

theorem toC_flip (b : Bool) (r : CQ) :
    toC (if b then cqInv r else r) = flipC b (toC r) := by
  cases b <;> simp [flipC, toC_cqInv]

theorem toPolyR_facI (im : List CQ) (seed : List Bool) (i : ℕ) :
    toPolyR (facI im seed i)
      = (X - C (flipC (seed.getD i false) (toC (im.getD i (0, 0))))) *
        (X - C (conj (flipC (seed.getD i false) (toC (im.getD i (0, 0)))))) := by
  unfold facI
  rw [← toC_flip]
  exact toPolyR_cplxFactor _

theorem toPolyR_facR (im : List CQ) (re : List ℚ) (seed : List Bool) (i : ℕ) :
    toPolyR (facR im re seed i)
      = X - C (flipC (seed.getD (i + im.length) false) ((re.getD i 0 : ℚ) : ℂ)) := by
  unfold facR
  rw [toPolyR_realFactor]
  cases seed.getD (i + im.length) false <;> simp [flipC]

/-- the factor list denotes `∏ (z - s)` over the selected roots -/
theorem factors_den (im : List CQ) (re : List ℚ) (seed : List Bool) :
    (((List.range im.length).map (facI im seed) ++
        (List.range re.length).map (facR im re seed)).map toPolyR).prod
      = Gpoly (selRoots im re seed) := by
  have hI : ∀ l : List ℕ, ((l.map (facI im seed)).map toPolyR).prod
      = Gpoly (l.flatMap fun i =>
          [flipC (seed.getD i false) (toC (im.getD i (0, 0))),
            conj (flipC (seed.getD i false) (toC (im.getD i (0, 0))))]) := by
    intro l
    induction l with
    | nil => simp [Gpoly]
    | cons i l ih =>
      rw [List.map_cons, List.map_cons, List.prod_cons, ih, List.flatMap_cons, Gpoly_append,
        toPolyR_facI]
      simp [Gpoly]
  have hR : ∀ l : List ℕ, ((l.map (facR im re seed)).map toPolyR).prod
      = Gpoly (l.map fun i =>
          flipC (seed.getD (i + im.length) false) ((re.getD i 0 : ℚ) : ℂ)) := by
    intro l
    induction l with
    | nil => simp [Gpoly]
    | cons i l ih =>
      rw [List.map_cons, List.map_cons, List.prod_cons, ih, toPolyR_facR]
      simp [Gpoly]
  rw [List.map_append, List.prod_append, hI, hR, selRoots, Gpoly_append]

theorem pair_flip (b : Bool) (a : ℂ) :
    (X - C (flipC b a)) * (X - C (flipC b a)⁻¹) = (X - C a) * (X - C a⁻¹) := by
  cases b
  · simp [flipC]
  · simp only [flipC, if_true, inv_inv]; ring

theorem recipProd_cons' (x : ℂ) (xs : List ℂ) :
    recipProd (x :: xs) = (X - C x) * (X - C x⁻¹) * recipProd xs := by simp [recipProd]

theorem recipProd_flatMap_congr (l : List ℕ) (f f0 : ℕ → List ℂ)
    (hh : ∀ i, recipProd (f i) = recipProd (f0 i)) :
    recipProd (l.flatMap f) = recipProd (l.flatMap f0) := by
  induction l with
  | nil => rfl
  | cons i l ih => simp only [List.flatMap_cons, recipProd_append, ih, hh]

theorem recipProd_map_congr (l : List ℕ) (a a0 : ℕ → ℂ)
    (hh : ∀ i, (X - C (a i)) * (X - C (a i)⁻¹) = (X - C (a0 i)) * (X - C (a0 i)⁻¹)) :
    recipProd (l.map a) = recipProd (l.map a0) := by
  induction l with
  | nil => rfl
  | cons i l ih => simp only [List.map_cons, recipProd_cons', ih, hh]

theorem pair2_flip (b : Bool) (a : ℂ) :
    recipProd [flipC b a, conj (flipC b a)] = recipProd [a, conj a] := by
  cases b
  · simp [flipC]
  · simp only [recipProd_cons', flipC, if_true, map_inv₀, inv_inv]
    ring

theorem flipC_false (a : ℂ) : flipC false a = a := by simp [flipC]

/-- the specification does not depend on the seed -/
theorem recipProd_selRoots (im : List CQ) (re : List ℚ) (seed : List Bool) :
    recipProd (selRoots im re seed) = recipProd (selRoots im re []) := by
  unfold selRoots
  rw [recipProd_append, recipProd_append]
  congr 1
  · apply recipProd_flatMap_congr
    intro i
    rw [List.getD_nil, flipC_false, pair2_flip]
  · apply recipProd_map_congr
    intro i
    rw [List.getD_nil, flipC_false, pair_flip]

/-- **`completeFG` end to end, for every seed of sufficient length**: `g` is `∏ (z - s)` over
    the selected roots and, if `1 - F F~ = w^{-2 deg} · norm · ∏ (z - s)(z - 1/s)` over the
    UNFLIPPED inside roots (`selRoots … []`), then `ratio · g · grev` is that polynomial:
    `G = sqrt(ratio) · g` satisfies `F F~ + G G~ = 1`. -/
theorem completeFG_sound (thr : ℚ) (roots : List CQ) (seed : List Bool) (norm : ℚ)
    (g : List ℚ) (ratio : ℚ) (h : completeFG thr roots seed norm = some (g, ratio)) :
    (classifyRoots thr roots).1.length + (classifyRoots thr roots).2.length ≤ seed.length ∧
    toPolyR g = Gpoly (selRoots (classifyRoots thr roots).1 (classifyRoots thr roots).2 seed) ∧
    C (ratio : ℂ) * (toPolyR g *
        Grev (selRoots (classifyRoots thr roots).1 (classifyRoots thr roots).2 seed))
      = C (norm : ℂ) *
        recipProd (selRoots (classifyRoots thr roots).1 (classifyRoots thr roots).2 []) := by
  obtain ⟨fs, hf, rfl, h0, rfl⟩ := completeFG_eq _ _ _ _ _ _ h
  have hseed := (factorsFG_some_iff _ _ _).mp (by rw [hf]; rfl)
  rw [factorsFG_eq _ _ _ hseed] at hf
  obtain rfl := Option.some.inj hf
  set S := selRoots (classifyRoots thr roots).1 (classifyRoots thr roots).2 seed with hSdef
  have hg : toPolyR (prodFactors ((List.range (classifyRoots thr roots).1.length).map
      (facI (classifyRoots thr roots).1 seed) ++
      (List.range (classifyRoots thr roots).2.length).map
        (facR (classifyRoots thr roots).1 (classifyRoots thr roots).2 seed))) = Gpoly S := by
    rw [toPolyR_prodFactors, factors_den]
  have hc := coeff_zero_toPolyR (prodFactors ((List.range (classifyRoots thr roots).1.length).map
      (facI (classifyRoots thr roots).1 seed) ++
      (List.range (classifyRoots thr roots).2.length).map
        (facR (classifyRoots thr roots).1 (classifyRoots thr roots).2 seed)))
  rw [hg, Gpoly_coeff_zero] at hc
  have hS : ∀ s ∈ S, s ≠ 0 := by
    intro s hs hs0
    apply h0
    have : (S.map fun s => -s).prod = 0 :=
      List.prod_eq_zero (List.mem_map.mpr ⟨s, hs, by simp [hs0]⟩)
    rw [this] at hc
    exact_mod_cast hc.symm
  refine ⟨hseed, hg, ?_⟩
  have := fg_normalised S hS (norm : ℂ)
  rw [← recipProd_selRoots, ← this, hg, Gpoly_coeff_zero, hc, Rat.cast_div]

end Explicit
end QSP

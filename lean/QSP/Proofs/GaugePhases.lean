/-
  Proofs for `QSP/Properties/C06h.lean`: the exact recursion at every point of the unit circle, and
  the sign gauge in the language of phases.
-/
import QSP.Proofs.Gauge
import Mathlib.Analysis.SpecialFunctions.Complex.Log
import Mathlib.Algebra.Group.Even
open LaurentPolynomial
namespace QSP
namespace DS

/-! ## (1) the exact recursion on the circle -/

theorem exact_circle {g : LA ℚ} {out : List (ℚ × ℚ)} (h : ExactAngSeq g out) (n : ℕ)
    (ps : List (ℚ × ℚ)) (hlen : ps.length = n + 1) (hunit : ∀ c ∈ ps, c.1 ^ 2 + c.2 ^ 2 = 1)
    (hreg : ∀ c ∈ ps.tail.dropLast, ∀ x : ℚ, x * c.1 = 0 → x = 0)
    (hg : LA.fromAngles ps = .ok g) (θ : ℝ) :
    evMat g θ = UcircPairs θ (out.map castP) ∧
    UcircPairs θ (out.map castP) = UcircPairs θ (ps.map castP) := by
  obtain ⟨ho, -⟩ := exact_sound h n ps hlen hunit hreg hg
  have h1 := fromAngles_eval_pairs out g ho θ
  have h2 := fromAngles_eval_pairs ps g hg θ
  exact ⟨h1, h1.symm.trans h2⟩

/-! ## (2) sign flips of pairs are shifts of phases by multiples of π -/

/-- `(cos φ, sin φ)` -/
noncomputable def prR (φ : ℝ) : ℝ × ℝ := (Real.cos φ, Real.sin φ)

theorem eq_add_two_pi_of_cos_sin {ψ φ : ℝ} (hc : Real.cos ψ = Real.cos φ)
    (hs : Real.sin ψ = Real.sin φ) : ∃ j : ℤ, ψ = φ + Real.pi * (2 * j) := by
  have he : Complex.exp (ψ * Complex.I) = Complex.exp (φ * Complex.I) := by
    rw [Complex.exp_mul_I, Complex.exp_mul_I, ← Complex.ofReal_cos, ← Complex.ofReal_sin,
      ← Complex.ofReal_cos, ← Complex.ofReal_sin, hc, hs]
  obtain ⟨j, hj⟩ := Complex.exp_eq_exp_iff_exists_int.mp he
  refine ⟨j, ?_⟩
  have := congrArg Complex.im hj
  simp at this
  rw [this]; ring

theorem phase_of_sign {ψ φ ε : ℝ} (hε : ε = 1 ∨ ε = -1)
    (h : prR ψ = (ε * (prR φ).1, ε * (prR φ).2)) :
    ∃ m : ℤ, ψ = φ + Real.pi * m ∧ ((ε = 1 ∧ Even m) ∨ (ε = -1 ∧ Odd m)) := by
  simp only [prR, Prod.mk.injEq] at h
  rcases hε with rfl | rfl
  · obtain ⟨j, hj⟩ := eq_add_two_pi_of_cos_sin (ψ := ψ) (φ := φ) (by linarith [h.1]) (by linarith [h.2])
    exact ⟨2 * j, by rw [hj]; push_cast; ring, Or.inl ⟨rfl, even_two_mul j⟩⟩
  · obtain ⟨j, hj⟩ := eq_add_two_pi_of_cos_sin (ψ := ψ) (φ := φ + Real.pi)
      (by rw [Real.cos_add_pi]; linarith [h.1]) (by rw [Real.sin_add_pi]; linarith [h.2])
    exact ⟨2 * j + 1, by rw [hj]; push_cast; ring, Or.inr ⟨rfl, odd_two_mul_add_one j⟩⟩

theorem phases_of_signs_aux : ∀ (φs ψs es : List ℝ), φs.length = ψs.length →
    es.length = φs.length → (∀ e ∈ es, e = 1 ∨ e = -1) →
    ψs.map prR = scalePairs es (φs.map prR) →
    ∃ ms : List ℤ, ms.length = φs.length ∧
      ψs = List.zipWith (fun φ (m : ℤ) => φ + Real.pi * m) φs ms ∧
      ((es.prod = 1 ∧ Even ms.sum) ∨ (es.prod = -1 ∧ Odd ms.sum)) := by
  intro φs
  induction φs with
  | nil =>
    intro ψs es h1 h2 _ _
    have : ψs = [] := List.length_eq_zero_iff.mp h1.symm
    have : es = [] := List.length_eq_zero_iff.mp h2
    subst_vars
    exact ⟨[], rfl, rfl, Or.inl ⟨by simp, by simp⟩⟩
  | cons φ φs ih =>
    intro ψs es h1 h2 hes h
    cases ψs with
    | nil => simp at h1
    | cons ψ ψs =>
      cases es with
      | nil => simp at h2
      | cons e es =>
        simp only [List.map_cons, scalePairs, List.zipWith_cons_cons, List.cons.injEq] at h
        obtain ⟨m, hm, hpar⟩ := phase_of_sign (hes e (List.mem_cons_self ..)) h.1
        obtain ⟨ms, l, hz, hp⟩ := ih ψs es (by simpa using h1) (by simpa using h2)
          (fun e' he' => hes e' (List.mem_cons_of_mem _ he')) h.2
        refine ⟨m :: ms, by simp [l], by simp [hm, hz], ?_⟩
        simp only [List.prod_cons, List.sum_cons]
        rcases hpar with ⟨rfl, a⟩ | ⟨rfl, a⟩ <;> rcases hp with ⟨hq, b⟩ | ⟨hq, b⟩ <;> rw [hq]
        · exact Or.inl ⟨by norm_num, a.add b⟩
        · exact Or.inr ⟨by norm_num, a.add_odd b⟩
        · exact Or.inr ⟨by norm_num, a.add_even b⟩
        · exact Or.inl ⟨by norm_num, a.add_odd b⟩

theorem phases_of_signs (φs ψs es : List ℝ) (h1 : φs.length = ψs.length)
    (h2 : es.length = φs.length) (hes : ∀ e ∈ es, e = 1 ∨ e = -1) (hprod : es.prod = 1)
    (h : ψs.map prR = scalePairs es (φs.map prR)) :
    ∃ ms : List ℤ, ms.length = φs.length ∧
      ψs = List.zipWith (fun φ (m : ℤ) => φ + Real.pi * m) φs ms ∧ Even ms.sum := by
  obtain ⟨ms, l, hz, hp⟩ := phases_of_signs_aux φs ψs es h1 h2 hes h
  refine ⟨ms, l, hz, ?_⟩
  rcases hp with ⟨-, b⟩ | ⟨hq, -⟩
  · exact b
  · rw [hprod] at hq; norm_num at hq

/-- two real phase lists that build the same element differ by multiples of π with even total -/
theorem phases_gauge (φs ψs : List ℝ) (n : ℕ) (hφ : φs.length = n + 1) (hψ : ψs.length = n + 1)
    (hcos : ∀ φ ∈ φs.tail.dropLast, Real.cos φ ≠ 0)
    (h : LA.fromAngles (ψs.map prR) = LA.fromAngles (φs.map prR)) :
    ∃ ms : List ℤ, ms.length = n + 1 ∧
      ψs = List.zipWith (fun φ (m : ℤ) => φ + Real.pi * m) φs ms ∧ Even ms.sum := by
  have hu : ∀ (l : List ℝ), ∀ c ∈ l.map prR, c.1 ^ 2 + c.2 ^ 2 = 1 := by
    intro l c hc
    obtain ⟨x, -, rfl⟩ := List.mem_map.mp hc
    simp only [prR]; exact Real.cos_sq_add_sin_sq x
  have hc' : ∀ c ∈ (φs.map prR).tail.dropLast, ∀ x : ℝ, x * c.1 = 0 → x = 0 := by
    intro c hc x hx
    rw [← List.map_tail, ← List.map_dropLast] at hc
    obtain ⟨φ, hφm, rfl⟩ := List.mem_map.mp hc
    exact (mul_eq_zero.mp hx).resolve_right (hcos φ hφm)
  obtain ⟨g, hg, -, -⟩ := fromAngles_spec (φs.map prR) n (by simp [hφ])
  obtain ⟨es, e1, e2, e3, e4⟩ := fromAngles_gauge hsq_of_domain (φs.map prR) (ψs.map prR) n
    (by simp [hφ]) (by simp [hψ]) (hu φs) (hu ψs) hc' g g hg (h.trans hg) rfl rfl
  obtain ⟨ms, l, hz, he⟩ := phases_of_signs φs ψs es (by rw [hφ, hψ]) (by rw [e1, hφ]) e2 e3 e4
  exact ⟨ms, by rw [l, hφ], hz, he⟩

end DS
end QSP

/-
  Soundness of the phase validators of `QSP/Model/Validators.lean`
  (`validC01`, `validC02`, `validC07`, `validC13`): acceptance implies the property's
  conclusion against the mathematical definition of the response (`QSP/Proofs/RespDef.lean`),
  with the quantifier over the whole interval `[-1, 1]` / the whole unit circle.
-/
import QSP.Model.Validators
import QSP.Proofs.ValidCore
import QSP.Proofs.BallSound
import Mathlib.Tactic.Ring
import Mathlib.Tactic.Linarith
import Mathlib.Tactic.FieldSimp
import Mathlib.Tactic.Push

open Complex
namespace QSP

/-! ## helpers -/

/-- the element returned by `fromAnglesBall` has non-zero-flagged components of equal parity -/
theorem fromAnglesBall_NZ (bits : ℕ) (φs : List ℚ) (g : LA ℚ) (E : ℚ)
    (h : fromAnglesBall (enclList bits φs) = .ok (g, E)) : g.NZ := by
  cases φs with
  | nil =>
    simp only [fromAnglesBall, enclList, List.map_nil, fromAngles_nil] at h
    exact absurd h (by intro h'; cases h')
  | cons q qs =>
    have hlist : (enclList bits (q :: qs)).map Encl.pair
        = ((trigEncl q bits).c, (trigEncl q bits).s)
            :: qs.map (fun x : ℚ => ((trigEncl x bits).c, (trigEncl x bits).s)) := by
      simp only [enclList, List.map_cons, List.map_map, Encl.pair]
      rfl
    obtain ⟨g0, hg0, -⟩ := fromAngles_returns ((trigEncl q bits).c, (trigEncl q bits).s)
      (qs.map (fun x : ℚ => ((trigEncl x bits).c, (trigEncl x bits).s)))
    have hNZ := fromAngles_NZ _ _ g0 hg0
    unfold fromAnglesBall at h
    rw [hlist, hg0] at h
    have h' : (Except.ok (g0, (prodErr ((enclList bits (q :: qs)).map Encl.rotBound) (1, 0)).2)
        : Except Err (LA ℚ × ℚ)) = .ok (g, E) := h
    injection h' with h'
    injection h' with hg hE
    subst hg
    exact hNZ

/-- rational coefficients: the value at the conjugate point is the conjugate value -/
theorem evQ_neg_conj (p : LP ℚ) (θ : ℝ) : evQ p (-θ) = (starRingEnd ℂ) (evQ p θ) := by
  rw [evQ_eq_evalC, evQ_eq_evalC, evalC_neg_eq_conj]

/-- the symmetrisation of a rational model polynomial is real on the circle -/
theorem evQ_sym_real (p : LP ℚ) (θ : ℝ) :
    (evQ p θ + evQ p (-θ)) / 2 = (((evQ p θ).re : ℝ) : ℂ) := by
  rw [evQ_neg_conj, Complex.add_conj]
  push_cast
  ring

/-- value of a constructed polynomial -/
theorem evQ_mk' (p : List ℚ) (d : ℤ) (θ : ℝ) :
    evQ (LP.mk' p d) θ = FW (p.map (fun q : ℚ => ((q : ℝ) : ℂ))) d (exp ((θ : ℂ) * I)) := by
  rw [evQ_eq, den_mk', evalQ_denL]

/-- `|Im z − t| ≤ ‖z − (x + i t)‖` for real `x`, `t` -/
theorem abs_im_sub_le (z : ℂ) (x t : ℝ) : |z.im - t| ≤ ‖z - ((x : ℂ) + I * (t : ℂ))‖ := by
  have h := Complex.abs_im_le_norm (z - ((x : ℂ) + I * (t : ℂ)))
  simpa using h

/-- reading an accepted run off a kernel-checked evaluation (used by the non-vacuity examples) -/
theorem ok_of_map_ok {x : Except Err VOut} (h : x.map (·.ok) = .ok true) :
    ∃ v, x = .ok v ∧ v.ok = true := by
  cases x with
  | error e => cases h
  | ok v => exact ⟨v, rfl, by injection h⟩

/-! ## C01 -/

theorem validC01_sound (p : List ℚ) (eps suc tol : ℚ) (phis : List ℚ) (bits depth : ℕ) (v : VOut)
    (h : validC01 p eps suc tol phis bits depth = .ok v) (hv : v.ok = true) :
    phis.length = p.length ∧ ∀ a : ℝ, a ∈ Set.Icc (-1 : ℝ) 1 →
      ‖respDef .Wz .z (phis.map (fun q : ℚ => (q : ℝ))) a -
          (((suc : ℝ) * (polyAt p a + (eps : ℝ) / 2 * a ^ (p.length - 1)) : ℝ) : ℂ)‖
        ≤ 100 * (tol : ℝ) ∧
      ‖respDef .Wx .x (phis.map (fun q : ℚ => (q : ℝ))) a -
          (((suc : ℝ) * (polyAt p a + (eps : ℝ) / 2 * a ^ (p.length - 1)) : ℝ) : ℂ)‖
        ≤ 100 * (tol : ℝ) := by
  unfold validC01 at h
  split at h
  · cases h; cases hv
  · rename_i hc
    obtain ⟨⟨g, E⟩, hg, h⟩ := bind_ok h
    dsimp only at h
    have hlen : phis.length = p.length := by
      by_contra hne
      exact hc hne
    obtain ⟨-, hWF, -, -⟩ := fromAnglesBall_sound bits phis g E hg
    have key : ∀ a : ℝ, a ∈ Set.Icc (-1 : ℝ) 1 →
        ‖respDef .Wz .z (phis.map (fun q : ℚ => (q : ℝ))) a -
          (((suc : ℝ) * (polyAt p a + (eps : ℝ) / 2 * a ^ (p.length - 1)) : ℝ) : ℂ)‖
        ≤ 100 * (tol : ℝ) := by
      intro a ha
      obtain ⟨θ, hθ, rfl⟩ := exists_theta_of_mem_Icc a ha
      have h1 := fromAnglesBall_resp_Wz_z bits phis g E hg θ hθ
      have h2 := validReal_sound g.I hWF.1 E _ _ depth v h hv θ
      rw [polyAt_targetC01] at h2
      push_cast at h2
      have h3 := norm_sub_le_norm_sub_add_norm_sub
        (respDef .Wz .z (phis.map (fun q : ℚ => (q : ℝ))) (Real.cos θ)) (evQ g.I θ)
        (((suc : ℝ) * (polyAt p (Real.cos θ) + (eps : ℝ) / 2 * Real.cos θ ^ (p.length - 1)) : ℝ) : ℂ)
      rw [norm_sub_rev] at h1
      push_cast at h3 ⊢
      linarith
    refine ⟨hlen, fun a ha => ⟨key a ha, ?_⟩⟩
    rw [resp_Wx_x_eq_Wz_z]
    exact key a ha

/-- the error budget of C01 against `p` itself -/
theorem budget_corollary (p : List ℚ) (eps suc tol : ℚ) (phis : List ℚ) (bits depth : ℕ)
    (v : VOut) (h : validC01 p eps suc tol phis bits depth = .ok v) (hv : v.ok = true)
    (hs0 : 0 < suc) (hs1 : suc ≤ 1) (he : 0 ≤ eps) (M : ℝ)
    (hM : ∀ a : ℝ, a ∈ Set.Icc (-1 : ℝ) 1 → |polyAt p a| ≤ M) :
    ∀ a : ℝ, a ∈ Set.Icc (-1 : ℝ) 1 →
      ‖respDef .Wz .z (phis.map (fun q : ℚ => (q : ℝ))) a - ((polyAt p a : ℝ) : ℂ)‖
        ≤ (1 - (suc : ℝ)) * M + (eps : ℝ) / 2 + 100 * (tol : ℝ) := by
  intro a ha
  have h1 := ((validC01_sound p eps suc tol phis bits depth v h hv).2 a ha).1
  have hs0' : (0 : ℝ) < (suc : ℝ) := by exact_mod_cast hs0
  have hs1' : (suc : ℝ) ≤ 1 := by exact_mod_cast hs1
  have he' : (0 : ℝ) ≤ (eps : ℝ) := by exact_mod_cast he
  have hpow : |a ^ (p.length - 1)| ≤ 1 := by
    rw [abs_pow]
    exact pow_le_one₀ (abs_nonneg a) (abs_le.mpr ⟨ha.1, ha.2⟩)
  have h2 : ‖(((suc : ℝ) * (polyAt p a + (eps : ℝ) / 2 * a ^ (p.length - 1)) : ℝ) : ℂ) -
      ((polyAt p a : ℝ) : ℂ)‖ ≤ (1 - (suc : ℝ)) * M + (eps : ℝ) / 2 := by
    rw [← Complex.ofReal_sub, Complex.norm_real, Real.norm_eq_abs]
    have e : (suc : ℝ) * (polyAt p a + (eps : ℝ) / 2 * a ^ (p.length - 1)) - polyAt p a =
        -((1 - (suc : ℝ)) * polyAt p a) + (suc : ℝ) * ((eps : ℝ) / 2) * a ^ (p.length - 1) := by
      ring
    rw [e]
    refine (abs_add_le _ _).trans (add_le_add ?_ ?_)
    · rw [abs_neg, abs_mul, abs_of_nonneg (by linarith : (0 : ℝ) ≤ 1 - (suc : ℝ))]
      exact mul_le_mul_of_nonneg_left (hM a ha) (by linarith)
    · rw [abs_mul, abs_of_nonneg (by positivity : (0 : ℝ) ≤ (suc : ℝ) * ((eps : ℝ) / 2))]
      have : (suc : ℝ) * ((eps : ℝ) / 2) ≤ (eps : ℝ) / 2 := by nlinarith
      calc (suc : ℝ) * ((eps : ℝ) / 2) * |a ^ (p.length - 1)|
          ≤ (suc : ℝ) * ((eps : ℝ) / 2) * 1 :=
            mul_le_mul_of_nonneg_left hpow (by positivity)
        _ ≤ (eps : ℝ) / 2 := by linarith
  have h3 := norm_sub_le_norm_sub_add_norm_sub
    (respDef .Wz .z (phis.map (fun q : ℚ => (q : ℝ))) a)
    (((suc : ℝ) * (polyAt p a + (eps : ℝ) / 2 * a ^ (p.length - 1)) : ℝ) : ℂ)
    ((polyAt p a : ℝ) : ℂ)
  linarith

/-! ## C02 -/

theorem validC02_sound (pre pim : List ℚ) (tol : ℚ) (phis : List ℚ) (bits depth : ℕ) (v : VOut)
    (h : validC02 pre pim tol phis bits depth = .ok v) (hv : v.ok = true) :
    phis.length = pre.length ∧ pim.length = pre.length ∧ ∀ a : ℝ, a ∈ Set.Icc (-1 : ℝ) 1 →
      ‖respDef .Wx .z (phis.map (fun q : ℚ => (q : ℝ))) a -
          (((polyAt pre a : ℝ) : ℂ) + Complex.I * ((polyAt pim a : ℝ) : ℂ))‖
        ≤ 100 * (tol : ℝ) := by
  unfold validC02 at h
  split at h
  · cases h; cases hv
  · rename_i hc
    simp only [ne_eq, Bool.or_eq_true, decide_eq_true_eq, not_or, Decidable.not_not] at hc
    obtain ⟨⟨g, E⟩, hg, h⟩ := bind_ok h
    dsimp only at h
    obtain ⟨sa, hsa, h⟩ := bind_ok h
    obtain ⟨sb, hsb, h⟩ := bind_ok h
    refine ⟨hc.1, hc.2, fun a ha => ?_⟩
    obtain ⟨θ, hθ, rfl⟩ := exists_theta_of_mem_Icc a ha
    have hNZ := fromAnglesBall_NZ bits phis g E hg
    obtain ⟨a1, a2⟩ := symHalf_spec _ sa hNZ.1.1 hsa θ
    obtain ⟨b1, b2⟩ := symHalf_spec _ sb hNZ.2.1.1 hsb θ
    obtain ⟨a3, a4⟩ := symHalf_NZ _ sa hNZ.1 hsa
    obtain ⟨b3, b4⟩ := symHalf_NZ _ sb hNZ.2.1 hsb
    have hpar : sa.parity = sb.parity := by rw [a4, b4, hNZ.2.2]
    have h1 := fromAnglesBall_resp_Wx_z bits phis g E hg θ hθ
    have h2 := validCplx_sound sa sb a2 b2 a3.2 b3.2 hpar E pre pim _ depth v h hv θ
    rw [a1, b1] at h2
    have h3 := norm_sub_le_norm_sub_add_norm_sub
      (respDef .Wx .z (phis.map (fun q : ℚ => (q : ℝ))) (Real.cos θ))
      ((evQ g.I θ + evQ g.I (-θ)) / 2 + I * ((evQ g.X θ + evQ g.X (-θ)) / 2))
      (((polyAt pre (Real.cos θ) : ℝ) : ℂ) + I * ((polyAt pim (Real.cos θ) : ℝ) : ℂ))
    rw [norm_sub_rev] at h1
    push_cast at h2
    linarith

/-! ## C07 -/

theorem validC07_sound (p : List ℚ) (eps suc : ℚ) (phis : List ℚ) (bits depth : ℕ) (v : VOut)
    (h : validC07 p eps suc phis bits depth = .ok v) (hv : v.ok = true) :
    phis.length = p.length ∧ 0 < suc ∧ ∀ θ : ℝ,
      ‖(Ucirc θ (phis.map (fun q : ℚ => (q : ℝ)))) 0 0 / ((suc : ℝ) : ℂ) -
          FW (p.map (fun q : ℚ => ((q : ℝ) : ℂ))) (-(p.length : ℤ) + 1)
            (Complex.exp ((θ : ℂ) * Complex.I))‖ < (eps : ℝ) := by
  unfold validC07 at h
  split at h
  · cases h; cases hv
  · rename_i hc
    simp only [ne_eq, Bool.or_eq_true, decide_eq_true_eq, not_or, Decidable.not_not,
      not_le] at hc
    obtain ⟨⟨hlen, -⟩, hsuc⟩ := hc
    obtain ⟨⟨g, E⟩, hg, h⟩ := bind_ok h
    dsimp only at h
    obtain ⟨d, hd, h⟩ := bind_ok h
    refine ⟨hlen, hsuc, fun θ => ?_⟩
    obtain ⟨-, hWF, hE, -⟩ := fromAnglesBall_sound bits phis g E hg
    have hsR : (0 : ℝ) < (suc : ℝ) := by exact_mod_cast hsuc
    have hsC : ((suc : ℝ) : ℂ) ≠ 0 := by exact_mod_cast hsR.ne'
    have h1 := fromAnglesBall_I bits phis g E hg θ
    have hdv := evQ_sub (den_smul (1 / suc) g.I hWF.1).2 (WF_mk' p (-(p.length : ℤ) + 1)) hd θ
    rw [evQ_smul _ _ hWF.1, evQ_mk'] at hdv
    -- the error term
    have e : (Ucirc θ (phis.map (fun q : ℚ => (q : ℝ)))) 0 0 / ((suc : ℝ) : ℂ) -
          FW (p.map (fun q : ℚ => ((q : ℝ) : ℂ))) (-(p.length : ℤ) + 1)
            (Complex.exp ((θ : ℂ) * Complex.I))
        = evQ d θ - (evQ g.I θ - (Ucirc θ (phis.map (fun q : ℚ => (q : ℝ)))) 0 0) /
            ((suc : ℝ) : ℂ) := by
      rw [hdv]
      push_cast
      field_simp
      ring
    have n1 : ‖(evQ g.I θ - (Ucirc θ (phis.map (fun q : ℚ => (q : ℝ)))) 0 0) /
        ((suc : ℝ) : ℂ)‖ ≤ (E : ℝ) / (suc : ℝ) := by
      rw [norm_div, Complex.norm_real, Real.norm_eq_abs, abs_of_pos hsR]
      exact div_le_div_of_nonneg_right h1 hsR.le
    rw [e]
    refine lt_of_le_of_lt (norm_sub_le _ _) ?_
    split at h
    · rename_i hb
      cases h
      have hb' : ((l1 d.coefs : ℚ) : ℝ) + (E : ℝ) / (suc : ℝ) < (eps : ℝ) := by
        exact_mod_cast hb
      have n2 := norm_evQ_le d θ
      linarith
    · cases h
      simp only [Bool.and_eq_true, decide_eq_true_eq] at hv
      obtain ⟨hs, hpos⟩ := hv
      have n2 := supLeReal_evQ d _ depth hs θ
      have hpos' : (0 : ℝ) < (eps : ℝ) - (E : ℝ) / (suc : ℝ) := by exact_mod_cast hpos
      push_cast at n2
      nlinarith

/-! ## C13 -/

theorem validC13_sound (c : List ℚ) (par : ℕ) (phis : List ℚ) (budget : ℚ) (bits depth : ℕ)
    (v : VOut) (h : validC13 c par phis budget bits depth = .ok v) (hv : v.ok = true) :
    ∀ a : ℝ, a ∈ Set.Icc (-1 : ℝ) 1 →
      |(respDef .Wx .z (phis.map (fun q : ℚ => (q : ℝ))) a).im -
          ∑ k ∈ Finset.range c.length, ((c.getD k 0 : ℚ) : ℝ) *
            (Polynomial.Chebyshev.T ℝ ((2 * k + par % 2 : ℕ) : ℤ)).eval a| ≤ (budget : ℝ) := by
  intro a ha
  unfold validC13 at h
  split at h
  · cases h; cases hv
  · obtain ⟨⟨g, E⟩, hg, h⟩ := bind_ok h
    dsimp only at h
    obtain ⟨sb, hsb, h⟩ := bind_ok h
    obtain ⟨d, hd, h⟩ := bind_ok h
    obtain ⟨θ, hθ, rfl⟩ := exists_theta_of_mem_Icc a ha
    obtain ⟨-, hWF, hE, -⟩ := fromAnglesBall_sound bits phis g E hg
    obtain ⟨b1, b2⟩ := symHalf_spec _ sb hWF.2 hsb θ
    have h1 := fromAnglesBall_resp_Wx_z bits phis g E hg θ hθ
    rw [evQ_sym_real g.I θ, evQ_sym_real g.X θ, norm_sub_rev] at h1
    rw [evQ_sym_real g.X θ] at b1
    have hdv := evQ_sub b2 (chebToLP_WF par c) hd θ
    rw [b1, chebToLP_spec_T, ← Complex.ofReal_sub] at hdv
    set t : ℝ := ∑ k ∈ Finset.range c.length, ((c.getD k 0 : ℚ) : ℝ) *
      (Polynomial.Chebyshev.T ℝ ((2 * k + par % 2 : ℕ) : ℤ)).eval (Real.cos θ) with ht
    -- `|Im R − Re b| ≤ E`
    have n1 : |(respDef .Wx .z (phis.map (fun q : ℚ => (q : ℝ))) (Real.cos θ)).im -
        (evQ g.X θ).re| ≤ (E : ℝ) :=
      (abs_im_sub_le _ (evQ g.I θ).re (evQ g.X θ).re).trans h1
    -- `|Re b − t| = ‖d(θ)‖`
    have n2 : |(evQ g.X θ).re - t| = ‖evQ d θ‖ := by
      rw [hdv, Complex.norm_real, Real.norm_eq_abs]
    have n3 : |(respDef .Wx .z (phis.map (fun q : ℚ => (q : ℝ))) (Real.cos θ)).im - t| ≤
        (E : ℝ) + ‖evQ d θ‖ := by
      rw [← n2]
      have := abs_sub_le (respDef .Wx .z (phis.map (fun q : ℚ => (q : ℝ))) (Real.cos θ)).im
        (evQ g.X θ).re t
      linarith
    refine n3.trans ?_
    split at h
    · rename_i hb
      cases h
      have hb' : ((l1 d.coefs : ℚ) : ℝ) + (E : ℝ) ≤ (budget : ℝ) := by exact_mod_cast hb
      have := norm_evQ_le d θ
      linarith
    · cases h
      have := supLeReal_evQ d _ depth hv θ
      push_cast at this
      linarith

end QSP

/-
  Spectral-norm (L2 operator norm) kit for 2×2 complex matrices: unitaries have norm 1,
  entries and brackets `<v|A|v>` are bounded by the norm, norms of X-rotations, diagonal
  matrices and Hadamard conjugates.
-/
import QSP.Proofs.RespDef
import Mathlib.Analysis.CStarAlgebra.Matrix
import Mathlib.Tactic.Ring
import Mathlib.Tactic.Linarith
import Mathlib.Tactic.FieldSimp
import Mathlib.Tactic.FinCases
import Mathlib.Tactic.NormNum
import Mathlib.Tactic.Positivity
import Mathlib.Tactic.LinearCombination

open Matrix Complex
open scoped Matrix.Norms.L2Operator
namespace QSP

/-- X-rotation-like matrix `c·1 + s·iX` -/
noncomputable def rotC (c s : ℂ) : M22 := !![c, I * s; I * s, c]

/-- diagonal signal of the Wz convention `diag(e^{iθ}, e^{-iθ})` -/
noncomputable def wC (θ : ℝ) : M22 := !![exp ((θ : ℂ) * I), 0; 0, exp (-((θ : ℂ) * I))]

/-- `c·1 + s·iZ` -/
noncomputable def diagC (c s : ℂ) : M22 := !![c + I * s, 0; 0, c - I * s]

/-! ## unitaries -/

theorem norm_one_M22 : ‖(1 : M22)‖ = 1 := CStarRing.norm_one

theorem norm_eq_one_of_unitary (U : M22) (h : Uᴴ * U = 1) : ‖U‖ = 1 := by
  have h1 : ‖U‖ * ‖U‖ = 1 := by
    rw [← Matrix.l2_opNorm_conjTranspose_mul_self, h, norm_one_M22]
  have h0 : 0 ≤ ‖U‖ := norm_nonneg _
  nlinarith

theorem norm_le_one_of_unitary (U : M22) (h : Uᴴ * U = 1) : ‖U‖ ≤ 1 :=
  (norm_eq_one_of_unitary U h).le

/-! ## entries and brackets -/

/-- `|v·(A w)| ≤ ‖A‖ ‖v‖₂ ‖w‖₂` (no conjugation on `v`) -/
theorem norm_dotProduct_mulVec_le (A : M22) (v w : Fin 2 → ℂ) :
    ‖v ⬝ᵥ (A *ᵥ w)‖ ≤ ‖A‖ * (‖WithLp.toLp 2 v‖ * ‖WithLp.toLp 2 w‖) := by
  have h1 : v ⬝ᵥ (A *ᵥ w)
      = inner ℂ (WithLp.toLp 2 (star v)) (WithLp.toLp 2 (A *ᵥ w)) := by
    rw [EuclideanSpace.inner_toLp_toLp, star_star, dotProduct_comm]
  have h2 : ‖WithLp.toLp 2 (star v)‖ = ‖WithLp.toLp 2 v‖ := by
    rw [EuclideanSpace.norm_eq, EuclideanSpace.norm_eq]
    simp
  have h3 := Matrix.l2_opNorm_mulVec A (WithLp.toLp 2 w)
  rw [h1]
  refine (norm_inner_le_norm _ _).trans ?_
  rw [h2]
  calc ‖WithLp.toLp 2 v‖ * ‖WithLp.toLp 2 (A *ᵥ w)‖
      ≤ ‖WithLp.toLp 2 v‖ * (‖A‖ * ‖WithLp.toLp 2 w‖) :=
        mul_le_mul_of_nonneg_left h3 (norm_nonneg _)
    _ = _ := by ring

theorem norm_toLp_single (j : Fin 2) : ‖WithLp.toLp 2 (Pi.single j (1 : ℂ) : Fin 2 → ℂ)‖ = 1 := by
  rw [EuclideanSpace.norm_eq]
  fin_cases j <;> simp [Fin.sum_univ_two]

theorem norm_entry_le (A : M22) (i j : Fin 2) : ‖A i j‖ ≤ ‖A‖ := by
  have h := norm_dotProduct_mulVec_le A (Pi.single i 1) (Pi.single j 1)
  rw [norm_toLp_single, norm_toLp_single] at h
  simpa using h

theorem norm_bracket_le' (A : M22) (v : Fin 2 → ℂ) (hv : ∑ i, ‖v i‖ ^ 2 = 1) :
    ‖v ⬝ᵥ (A *ᵥ v)‖ ≤ ‖A‖ := by
  have h := norm_dotProduct_mulVec_le A v v
  have hn : ‖WithLp.toLp 2 v‖ * ‖WithLp.toLp 2 v‖ = 1 := by
    rw [← sq, EuclideanSpace.norm_sq_eq]
    simpa using hv
  rwa [hn, mul_one] at h

theorem inv_sqrt_two_sq : ((1 / Real.sqrt 2 : ℝ) : ℂ) * ((1 / Real.sqrt 2 : ℝ) : ℂ) = 1 / 2 := by
  rw [← Complex.ofReal_mul]
  have : (1 / Real.sqrt 2 : ℝ) * (1 / Real.sqrt 2) = 1 / 2 := by
    rw [div_mul_div_comm, Real.mul_self_sqrt (by norm_num)]; norm_num
  rw [this]; norm_num

theorem ketDef_unit (me : Meas) : ∑ i, ‖ketDef me i‖ ^ 2 = 1 := by
  cases me
  · simp only [ketDef, Fin.sum_univ_two]
    have h : ‖((1 / Real.sqrt 2 : ℝ) : ℂ)‖ ^ 2 = 1 / 2 := by
      rw [Complex.norm_real, Real.norm_eq_abs, sq_abs, div_pow, Real.sq_sqrt (by norm_num)]
      norm_num
    simp only [Pi.smul_apply, smul_eq_mul, norm_mul, mul_pow, h]
    simp
    norm_num
  · simp [ketDef, Fin.sum_univ_two]

/-- `|<m|A|m>| ≤ ‖A‖₂` for the two measurement states -/
theorem norm_bracket_le (A : M22) (me : Meas) :
    ‖ketDef me ⬝ᵥ (A *ᵥ ketDef me)‖ ≤ ‖A‖ :=
  norm_bracket_le' A _ (ketDef_unit me)

/-! ## concrete matrices -/

theorem HadMat_mul_self : HadMat * HadMat = 1 := by
  have h := inv_sqrt_two_sq
  unfold HadMat
  generalize ((1 / Real.sqrt 2 : ℝ) : ℂ) = k at h ⊢
  apply Matrix.ext; intro i j
  fin_cases i <;> fin_cases j <;>
    simp [Matrix.mul_apply, Fin.sum_univ_two] <;>
    linear_combination 2 * h

theorem HadMat_conjTranspose : HadMatᴴ = HadMat := by
  apply Matrix.ext; intro i j
  fin_cases i <;> fin_cases j <;>
    simp [HadMat, Matrix.conjTranspose_apply]

theorem norm_HadMat : ‖HadMat‖ = 1 :=
  norm_eq_one_of_unitary _ (by rw [HadMat_conjTranspose, HadMat_mul_self])

theorem norm_HadMat_le : ‖HadMat‖ ≤ 1 := norm_HadMat.le

theorem norm_had_conj_le (M : M22) : ‖HadMat * M * HadMat‖ ≤ ‖M‖ := by
  calc ‖HadMat * M * HadMat‖ ≤ ‖HadMat * M‖ * ‖HadMat‖ := norm_mul_le _ _
    _ ≤ ‖HadMat‖ * ‖M‖ * ‖HadMat‖ :=
        mul_le_mul_of_nonneg_right (norm_mul_le _ _) (norm_nonneg _)
    _ = ‖M‖ := by rw [norm_HadMat]; ring

/-- `i X` -/
noncomputable def iX : M22 := !![0, I; I, 0]

theorem norm_iX : ‖iX‖ = 1 := by
  apply norm_eq_one_of_unitary
  apply Matrix.ext; intro i j
  fin_cases i <;> fin_cases j <;>
    simp [iX, Matrix.mul_apply, Fin.sum_univ_two, Matrix.conjTranspose_apply]

theorem rotC_eq (c s : ℂ) : rotC c s = c • (1 : M22) + s • iX := by
  apply Matrix.ext; intro i j
  fin_cases i <;> fin_cases j <;>
    simp [rotC, iX, mul_comm]

theorem norm_rotC_le (c s : ℂ) : ‖rotC c s‖ ≤ ‖c‖ + ‖s‖ := by
  rw [rotC_eq]
  refine (norm_add_le _ _).trans ?_
  rw [norm_smul, norm_smul, norm_one_M22, norm_iX, mul_one, mul_one]

theorem norm_diag2_le (x y : ℂ) : ‖(!![x, 0; 0, y] : M22)‖ ≤ max ‖x‖ ‖y‖ := by
  have h : (!![x, 0; 0, y] : M22) = Matrix.diagonal ![x, y] := by
    apply Matrix.ext; intro i j
    fin_cases i <;> fin_cases j <;> simp
  rw [h, Matrix.l2_opNorm_diagonal]
  refine (pi_norm_le_iff_of_nonneg (le_max_of_le_left (norm_nonneg _))).mpr ?_
  intro i
  fin_cases i
  · exact le_max_left _ _
  · exact le_max_right _ _

theorem norm_diagC_le (c s : ℂ) : ‖diagC c s‖ ≤ ‖c‖ + ‖s‖ := by
  unfold diagC
  refine (norm_diag2_le _ _).trans (max_le ?_ ?_)
  · refine (norm_add_le _ _).trans ?_
    rw [norm_mul, Complex.norm_I, one_mul]
  · refine (norm_sub_le _ _).trans ?_
    rw [norm_mul, Complex.norm_I, one_mul]

theorem exp_mul_I_eq (φ : ℝ) :
    exp ((φ : ℂ) * I) = ((Real.cos φ : ℝ) : ℂ) + I * ((Real.sin φ : ℝ) : ℂ) := by
  rw [Complex.exp_mul_I, Complex.ofReal_cos, Complex.ofReal_sin]; ring

theorem exp_neg_mul_I_eq (φ : ℝ) :
    exp (-((φ : ℂ) * I)) = ((Real.cos φ : ℝ) : ℂ) - I * ((Real.sin φ : ℝ) : ℂ) := by
  rw [← neg_mul, Complex.exp_mul_I, Complex.cos_neg, Complex.sin_neg, Complex.ofReal_cos,
    Complex.ofReal_sin]; ring

theorem PzMat_eq (φ : ℝ) : PzMat φ = diagC (Real.cos φ) (Real.sin φ) := by
  unfold PzMat diagC
  rw [exp_mul_I_eq, exp_neg_mul_I_eq]

theorem wC_eq (θ : ℝ) : wC θ = PzMat θ := rfl

theorem cos_sq_add_sin_sq_C (φ : ℝ) :
    ((Real.cos φ : ℝ) : ℂ) * ((Real.cos φ : ℝ) : ℂ) + ((Real.sin φ : ℝ) : ℂ) * ((Real.sin φ : ℝ) : ℂ)
      = 1 := by
  rw [← Complex.ofReal_mul, ← Complex.ofReal_mul, ← Complex.ofReal_add]
  have := Real.cos_sq_add_sin_sq φ
  rw [sq, sq] at this
  rw [this]; simp

/-- `c·1 + s·iX` with real `c² + s² = 1` is unitary -/
theorem rotC_unitary (c s : ℝ) (h : c * c + s * s = 1) :
    (rotC (c : ℂ) (s : ℂ))ᴴ * rotC (c : ℂ) (s : ℂ) = 1 := by
  have hC : (c : ℂ) * c + (s : ℂ) * s = 1 := by
    rw [← Complex.ofReal_mul, ← Complex.ofReal_mul, ← Complex.ofReal_add, h]; simp
  apply Matrix.ext; intro i j
  fin_cases i <;> fin_cases j <;>
    simp [rotC, Matrix.mul_apply, Fin.sum_univ_two, Matrix.conjTranspose_apply] <;>
    first | ring1 | linear_combination hC - (s : ℂ) * s * Complex.I_mul_I

theorem diagC_unitary (c s : ℝ) (h : c * c + s * s = 1) :
    (diagC (c : ℂ) (s : ℂ))ᴴ * diagC (c : ℂ) (s : ℂ) = 1 := by
  have hC : (c : ℂ) * c + (s : ℂ) * s = 1 := by
    rw [← Complex.ofReal_mul, ← Complex.ofReal_mul, ← Complex.ofReal_add, h]; simp
  apply Matrix.ext; intro i j
  fin_cases i <;> fin_cases j <;>
    simp [diagC, Matrix.mul_apply, Fin.sum_univ_two, Matrix.conjTranspose_apply] <;>
    first | ring1 | linear_combination hC - (s : ℂ) * s * Complex.I_mul_I

theorem norm_rotC_unit (φ : ℝ) : ‖rotC (Real.cos φ) (Real.sin φ)‖ ≤ 1 :=
  norm_le_one_of_unitary _ (rotC_unitary _ _ (by
    have := Real.cos_sq_add_sin_sq φ; rw [sq, sq] at this; exact this))

theorem PzMat_unitary (φ : ℝ) : (PzMat φ)ᴴ * PzMat φ = 1 := by
  rw [PzMat_eq]
  exact diagC_unitary _ _ (by
    have := Real.cos_sq_add_sin_sq φ; rw [sq, sq] at this; exact this)

theorem norm_PzMat_le (φ : ℝ) : ‖PzMat φ‖ ≤ 1 := norm_le_one_of_unitary _ (PzMat_unitary φ)

theorem norm_wC (θ : ℝ) : ‖wC θ‖ ≤ 1 := norm_PzMat_le θ

theorem WxMat_eq (a : ℝ) : WxMat a = rotC (a : ℂ) ((Real.sqrt (1 - a ^ 2) : ℝ) : ℂ) := rfl

theorem WxMat_unitary (a : ℝ) (ha : a ∈ Set.Icc (-1 : ℝ) 1) : (WxMat a)ᴴ * WxMat a = 1 := by
  rw [WxMat_eq]
  apply rotC_unitary
  have h0 : 0 ≤ 1 - a ^ 2 := by nlinarith [ha.1, ha.2]
  rw [Real.mul_self_sqrt h0]; ring

theorem norm_WxMat_le (a : ℝ) (ha : a ∈ Set.Icc (-1 : ℝ) 1) : ‖WxMat a‖ ≤ 1 :=
  norm_le_one_of_unitary _ (WxMat_unitary a ha)

end QSP

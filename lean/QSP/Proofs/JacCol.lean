/-
  `jacF` / `jacCol` (single parts of the Jacobian specification, used by the all-lengths
  sweep of C12) are exactly the corresponding parts of `jacSpec`.
-/
import QSP.Model.Jacobian
namespace QSP

theorem mapM_ok_getD {α β : Type} (f : α → Except Err β) (dflt : β) :
    ∀ (l : List α) (r : List β), l.mapM f = .ok r →
      ∀ i (h : i < l.length), f l[i] = .ok (r.getD i dflt) := by
  intro l
  induction l with
  | nil => intro r _ i h; simp at h
  | cons a l ih =>
    intro r hr i h
    rw [List.mapM_cons] at hr
    cases hfa : f a with
    | error e => rw [hfa] at hr; cases hr
    | ok b =>
      rw [hfa] at hr
      cases hl : l.mapM f with
      | error e => rw [hl] at hr; cases hr
      | ok bs =>
        rw [hl] at hr
        have : r = b :: bs := by cases hr; rfl
        subst this
        cases i with
        | zero => simpa using hfa
        | succ i =>
          have := ih bs hl i (by simpa using h)
          simpa using this

/-- the parts computed by `jacF` and `jacCol` are the parts of `jacSpec` -/
theorem jacSpec_parts (par bits : Nat) (red : List Rat) (f : List Rat) (cols : List (List Rat))
    (h : jacSpec par bits red = .ok (f, cols)) :
    jacF par bits red = .ok f ∧
      ∀ j, j < red.length → jacCol par bits red j = .ok (cols.getD j []) := by
  unfold jacSpec at h
  simp only [bind, Except.bind] at h
  split at h
  · cases h
  · rename_i g hg
    split at h
    · cases h
    · rename_i f' hf'
      split at h
      · cases h
      · rename_i cols' hc
        cases h
        constructor
        · unfold jacF
          simp only [bind, Except.bind, hg, hf']
        · intro j hj
          have := mapM_ok_getD _ ([] : List Rat) _ _ hc j (by simpa using hj)
          rw [List.getElem_range] at this
          unfold jacCol
          exact this

end QSP

/-
  Proofs for the glue model `QSP/Model/Interleave.lean` (property C05, second half): the Laurent
  vectors `fcoefs`, `gcoefs` built by `interleavePQ` from the first-kind Chebyshev coefficients of
  `P = pre + i pim` and the second-kind Chebyshev coefficients of `Q = qre + i qim` denote, at every
  point `e^{iθ}` of the circle,

      F = Σ_k pre_k cos kθ + i Σ_k qre_{k-1} sin kθ,   G = Σ_k pim_k cos kθ − i Σ_k qim_{k-1} sin kθ

  (`k ≤ deg`, `k ≡ deg mod 2`), hence the Hadamard-conjugated matrix of `F + G·iX` has the entries
  `P(cos θ)`, `i Q(cos θ) sin θ`, `i Q*(cos θ) sin θ`, `P*(cos θ)`.
-/
import QSP.Model.Interleave
import QSP.Proofs.ValidPhase
import QSP.Proofs.Generators
import Mathlib.Analysis.SpecialFunctions.Trigonometric.Chebyshev.Basic

open LaurentPolynomial Complex
namespace QSP

/-! ## statement vocabulary -/

/-- `Σ_{k ≤ deg, k ≡ deg (mod 2)} h k` -/
noncomputable def parSum (deg : ℕ) (h : ℕ → ℝ) : ℝ :=
  ∑ k ∈ (Finset.range (deg + 1)).filter (fun k => k % 2 = deg % 2), h k

/-- the parity-filtered cosine sum `Σ_{k ≤ deg, k ≡ deg} c_k cos kθ` -/
noncomputable def cosPart (deg : ℕ) (c : List ℚ) (θ : ℝ) : ℝ :=
  parSum deg (fun k => ((c.getD k 0 : ℚ) : ℝ) * Real.cos ((k : ℝ) * θ))

/-- the parity-filtered sine sum `Σ_{k ≤ deg, k ≡ deg} c_{k-1} sin kθ` (`c_{-1} := 0`; `c_j` is the
    coefficient of `U_j`, and `U_j(cos θ) sin θ = sin((j+1)θ)`) -/
noncomputable def sinPart (deg : ℕ) (c : List ℚ) (θ : ℝ) : ℝ :=
  parSum deg (fun k => (((0 :: c).getD k 0 : ℚ) : ℝ) * Real.sin ((k : ℝ) * θ))

/-- value `Σ_j c_j U_j(x)` of a Chebyshev series of the second kind -/
noncomputable def chebUAt (c : List ℚ) (x : ℝ) : ℝ :=
  wsum (fun k => (Polynomial.Chebyshev.U ℝ (k : ℤ)).eval x) c 0

theorem chebUAt_eq_sum (c : List ℚ) (x : ℝ) :
    chebUAt c x = ∑ k ∈ Finset.range c.length,
      ((c.getD k 0 : ℚ) : ℝ) * (Polynomial.Chebyshev.U ℝ (k : ℤ)).eval x := by
  rw [chebUAt, wsum_eq_sum]
  simp only [zero_add]

theorem cosPart_neg (deg : ℕ) (c : List ℚ) (θ : ℝ) : cosPart deg c (-θ) = cosPart deg c θ := by
  simp only [cosPart, mul_neg, Real.cos_neg]

theorem sinPart_neg (deg : ℕ) (c : List ℚ) (θ : ℝ) : sinPart deg c (-θ) = - sinPart deg c θ := by
  simp only [sinPart, parSum, mul_neg, Real.sin_neg, Finset.sum_neg_distrib]

/-! ## lengths -/

theorem evens_odds_length {α : Type} (l : List α) :
    (evens l).length = (l.length + 1) / 2 ∧ (odds l).length = l.length / 2 := by
  induction l with
  | nil => simp [evens, odds]
  | cons x xs ih =>
    rw [evens_cons, odds_cons, List.length_cons, List.length_cons, ih.1, ih.2]
    omega

theorem everyOther_length (par : ℕ) (l : List ℚ) :
    (everyOther par l).length = (l.length + 1 - par % 2) / 2 := by
  unfold everyOther
  split
  · rw [(evens_odds_length l).1]; omega
  · rw [(evens_odds_length l).2]; omega

theorem everyOther_getD (par : ℕ) (l : List ℚ) (j : ℕ) :
    (everyOther par l).getD j 0 = l.getD (2 * j + par % 2) 0 := by
  unfold everyOther
  split
  · rw [(evens_odds_getD l 0 j).1]; congr 1; omega
  · rw [(evens_odds_getD l 0 j).2]; congr 1; omega

theorem halfSub_length (a b : List ℚ) : (halfSub a b).length = min a.length b.length := by
  simp [halfSub]

theorem halfAdd_length (a b : List ℚ) : (halfAdd a b).length = min a.length b.length := by
  simp [halfAdd]

theorem halfAdd_eq_halfSub_neg (a b : List ℚ) : halfAdd a b = halfSub a (b.map (- ·)) := by
  induction a generalizing b with
  | nil => simp [halfAdd, halfSub]
  | cons x xs ih =>
    cases b with
    | nil => simp [halfAdd, halfSub]
    | cons y ys =>
      have := ih ys
      simp only [halfAdd, halfSub, List.zipWith_cons_cons, List.map_cons] at this ⊢
      rw [this, sub_neg_eq_add]

theorem halfSub_eq_halfAdd_neg (a b : List ℚ) : halfSub a b = halfAdd a (b.map (- ·)) := by
  rw [halfAdd_eq_halfSub_neg, List.map_map]
  congr 1
  conv_lhs => rw [← List.map_id b]
  apply List.map_congr_left
  intro x _
  simp

/-- the `gcoefs` pattern is the `fcoefs` pattern with `q` negated -/
theorem interleaveOne_false (deg : ℕ) (p q : List ℚ) :
    interleaveOne deg p q false = interleaveOne deg p (q.map (- ·)) true := by
  simp only [interleaveOne, Bool.false_eq_true, if_false, if_true,
    ← halfAdd_eq_halfSub_neg, ← halfSub_eq_halfAdd_neg]

theorem interleaveOne_length (deg : ℕ) (p q : List ℚ) (b : Bool) (hl : p.length ≤ q.length)
    (hd : deg % 2 = 0 → p ≠ []) :
    (interleaveOne deg p q b).length = 2 * p.length - (1 - deg % 2) := by
  have h1 : (halfSub p q).length = p.length := by rw [halfSub_length]; omega
  have h2 : (halfAdd p q).length = p.length := by rw [halfAdd_length]; omega
  unfold interleaveOne
  by_cases he : deg % 2 = 0
  · rw [if_pos he]
    cases p with
    | nil => exact absurd rfl (hd he)
    | cons p0 pt =>
      cases b <;>
        simp only [List.length_append, List.length_reverse, List.length_drop,
          List.length_nil, Bool.false_eq_true, ↓reduceIte, h1, h2,
          List.length_cons] <;> omega
  · rw [if_neg he]
    cases b <;>
      simp only [List.length_append, List.length_reverse, Bool.false_eq_true, ↓reduceIte,
        h1, h2] <;> omega

/-- shape of `fcoefs` -/
theorem interleavePQ_length_fst (pre pim qre qim : List ℚ) (hq : pre.length - 1 ≤ qre.length) :
    (interleavePQ pre pim qre qim).1.length = pre.length := by
  cases pre with
  | nil => simp [interleavePQ, interleaveOne, everyOther, evens]
  | cons x xs =>
    simp only [interleavePQ]
    rw [interleaveOne_length]
    · rw [everyOther_length]; simp only [List.length_cons] at hq ⊢; omega
    · rw [everyOther_length, everyOther_length]; simp only [List.length_cons] at hq ⊢; omega
    · intro _ h
      have := congrArg List.length h
      rw [everyOther_length] at this
      simp only [List.length_cons, List.length_nil] at this
      omega

/-- shape of `gcoefs` -/
theorem interleavePQ_length_snd (pre pim qre qim : List ℚ) (hp : pim.length = pre.length)
    (hq : pre.length - 1 ≤ qim.length) :
    (interleavePQ pre pim qre qim).2.length = pre.length := by
  cases pim with
  | nil =>
    have : pre = [] := List.length_eq_zero_iff.mp hp.symm
    subst this
    simp [interleavePQ, interleaveOne, everyOther, evens]
  | cons x xs =>
    simp only [interleavePQ]
    rw [interleaveOne_length]
    · rw [everyOther_length]; simp only [List.length_cons] at hq hp ⊢; omega
    · rw [everyOther_length, everyOther_length]; simp only [List.length_cons] at hq hp ⊢; omega
    · intro _ h
      have := congrArg List.length h
      rw [everyOther_length] at this
      simp only [List.length_cons, List.length_nil] at this hp
      omega

/-! ## the core identity: mirrored half-difference / half-sum vectors -/

/-- `Σ_j ( a_j cos((k+2j)θ) + i b_j sin((k+2j)θ) )` over the common length -/
noncomputable def csL : List ℚ → List ℚ → ℕ → ℝ → ℂ
  | a :: as, b :: bs, k, θ =>
      (a : ℂ) * ((Real.cos ((k : ℝ) * θ) : ℝ) : ℂ) + I * (b : ℂ) * ((Real.sin ((k : ℝ) * θ) : ℝ) : ℂ)
        + csL as bs (k + 2) θ
  | [], _, _, _ => 0
  | _ :: _, [], _, _ => 0

theorem csL_nil_right (a : List ℚ) (k : ℕ) (θ : ℝ) : csL a [] k θ = 0 := by
  cases a <;> rfl

/-- one mirrored pair of monomials -/
theorem pair_eq (a b : ℚ) (k : ℕ) (θ : ℝ) :
    (((((a - b) / 2 : ℚ) : ℝ) : ℂ)) * exp (((-θ : ℝ) : ℂ) * I) ^ (k : ℤ) +
      (((((a + b) / 2 : ℚ) : ℝ) : ℂ)) * exp ((θ : ℂ) * I) ^ (k : ℤ) =
    (a : ℂ) * ((Real.cos ((k : ℝ) * θ) : ℝ) : ℂ) +
      I * (b : ℂ) * ((Real.sin ((k : ℝ) * θ) : ℝ) : ℂ) := by
  rw [← Complex.exp_int_mul, ← Complex.exp_int_mul]
  push_cast
  rw [Complex.cos, Complex.sin]
  have e1 : (k : ℂ) * (-(θ : ℂ) * I) = -((k : ℂ) * (θ : ℂ)) * I := by ring
  have e2 : (k : ℂ) * ((θ : ℂ) * I) = (k : ℂ) * (θ : ℂ) * I := by ring
  rw [e1, e2]
  linear_combination
    (-(b : ℂ) * (exp (-((k : ℂ) * (θ : ℂ)) * I) - exp ((k : ℂ) * (θ : ℂ) * I)) / 2) * I_mul_I

theorem evalQ_halves (p q : List ℚ) (k : ℕ) (θ : ℝ) :
    evalQ (-θ) (denL (halfSub p q) (k : ℤ)) + evalQ θ (denL (halfAdd p q) (k : ℤ)) =
      csL p q k θ := by
  induction p generalizing q k with
  | nil => simp [halfSub, halfAdd, csL]
  | cons a as ih =>
    cases q with
    | nil => simp [halfSub, halfAdd, csL]
    | cons b bs =>
      have h := ih bs (k + 2)
      simp only [halfSub, halfAdd] at h
      simp only [halfSub, halfAdd, List.zipWith_cons_cons, denL_cons, map_add, map_mul, evalQ_C,
        evalQ_T, csL]
      rw [← pair_eq, ← h]
      push_cast
      ring

/-- the mirrored vector of `interleaveOne` on the powers `-deg, …, deg` -/
theorem evalQ_interleaveOne (deg : ℕ) (p q : List ℚ) (hl : p.length ≤ q.length) (hp : p ≠ [])
    (hd : deg + 2 = 2 * p.length + deg % 2) (θ : ℝ) :
    evalQ θ (denL (interleaveOne deg p q true) (-(deg : ℤ))) = csL p q (deg % 2) θ := by
  have h1 : (halfSub p q).length = p.length := by rw [halfSub_length]; omega
  have h2 : (halfAdd p q).length = p.length := by rw [halfAdd_length]; omega
  unfold interleaveOne
  simp only [↓reduceIte]
  by_cases he : deg % 2 = 0
  · rw [if_pos he, he]
    cases p with
    | nil => exact absurd rfl hp
    | cons p0 pt =>
      cases q with
      | nil => simp at hl
      | cons q0 qt =>
        simp only [List.length_cons] at hd
        have e0 : -(deg : ℤ) = -(2 * ((halfSub pt qt).length : ℤ) + 2 - 2) := by
          have : (halfSub pt qt).length = pt.length := by
            rw [halfSub_length]; simp only [List.length_cons] at hl; omega
          rw [this]; omega
        have e1 : -(deg : ℤ) + 2 * (((halfSub pt qt).reverse.length : ℕ) : ℤ) = 0 := by
          rw [e0, List.length_reverse]; ring
        have hdrop1 : (halfSub (p0 :: pt) (q0 :: qt)).drop 1 = halfSub pt qt := by
          simp [halfSub]
        have hdrop2 : (halfAdd (p0 :: pt) (q0 :: qt)).drop 1 = halfAdd pt qt := by
          simp [halfAdd]
        dsimp only
        rw [hdrop1, hdrop2, List.append_assoc, denL_append, e1, e0, denL_reverse,
          List.singleton_append, denL_cons, map_add, map_add, map_mul, evalQ_invert,
          evalQ_C, evalQ_T, zpow_zero, mul_one]
        have h := evalQ_halves pt qt 2 θ
        have c2 : (((2 : ℕ) : ℤ)) = (0 : ℤ) + 2 := by norm_num
        rw [c2] at h
        rw [csL]
        simp only [Nat.cast_zero, zero_mul, Real.cos_zero, Real.sin_zero, Complex.ofReal_one,
          Complex.ofReal_zero, mul_one, mul_zero, add_zero, zero_add]
        rw [← h]
        push_cast
        ring
  · rw [if_neg he]
    have ho : deg % 2 = 1 := by omega
    rw [ho]
    have e0 : -(deg : ℤ) = -(2 * ((halfSub p q).length : ℤ) + 1 - 2) := by rw [h1]; omega
    have e1 : -(deg : ℤ) + 2 * (((halfSub p q).reverse.length : ℕ) : ℤ) = 1 := by
      rw [e0, List.length_reverse]; ring
    rw [denL_append, e1, e0, denL_reverse, map_add, evalQ_invert]
    exact evalQ_halves p q 1 θ

/-! ## from the two-step list sum to the parity-filtered sum -/

theorem csL_eq_sum (p q : List ℚ) (hl : p.length ≤ q.length) (k : ℕ) (θ : ℝ) :
    csL p q k θ = ∑ j ∈ Finset.range p.length,
      ((p.getD j 0 : ℂ) * ((Real.cos (((k + 2 * j : ℕ) : ℝ) * θ) : ℝ) : ℂ) +
        I * (q.getD j 0 : ℂ) * ((Real.sin (((k + 2 * j : ℕ) : ℝ) * θ) : ℝ) : ℂ)) := by
  induction p generalizing q k with
  | nil => simp [csL]
  | cons a as ih =>
    cases q with
    | nil => simp at hl
    | cons b bs =>
      simp only [List.length_cons, Nat.add_le_add_iff_right] at hl
      rw [csL, ih bs hl, List.length_cons, Finset.sum_range_succ']
      simp only [List.getD_cons_succ, List.getD_cons_zero, mul_zero, add_zero]
      rw [add_comm]
      congr 1
      apply Finset.sum_congr rfl
      intro i _
      rw [show k + 2 + 2 * i = k + 2 * (i + 1) by ring]

/-- reindexing `j ↦ 2 j + deg % 2` -/
theorem sum_range_eq_parSum (deg n : ℕ) (hd : deg + 2 = 2 * n + deg % 2) (h : ℕ → ℂ) :
    ∑ j ∈ Finset.range n, h (deg % 2 + 2 * j) =
      ∑ k ∈ (Finset.range (deg + 1)).filter (fun k => k % 2 = deg % 2), h k := by
  refine Finset.sum_nbij' (fun j => deg % 2 + 2 * j) (fun k => k / 2) ?_ ?_ ?_ ?_ ?_
  · intro j hj
    simp only [Finset.mem_range, Finset.mem_filter] at hj ⊢
    omega
  · intro k hk
    simp only [Finset.mem_range, Finset.mem_filter] at hk ⊢
    omega
  · intro j _
    show (deg % 2 + 2 * j) / 2 = j
    omega
  · intro k hk
    simp only [Finset.mem_range, Finset.mem_filter] at hk
    show deg % 2 + 2 * (k / 2) = k
    omega
  · intro j _; rfl

theorem ofReal_parSum (deg : ℕ) (h : ℕ → ℝ) :
    ((parSum deg h : ℝ) : ℂ) =
      ∑ k ∈ (Finset.range (deg + 1)).filter (fun k => k % 2 = deg % 2), ((h k : ℝ) : ℂ) := by
  rw [parSum, Complex.ofReal_sum]

/-- value of one slot family in the statement vocabulary -/
theorem evalQ_interleave_slot (pre qre : List ℚ) (x : ℚ) (xs : List ℚ) (hpre : pre = x :: xs)
    (hq : pre.length - 1 ≤ qre.length) (θ : ℝ) :
    evalQ θ (denL (interleaveOne (pre.length - 1) (everyOther (pre.length - 1) pre)
        (everyOther (pre.length - 1) (0 :: qre)) true) (-((pre.length - 1 : ℕ) : ℤ))) =
      ((cosPart (pre.length - 1) pre θ : ℝ) : ℂ) +
        I * ((sinPart (pre.length - 1) qre θ : ℝ) : ℂ) := by
  have hlen : pre.length = xs.length + 1 := by rw [hpre]; rfl
  set deg := pre.length - 1 with hdeg
  have hL1 : (everyOther deg pre).length = (deg + 2 - deg % 2) / 2 := by
    rw [everyOther_length]; congr 1; omega
  have hL2 : (everyOther deg (0 :: qre)).length = (qre.length + 2 - deg % 2) / 2 := by
    rw [everyOther_length, List.length_cons]
  have hd : deg + 2 = 2 * (everyOther deg pre).length + deg % 2 := by rw [hL1]; omega
  have hl : (everyOther deg pre).length ≤ (everyOther deg (0 :: qre)).length := by
    rw [hL1, hL2]; omega
  have hne : everyOther deg pre ≠ [] := by
    intro h
    have := congrArg List.length h
    rw [hL1] at this
    simp only [List.length_nil] at this
    omega
  rw [evalQ_interleaveOne deg _ _ hl hne hd, csL_eq_sum _ _ hl]
  have key := sum_range_eq_parSum deg _ hd (fun k =>
      ((pre.getD k 0 : ℚ) : ℂ) * ((Real.cos (((k : ℕ) : ℝ) * θ) : ℝ) : ℂ) +
        I * (((0 :: qre).getD k 0 : ℚ) : ℂ) * ((Real.sin (((k : ℕ) : ℝ) * θ) : ℝ) : ℂ))
  refine Eq.trans (Finset.sum_congr rfl ?_) (key.trans ?_)
  · intro j _
    rw [everyOther_getD, everyOther_getD, show 2 * j + deg % 2 = deg % 2 + 2 * j by ring]
  · rw [cosPart, sinPart, ofReal_parSum, ofReal_parSum, Finset.mul_sum, ← Finset.sum_add_distrib]
    apply Finset.sum_congr rfl
    intro k _
    push_cast
    ring

theorem sinPart_map_neg (deg : ℕ) (c : List ℚ) (θ : ℝ) :
    sinPart deg (c.map (- ·)) θ = - sinPart deg c θ := by
  simp only [sinPart, parSum]
  rw [← Finset.sum_neg_distrib]
  apply Finset.sum_congr rfl
  intro k _
  have : (0 :: c.map (- ·)) = (0 :: c).map (- ·) := by simp
  rw [this, List.getD_eq_getElem?_getD, List.getD_eq_getElem?_getD, List.getElem?_map]
  cases (0 :: c)[k]? <;> simp

theorem everyOther_map_neg (par : ℕ) (l : List ℚ) :
    everyOther par (0 :: l.map (- ·)) = (everyOther par (0 :: l)).map (- ·) := by
  have : (0 :: l.map (- ·)) = (0 :: l).map (- ·) := by simp
  rw [this]
  unfold everyOther
  split
  · exact (evens_odds_map _ _).1
  · exact (evens_odds_map _ _).2

/-! ## MAIN: cosine / sine decomposition of `fcoefs`, `gcoefs` on the circle -/

/-- `F(e^{iθ}) = Σ_k pre_k cos kθ + i Σ_k qre_{k-1} sin kθ` -/
theorem evQ_interleavePQ_fst (pre pim qre qim : List ℚ) (hq : pre.length - 1 ≤ qre.length)
    (θ : ℝ) :
    evQ (LP.mk' (interleavePQ pre pim qre qim).1 (-((pre.length - 1 : ℕ) : ℤ))) θ =
      ((cosPart (pre.length - 1) pre θ : ℝ) : ℂ) +
        I * ((sinPart (pre.length - 1) qre θ : ℝ) : ℂ) := by
  rw [evQ_eq, den_mk']
  cases hpre : pre with
  | nil =>
    simp [interleavePQ, interleaveOne, everyOther, evens, cosPart, sinPart, parSum,
      Finset.sum_filter]
  | cons x xs =>
    rw [← hpre]
    exact evalQ_interleave_slot pre qre x xs hpre hq θ

/-- `G(e^{iθ}) = Σ_k pim_k cos kθ − i Σ_k qim_{k-1} sin kθ` -/
theorem evQ_interleavePQ_snd (pre pim qre qim : List ℚ) (hp : pim.length = pre.length)
    (hq : pre.length - 1 ≤ qim.length) (θ : ℝ) :
    evQ (LP.mk' (interleavePQ pre pim qre qim).2 (-((pre.length - 1 : ℕ) : ℤ))) θ =
      ((cosPart (pre.length - 1) pim θ : ℝ) : ℂ) -
        I * ((sinPart (pre.length - 1) qim θ : ℝ) : ℂ) := by
  rw [evQ_eq, den_mk']
  cases hpim : pim with
  | nil =>
    have : pre = [] := List.length_eq_zero_iff.mp (by rw [← hp, hpim]; rfl)
    subst this
    simp [interleavePQ, interleaveOne, everyOther, evens, cosPart, sinPart, parSum,
      Finset.sum_filter]
  | cons x xs =>
    rw [← hpim]
    simp only [interleavePQ]
    rw [interleaveOne_false, ← everyOther_map_neg, ← hp]
    rw [evalQ_interleave_slot pim (qim.map (- ·)) x xs hpim (by rw [List.length_map, hp]; exact hq),
      sinPart_map_neg]
    push_cast
    ring

/-- the same two statements written out as one parity-filtered sum each -/
theorem evQ_interleavePQ_sums (pre pim qre qim : List ℚ) (hp : pim.length = pre.length)
    (hqr : pre.length - 1 ≤ qre.length) (hqi : pre.length - 1 ≤ qim.length) (θ : ℝ) :
    let d := pre.length - 1
    evQ (LP.mk' (interleavePQ pre pim qre qim).1 (-(d : ℤ))) θ =
        ∑ k ∈ (Finset.range (d + 1)).filter (fun k => k % 2 = d % 2),
          ((pre.getD k 0 : ℂ) * Complex.cos ((k : ℂ) * (θ : ℂ)) +
            I * ((0 :: qre).getD k 0 : ℂ) * Complex.sin ((k : ℂ) * (θ : ℂ))) ∧
    evQ (LP.mk' (interleavePQ pre pim qre qim).2 (-(d : ℤ))) θ =
        ∑ k ∈ (Finset.range (d + 1)).filter (fun k => k % 2 = d % 2),
          ((pim.getD k 0 : ℂ) * Complex.cos ((k : ℂ) * (θ : ℂ)) -
            I * ((0 :: qim).getD k 0 : ℂ) * Complex.sin ((k : ℂ) * (θ : ℂ))) := by
  intro d
  rw [evQ_interleavePQ_fst pre pim qre qim hqr, evQ_interleavePQ_snd pre pim qre qim hp hqi]
  simp only [cosPart, sinPart, ofReal_parSum, Finset.mul_sum, ← Finset.sum_add_distrib,
    ← Finset.sum_sub_distrib]
  constructor <;>
  · apply Finset.sum_congr rfl
    intro k _
    push_cast
    ring

/-! ## COROLLARIES: the Hadamard-conjugated matrix entries -/

section corners
variable (pre pim qre qim : List ℚ) (θ : ℝ)

/-- the four entries of `H · [[F(θ), iG(θ)], [iG(−θ), F(−θ)]] · H` through the parity-filtered
    sums: `P`, `iQ·sin`, `iQ*·sin`, `P*` -/
theorem interleavePQ_corners (hp : pim.length = pre.length)
    (hqr : pre.length - 1 ≤ qre.length) (hqi : pre.length - 1 ≤ qim.length) :
    let d := pre.length - 1
    let f := LP.mk' (interleavePQ pre pim qre qim).1 (-(d : ℤ))
    let g := LP.mk' (interleavePQ pre pim qre qim).2 (-(d : ℤ))
    ((evQ f θ + evQ f (-θ)) / 2 + I * ((evQ g θ + evQ g (-θ)) / 2) =
        ((cosPart d pre θ : ℝ) : ℂ) + I * ((cosPart d pim θ : ℝ) : ℂ)) ∧
    ((evQ f θ - evQ f (-θ)) / 2 - I * ((evQ g θ - evQ g (-θ)) / 2) =
        I * (((sinPart d qre θ : ℝ) : ℂ) + I * ((sinPart d qim θ : ℝ) : ℂ))) ∧
    ((evQ f θ - evQ f (-θ)) / 2 + I * ((evQ g θ - evQ g (-θ)) / 2) =
        I * (((sinPart d qre θ : ℝ) : ℂ) - I * ((sinPart d qim θ : ℝ) : ℂ))) ∧
    ((evQ f θ + evQ f (-θ)) / 2 - I * ((evQ g θ + evQ g (-θ)) / 2) =
        ((cosPart d pre θ : ℝ) : ℂ) - I * ((cosPart d pim θ : ℝ) : ℂ)) := by
  intro d f g
  have hf : ∀ t : ℝ, evQ f t = _ := evQ_interleavePQ_fst pre pim qre qim hqr
  have hg : ∀ t : ℝ, evQ g t = _ := evQ_interleavePQ_snd pre pim qre qim hp hqi
  rw [hf θ, hf (-θ), hg θ, hg (-θ)]
  simp only [cosPart_neg, sinPart_neg]
  push_cast
  refine ⟨by ring, by ring, by ring, by ring⟩

end corners

/-! ## the parity-filtered sums of definite-parity coefficient lists are the Chebyshev series -/

theorem parSum_eq_sum_range (deg : ℕ) (h : ℕ → ℝ) (hz : ∀ k, k % 2 ≠ deg % 2 → h k = 0) :
    parSum deg h = ∑ k ∈ Finset.range (deg + 1), h k := by
  rw [parSum, Finset.sum_filter]
  apply Finset.sum_congr rfl
  intro k _
  split
  · rfl
  · exact (hz k ‹_›).symm

/-- for a first-kind coefficient list of parity `deg`: `cosPart = Σ_k c_k T_k(cos θ)` -/
theorem cosPart_eq_chebAt (deg : ℕ) (c : List ℚ) (hlen : c.length = deg + 1) (hz : OppZero deg c)
    (θ : ℝ) : cosPart deg c θ = chebAt c (Real.cos θ) := by
  rw [cosPart, parSum_eq_sum_range, chebAt_eq_sum, hlen]
  · apply Finset.sum_congr rfl
    intro k _
    rw [Polynomial.Chebyshev.T_real_cos]
    push_cast
    rfl
  · intro k hk
    rw [hz k hk]; simp

/-- for a second-kind coefficient list of parity `deg - 1`:
    `sinPart = (Σ_j c_j U_j(cos θ)) · sin θ` -/
theorem sinPart_eq_chebUAt (deg : ℕ) (c : List ℚ) (hlen : c.length = deg)
    (hz : OppZero (deg + 1) c) (θ : ℝ) :
    sinPart deg c θ = chebUAt c (Real.cos θ) * Real.sin θ := by
  rw [sinPart, parSum_eq_sum_range, chebUAt_eq_sum, hlen, Finset.sum_range_succ', Finset.sum_mul]
  · simp only [List.getD_cons_succ, List.getD_cons_zero, Rat.cast_zero, zero_mul, add_zero]
    apply Finset.sum_congr rfl
    intro k _
    rw [mul_assoc, Polynomial.Chebyshev.U_real_cos]
    push_cast
    rfl
  · intro k hk
    cases k with
    | zero => simp
    | succ j =>
      rw [List.getD_cons_succ, hz j (by omega)]; simp

/-- the corner of the Hadamard-conjugated matrix is `P(cos θ)` (property C05), the off-diagonal
    entries are `i Q(cos θ) sin θ` and `i Q*(cos θ) sin θ`, the last diagonal entry `P*(cos θ)` -/
theorem interleavePQ_corners_cheb (pre pim qre qim : List ℚ) (deg : ℕ)
    (h1 : pre.length = deg + 1) (h2 : pim.length = deg + 1)
    (h3 : qre.length = deg) (h4 : qim.length = deg)
    (z1 : OppZero deg pre) (z2 : OppZero deg pim)
    (z3 : OppZero (deg + 1) qre) (z4 : OppZero (deg + 1) qim) (θ : ℝ) :
    let f := LP.mk' (interleavePQ pre pim qre qim).1 (-(deg : ℤ))
    let g := LP.mk' (interleavePQ pre pim qre qim).2 (-(deg : ℤ))
    ((evQ f θ + evQ f (-θ)) / 2 + I * ((evQ g θ + evQ g (-θ)) / 2) =
        ((chebAt pre (Real.cos θ) : ℝ) : ℂ) + I * ((chebAt pim (Real.cos θ) : ℝ) : ℂ)) ∧
    ((evQ f θ - evQ f (-θ)) / 2 - I * ((evQ g θ - evQ g (-θ)) / 2) =
        I * ((((chebUAt qre (Real.cos θ) : ℝ) : ℂ) + I * ((chebUAt qim (Real.cos θ) : ℝ) : ℂ)) *
          ((Real.sin θ : ℝ) : ℂ))) ∧
    ((evQ f θ - evQ f (-θ)) / 2 + I * ((evQ g θ - evQ g (-θ)) / 2) =
        I * ((((chebUAt qre (Real.cos θ) : ℝ) : ℂ) - I * ((chebUAt qim (Real.cos θ) : ℝ) : ℂ)) *
          ((Real.sin θ : ℝ) : ℂ))) ∧
    ((evQ f θ + evQ f (-θ)) / 2 - I * ((evQ g θ + evQ g (-θ)) / 2) =
        ((chebAt pre (Real.cos θ) : ℝ) : ℂ) - I * ((chebAt pim (Real.cos θ) : ℝ) : ℂ)) := by
  have hd : pre.length - 1 = deg := by omega
  have h := interleavePQ_corners pre pim qre qim θ (by omega) (by omega) (by omega)
  simp only [hd] at h
  rw [cosPart_eq_chebAt deg pre h1 z1, cosPart_eq_chebAt deg pim h2 z2,
    sinPart_eq_chebUAt deg qre h3 z3, sinPart_eq_chebUAt deg qim h4 z4] at h
  intro f g
  obtain ⟨a, b, c, d⟩ := h
  refine ⟨a, ?_, ?_, d⟩
  · rw [b]; push_cast; ring
  · rw [c]; push_cast; ring

/-- the corner in the form checked by `validC05` (lowest power written `-(length) + 1`) -/
theorem interleavePQ_corner_lenForm (pre pim qre qim : List ℚ) (deg : ℕ)
    (h1 : pre.length = deg + 1) (h2 : pim.length = deg + 1)
    (h3 : qre.length = deg) (h4 : qim.length = deg)
    (z1 : OppZero deg pre) (z2 : OppZero deg pim) (θ : ℝ) :
    let F := (interleavePQ pre pim qre qim).1
    let G := (interleavePQ pre pim qre qim).2
    (evQ (LP.mk' F (-(F.length : ℤ) + 1)) θ + evQ (LP.mk' F (-(F.length : ℤ) + 1)) (-θ)) / 2 +
        I * ((evQ (LP.mk' G (-(G.length : ℤ) + 1)) θ +
          evQ (LP.mk' G (-(G.length : ℤ) + 1)) (-θ)) / 2) =
      ((chebAt pre (Real.cos θ) : ℝ) : ℂ) + I * ((chebAt pim (Real.cos θ) : ℝ) : ℂ) := by
  intro F G
  have hF : F.length = pre.length := interleavePQ_length_fst pre pim qre qim (by omega)
  have hG : G.length = pre.length := interleavePQ_length_snd pre pim qre qim (by omega) (by omega)
  have hd : pre.length - 1 = deg := by omega
  have e : -((pre.length : ℕ) : ℤ) + 1 = -(deg : ℤ) := by omega
  have h := (interleavePQ_corners pre pim qre qim θ (by omega) (by omega) (by omega)).1
  simp only [hd] at h
  rw [cosPart_eq_chebAt deg pre h1 z1, cosPart_eq_chebAt deg pim h2 z2] at h
  rw [hF, hG, e]
  exact h

end QSP

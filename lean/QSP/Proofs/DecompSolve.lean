/-
  Proofs for `QSP/Properties/C06e.lean`: the linear system of `decompose(g, ldeg)` is SOLVABLE for
  every element built from phases (by the conjugate of the documented prefix), and the solution
  is UNIQUE when the interior cosines do not vanish.

  The algebra of pairs `(A, B)` of Laurent polynomials with the product of `LAlg.__mul__`
  (`P2`, a monoid) is the denotation of `LA`; no square root of `-1` is needed.
-/
import QSP.Proofs.LinSys
import QSP.Proofs.LRange
import QSP.Proofs.Decomp
import QSP.Model.DecompSplit
import Mathlib.Algebra.Polynomial.Laurent
import Mathlib.Tactic.Ring
import Mathlib.Tactic.LinearCombination
open LaurentPolynomial
namespace QSP
namespace DS
variable {R : Type} [CommRing R]

/-! ## 1. the pair algebra -/

/-- pairs `A + B·iX` of Laurent polynomials -/
@[ext] structure P2 (R : Type) [CommRing R] where
  A : R[T;T⁻¹]
  B : R[T;T⁻¹]

theorem inv_inv' (f : R[T;T⁻¹]) : invert (invert f) = f := involutive_invert f

noncomputable instance : Mul (P2 R) := ⟨fun g h => ⟨g.A * h.A - g.B * invert h.B, g.A * h.B + g.B * invert h.A⟩⟩
noncomputable instance : One (P2 R) := ⟨⟨1, 0⟩⟩

theorem mul_A (g h : P2 R) : (g * h).A = g.A * h.A - g.B * invert h.B := rfl
theorem mul_B (g h : P2 R) : (g * h).B = g.A * h.B + g.B * invert h.A := rfl
@[simp] theorem one_A : (1 : P2 R).A = 1 := rfl
@[simp] theorem one_B : (1 : P2 R).B = 0 := rfl

noncomputable instance : Monoid (P2 R) where
  mul_assoc a b c := by
    refine P2.ext ?_ ?_
    · simp only [mul_A, mul_B, map_add, map_sub, map_mul, inv_inv']; ring
    · simp only [mul_A, mul_B, map_add, map_sub, map_mul, inv_inv']; ring
  one_mul a := by refine P2.ext ?_ ?_ <;> simp [mul_A, mul_B]
  mul_one a := by refine P2.ext ?_ ?_ <;> simp [mul_A, mul_B]

/-- the conjugate `~g = (A(1/w), -B)` -/
noncomputable def conj (g : P2 R) : P2 R := ⟨invert g.A, -g.B⟩

/-- `A A~ + B B~` -/
noncomputable def nrm (g : P2 R) : R[T;T⁻¹] := g.A * invert g.A + g.B * invert g.B

theorem nrm_mul (g h : P2 R) : nrm (g * h) = nrm g * nrm h := by
  simp only [nrm, mul_A, mul_B, map_add, map_sub, map_mul, inv_inv']; ring

theorem conj_mul_self (g : P2 R) : conj g * g = ⟨nrm g, 0⟩ := by
  refine P2.ext ?_ ?_
  · simp only [mul_A, conj, nrm, map_neg]; ring
  · simp only [mul_B, conj, inv_inv']; ring

theorem self_mul_conj (g : P2 R) : g * conj g = ⟨nrm g, 0⟩ := by
  refine P2.ext ?_ ?_
  · simp only [mul_A, conj, nrm, map_neg]; ring
  · simp only [mul_B, conj, inv_inv']; ring

theorem conj_mul_self_of_nrm {g : P2 R} (h : nrm g = 1) : conj g * g = 1 := by
  rw [conj_mul_self, h]; rfl

theorem self_mul_conj_of_nrm {g : P2 R} (h : nrm g = 1) : g * conj g = 1 := by
  rw [self_mul_conj, h]; rfl

/-- rotation `(C c, C s)` -/
noncomputable def rot (c : R × R) : P2 R := ⟨C c.1, C c.2⟩
/-- the signal `w` -/
noncomputable def W : P2 R := ⟨T 1, 0⟩

theorem rot_mul_rot (x y : R × R) : rot x * rot y = rot (rotMul x y) := by
  refine P2.ext ?_ ?_
  · simp only [mul_A, rot, rotMul, invert_C, map_sub, map_mul]
  · simp only [mul_B, rot, rotMul, invert_C, map_add, map_mul]; ring

theorem nrm_rot (c : R × R) : nrm (rot c) = C (c.1 ^ 2 + c.2 ^ 2) := by
  simp [nrm, rot, pow_two]

theorem nrm_W : nrm (W : P2 R) = 1 := by
  simp only [nrm, W, invert_T, ← T_add, map_zero, mul_zero, add_zero]; simp

/-- `∏ (W · R(c))` over the list -/
noncomputable def tailP (cs : List (R × R)) : P2 R := (cs.map fun c => W * rot c).prod

/-- `R(c0) W R(c1) … W R(cn)`; `1` for the empty list -/
noncomputable def angP : List (R × R) → P2 R
  | [] => 1
  | c :: cs => rot c * tailP cs

theorem tailP_nil : tailP ([] : List (R × R)) = 1 := rfl
theorem tailP_cons (c : R × R) (cs : List (R × R)) : tailP (c :: cs) = W * rot c * tailP cs := by
  simp [tailP]
theorem tailP_append (a b : List (R × R)) : tailP (a ++ b) = tailP a * tailP b := by
  simp [tailP]

/-- the fold of `unitary_from_angles` -/
theorem foldl_eq (M : P2 R) (cs : List (R × R)) :
    cs.foldl (fun M c' => M * W * rot c') M = M * tailP cs := by
  induction cs generalizing M with
  | nil => simp [tailP_nil]
  | cons c cs ih => rw [List.foldl_cons, ih, tailP_cons]; simp only [mul_assoc]

/-- two adjacent rotations merge -/
theorem angP_merge (as : List (R × R)) (x z : R × R) (ys : List (R × R)) :
    angP (as ++ [x]) * angP (z :: ys) = angP (as ++ rotMul x z :: ys) := by
  cases as with
  | nil => simp only [List.nil_append, angP, tailP_nil, mul_one, ← mul_assoc, rot_mul_rot]
  | cons c as =>
    simp only [List.cons_append, angP, tailP_append, tailP_cons, tailP_nil, mul_one]
    simp only [mul_assoc]
    rw [← mul_assoc (rot x), rot_mul_rot]

theorem nrm_tailP (cs : List (R × R)) (h : ∀ c ∈ cs, c.1 ^ 2 + c.2 ^ 2 = 1) : nrm (tailP cs) = 1 := by
  induction cs with
  | nil => simp [tailP_nil, nrm]
  | cons c cs ih =>
    rw [tailP_cons, nrm_mul, nrm_mul, nrm_W, nrm_rot, h c (List.mem_cons_self ..),
      ih fun c' hc' => h c' (List.mem_cons_of_mem _ hc')]
    simp

theorem nrm_angP (cs : List (R × R)) (h : ∀ c ∈ cs, c.1 ^ 2 + c.2 ^ 2 = 1) : nrm (angP cs) = 1 := by
  cases cs with
  | nil => simp [angP, nrm]
  | cons c cs =>
    rw [angP, nrm_mul, nrm_rot, h c (List.mem_cons_self ..),
      nrm_tailP cs fun c' hc' => h c' (List.mem_cons_of_mem _ hc')]
    simp

/-! ## 2. the value at `w = 1` -/

/-- evaluation at `w = 1` -/
noncomputable def e1 : R[T;T⁻¹] →+* R := LaurentPolynomial.eval₂ (RingHom.id R) 1

theorem e1_T (k : ℤ) : e1 (T k : R[T;T⁻¹]) = 1 := by simp [e1, eval₂_T]
theorem e1_C (c : R) : e1 (C c : R[T;T⁻¹]) = c := by simp [e1, eval₂_C]

theorem e1_invert (f : R[T;T⁻¹]) : e1 (invert f) = e1 f := by
  induction f using LaurentPolynomial.induction_on' with
  | add p q hp hq => simp only [map_add, hp, hq]
  | C_mul_T n a => simp only [map_mul, invert_C, invert_T, e1_C, e1_T]

/-- the pair of values at `w = 1` -/
noncomputable def ev1 (g : P2 R) : R × R := (e1 g.A, e1 g.B)

theorem ev1_mul (g h : P2 R) : ev1 (g * h) = rotMul (ev1 g) (ev1 h) := by
  simp only [ev1, rotMul, mul_A, mul_B, map_sub, map_add, map_mul, e1_invert]
  refine Prod.ext ?_ ?_ <;> simp <;> ring

theorem ev1_rot (c : R × R) : ev1 (rot c) = c := by simp [ev1, rot, e1_C]
theorem ev1_W : ev1 (W : P2 R) = (1, 0) := by simp [ev1, W, e1_T]
theorem ev1_one : ev1 (1 : P2 R) = (1, 0) := by simp [ev1]

theorem rotMul_one_left (x : R × R) : rotMul (1, 0) x = x := by
  simp [rotMul]
theorem rotMul_one_right (x : R × R) : rotMul x (1, 0) = x := by
  simp [rotMul]

theorem ev1_tailP (cs : List (R × R)) : ev1 (tailP cs) = rotProd cs := by
  induction cs with
  | nil => simp [tailP_nil, ev1_one, rotProd]
  | cons c cs ih =>
    rw [tailP_cons, ev1_mul, ev1_mul, ev1_W, ev1_rot, ih, rotMul_one_left]; rfl

theorem ev1_angP (cs : List (R × R)) : ev1 (angP cs) = rotProd cs := by
  cases cs with
  | nil => simp [angP, ev1_one, rotProd]
  | cons c cs => rw [angP, ev1_mul, ev1_rot, ev1_tailP]; rfl

theorem rotProd_append (a b : List (R × R)) : rotProd (a ++ b) = rotMul (rotProd a) (rotProd b) := by
  induction a with
  | nil => simp [rotProd, rotMul_one_left]
  | cons c a ih => simp only [List.cons_append, rotProd, ih, rotMul_assoc]

theorem rotProd_normSq (cs : List (R × R)) (h : ∀ c ∈ cs, c.1 ^ 2 + c.2 ^ 2 = 1) :
    (rotProd cs).1 ^ 2 + (rotProd cs).2 ^ 2 = 1 := by
  induction cs with
  | nil => simp [rotProd]
  | cons c cs ih =>
    have h1 := h c (List.mem_cons_self ..)
    have h2 := ih fun c' hc' => h c' (List.mem_cons_of_mem _ hc')
    have := rotMul_normSq c (rotProd cs)
    simp only [rotProd]
    linear_combination this + (rotProd cs).1 ^ 2 * h1 + (rotProd cs).2 ^ 2 * h1 + h2

theorem rotMul_conjPair {x : R × R} (h : x.1 ^ 2 + x.2 ^ 2 = 1) : rotMul x (conjPair x) = (1, 0) := by
  simp only [rotMul, conjPair]
  refine Prod.ext ?_ ?_
  · simp only; linear_combination h
  · simp only; ring

theorem conjPair_rotMul {x : R × R} (h : x.1 ^ 2 + x.2 ^ 2 = 1) (y : R × R) :
    rotMul (conjPair x) (rotMul x y) = y := by
  simp only [rotMul, conjPair]
  refine Prod.ext ?_ ?_
  · simp only; linear_combination y.1 * h
  · simp only; linear_combination y.2 * h

theorem conjPair_normSq {x : R × R} (h : x.1 ^ 2 + x.2 ^ 2 = 1) :
    (conjPair x).1 ^ 2 + (conjPair x).2 ^ 2 = 1 := by
  simp only [conjPair]; linear_combination h


/-! ## 3. the model `LA` denotes into `P2` -/

/-- the pair of Laurent polynomials denoted by a model element -/
noncomputable def pden (g : LA R) : P2 R := ⟨den g.I, den g.X⟩

theorem pden_mul {g h r : LA R} (hg : g.WF) (hh : h.WF) (e : g.mul h = .ok r) :
    pden r = pden g * pden h := by
  obtain ⟨h1, h2, -⟩ := LA.mul_ok hg hh e
  exact P2.ext h1 h2

theorem pden_mulR_w {g r : LA R} (hg : g.WF) (e : g.mulR LP.w = .ok r) : pden r = pden g * W := by
  obtain ⟨h1, h2, -⟩ := LA.mulR_ok hg WF_w e
  refine P2.ext ?_ ?_
  · simp only [pden, mul_A, W, h1, den_w, map_zero, mul_zero, sub_zero]
  · simp only [pden, mul_B, W, h2, den_w, mul_zero, zero_add]

theorem pden_rotation (c : R × R) : pden (LA.rotation c) = rot c := by
  simp [pden, rot, LA.rotation, den_const]

theorem pden_conj {g r : LA R} (hg : g.WF) (e : g.conj = .ok r) : pden r = conj (pden g) := by
  obtain ⟨h1, h2, -⟩ := LA.conj_ok hg e
  exact P2.ext h1 h2

/-! ### stored ranges -/

/-- both components are stored on the window `-n .. n`, non-zero-flagged -/
def Rng (n : ℕ) (g : LA R) : Prop :=
  g.NZ ∧ g.I.dmin = -(n : ℤ) ∧ g.I.dmax = n ∧ g.X.dmin = -(n : ℤ) ∧ g.X.dmax = n

theorem mul_rng {g h r : LA R} (hg : g.NZ) (hh : h.NZ) (e : g.mul h = .ok r) :
    r.I.dmin = min (g.I.dmin + h.I.dmin) (g.X.dmin - h.X.dmax) ∧
    r.I.dmax = max (g.I.dmax + h.I.dmax) (g.X.dmax - h.X.dmin) ∧
    r.X.dmin = min (g.I.dmin + h.X.dmin) (g.X.dmin - h.I.dmax) ∧
    r.X.dmax = max (g.I.dmax + h.X.dmax) (g.X.dmax - h.I.dmin) := by
  obtain ⟨⟨⟨gI0, -⟩, gIz⟩, ⟨⟨gX0, -⟩, gXz⟩, gp⟩ := hg
  obtain ⟨⟨⟨hI0, -⟩, hIz⟩, ⟨⟨hX0, -⟩, hXz⟩, hp⟩ := hh
  unfold LA.mul at e
  obtain ⟨i, hi, e⟩ := bind_ok e
  obtain ⟨x, hx, e⟩ := bind_ok e
  cases mk'_ok e
  obtain ⟨a1, a2, a3⟩ := LRange.inv_range h.X hX0 hXz
  obtain ⟨b1, b2, b3⟩ := LRange.inv_range h.I hI0 hIz
  have a0 : h.X.inv.coefs ≠ [] := by
    unfold LP.inv; simp only [hXz, Bool.false_eq_true, if_false]
    rw [LRange.mk'_of_ne _ _ (LRange.reverse_ne_nil _ hX0)]; exact LRange.reverse_ne_nil _ hX0
  have b0 : h.I.inv.coefs ≠ [] := by
    unfold LP.inv; simp only [hIz, Bool.false_eq_true, if_false]
    rw [LRange.mk'_of_ne _ _ (LRange.reverse_ne_nil _ hI0)]; exact LRange.reverse_ne_nil _ hI0
  obtain ⟨m1, m1', m1z⟩ := LRange.mul_range g.I h.I gI0 hI0 gIz hIz
  obtain ⟨m2, m2', m2z⟩ := LRange.mul_range g.X h.X.inv gX0 a0 gXz a3
  obtain ⟨m3, m3', m3z⟩ := LRange.mul_range g.I h.X gI0 hX0 gIz hXz
  obtain ⟨m4, m4', m4z⟩ := LRange.mul_range g.X h.I.inv gX0 b0 gXz b3
  have c1 : (g.I.mul h.I).coefs ≠ [] := by
    unfold LP.mul; simp only [gIz, hIz, Bool.or_self, Bool.false_eq_true, if_false]
    rw [LRange.mk'_of_ne _ _ (LRange.convL_ne_nil _ _ gI0 hI0)]; exact LRange.convL_ne_nil _ _ gI0 hI0
  have c2 : (g.X.mul h.X.inv).coefs ≠ [] := by
    unfold LP.mul; simp only [gXz, a3, Bool.or_self, Bool.false_eq_true, if_false]
    rw [LRange.mk'_of_ne _ _ (LRange.convL_ne_nil _ _ gX0 a0)]; exact LRange.convL_ne_nil _ _ gX0 a0
  have c3 : (g.I.mul h.X).coefs ≠ [] := by
    unfold LP.mul; simp only [gIz, hXz, Bool.or_self, Bool.false_eq_true, if_false]
    rw [LRange.mk'_of_ne _ _ (LRange.convL_ne_nil _ _ gI0 hX0)]; exact LRange.convL_ne_nil _ _ gI0 hX0
  obtain ⟨n1, n1', n1z⟩ := LRange.neg_range (g.X.mul h.X.inv) c2 m2z
  unfold LP.parity at gp hp
  have dI : g.I.dmax = 2 * (g.I.coefs.length : ℤ) + g.I.dmin - 2 := rfl
  have dX : g.X.dmax = 2 * (g.X.coefs.length : ℤ) + g.X.dmin - 2 := rfl
  have eI : h.I.dmax = 2 * (h.I.coefs.length : ℤ) + h.I.dmin - 2 := rfl
  have eX : h.X.dmax = 2 * (h.X.coefs.length : ℤ) + h.X.dmin - 2 := rfl
  obtain ⟨i', hi', i1, i2, -⟩ := LRange.add_range (g.I.mul h.I) (g.X.mul h.X.inv).neg c1 m1z n1z
    (by unfold LP.parity; rw [m1, n1, m2, a1]; omega)
  obtain ⟨x', hx', x1, x2, -⟩ := LRange.add_range (g.I.mul h.X) (g.X.mul h.I.inv) c3 m3z m4z
    (by unfold LP.parity; rw [m3, m4, b1]; omega)
  have ei : i' = i := by
    have : (Except.ok i' : Except Err (LP R)) = .ok i := by rw [← hi', ← hi]; rfl
    exact Except.ok.inj this
  have ex : x' = x := by
    have : (Except.ok x' : Except Err (LP R)) = .ok x := by rw [← hx', ← hx]
    exact Except.ok.inj this
  subst ei ex
  refine ⟨?_, ?_, ?_, ?_⟩
  · rw [i1, m1, n1, m2, a1]; rfl
  · rw [i2, m1', n1', m2', a2]; rfl
  · rw [x1, m3, m4, b1]; rfl
  · rw [x2, m3', m4', b2]; rfl

theorem Rng.shape {n : ℕ} {g : LA R} (h : Rng n g) :
    g.I = ⟨g.I.coefs, -(n : ℤ), false⟩ ∧ g.X = ⟨g.X.coefs, -(n : ℤ), false⟩ ∧
    g.I.coefs.length = n + 1 ∧ g.X.coefs.length = n + 1 := by
  obtain ⟨⟨⟨-, gIz⟩, ⟨-, gXz⟩, -⟩, i1, i2, x1, x2⟩ := h
  have dI : g.I.dmax = 2 * (g.I.coefs.length : ℤ) + g.I.dmin - 2 := rfl
  have dX : g.X.dmax = 2 * (g.X.coefs.length : ℤ) + g.X.dmin - 2 := rfl
  refine ⟨?_, ?_, by omega, by omega⟩
  · rw [← i1, ← gIz]
  · rw [← x1, ← gXz]

theorem Rng_rotation (c : R × R) : Rng 0 (LA.rotation c) := by
  refine ⟨NZ_rotation c, ?_, ?_, ?_, ?_⟩ <;> simp [LA.rotation, LP.mk', LP.dmax]

theorem w_range : (LP.w : LP R).dmin = 1 ∧ (LP.w : LP R).dmax = 1 := by
  simp [LP.w, LP.mk', LP.dmax]

theorem step_rng {n : ℕ} {acc a b : LA R} (c : R × R) (hacc : Rng n acc)
    (ha : acc.mulR LP.w = .ok a) (hb : a.mul (LA.rotation c) = .ok b) : Rng (n + 1) b := by
  obtain ⟨accNZ, i1, i2, x1, x2⟩ := hacc
  obtain ⟨a', ha', aNZ⟩ := LA.mulR_NZ accNZ (NZ_w (R := R))
  rw [ha] at ha'; cases ha'
  obtain ⟨b', hb', bNZ⟩ := LA.mul_NZ aNZ (NZ_rotation c)
  rw [hb] at hb'; cases hb'
  obtain ⟨r1, r2, r3, r4⟩ := mul_rng aNZ (NZ_rotation c) hb
  obtain ⟨-, q1, q2, q3, q4⟩ := Rng_rotation c
  unfold LA.mulR at ha
  cases mk'_ok ha
  obtain ⟨⟨⟨aI0, -⟩, aIz⟩, ⟨⟨aX0, -⟩, aXz⟩, -⟩ := accNZ
  obtain ⟨⟨w0, -⟩, wz⟩ := NZ_w (R := R)
  obtain ⟨w1, w2⟩ := w_range (R := R)
  obtain ⟨v1, v2, v3⟩ := LRange.inv_range (LP.w : LP R) w0 wz
  have v0 : (LP.w : LP R).inv.coefs ≠ [] := by
    unfold LP.inv; simp only [wz, Bool.false_eq_true, if_false]
    rw [LRange.mk'_of_ne _ _ (LRange.reverse_ne_nil _ w0)]; exact LRange.reverse_ne_nil _ w0
  obtain ⟨m1, m1', -⟩ := LRange.mul_range acc.I LP.w aI0 w0 aIz wz
  obtain ⟨m2, m2', -⟩ := LRange.mul_range acc.X (LP.w : LP R).inv aX0 v0 aXz v3
  simp only at r1 r2 r3 r4
  refine ⟨bNZ, ?_, ?_, ?_, ?_⟩
  · rw [r1, m1, m2, q1, q4, i1, x1, w1, v1, w2]; push_cast; omega
  · rw [r2, m1', m2', q2, q3, i2, x2, w2, v2, w1]; push_cast; omega
  · rw [r3, m1, m2, q3, q2, i1, x1, w1, v1, w2]; push_cast; omega
  · rw [r4, m1', m2', q4, q1, i2, x2, w2, v2, w1]; push_cast; omega

theorem fromAnglesAux_spec (cs : List (R × R)) (n : ℕ) (acc : LA R) (hacc : Rng n acc) :
    ∃ g, LA.fromAnglesAux acc cs = .ok g ∧ pden g = pden acc * tailP cs ∧
      Rng (n + cs.length) g := by
  induction cs generalizing acc n with
  | nil => exact ⟨acc, rfl, by simp [tailP_nil], hacc⟩
  | cons c cs ih =>
    obtain ⟨a, ha, aNZ⟩ := LA.mulR_NZ hacc.1 (NZ_w (R := R))
    obtain ⟨b, hb, bNZ⟩ := LA.mul_NZ aNZ (NZ_rotation c)
    obtain ⟨g, hg, hm, hr⟩ := ih (n + 1) b (step_rng c hacc ha hb)
    refine ⟨g, ?_, ?_, ?_⟩
    · simp only [LA.fromAnglesAux, ha, hb, bind, Except.bind]
      exact hg
    · rw [hm, pden_mul aNZ.wf (WF_rotation c) hb, pden_mulR_w hacc.1.wf ha, pden_rotation,
        tailP_cons]
      simp only [mul_assoc]
    · rw [List.length_cons, show n + (cs.length + 1) = n + 1 + cs.length by omega]; exact hr

/-- `unitary_from_angles` never fails on a non-empty list; its result denotes `angP` and is
    stored on the window `-n .. n`, `n + 1` the number of pairs -/
theorem fromAngles_spec (cs : List (R × R)) (n : ℕ) (hlen : cs.length = n + 1) :
    ∃ g, LA.fromAngles cs = .ok g ∧ pden g = angP cs ∧ Rng n g := by
  cases cs with
  | nil => simp at hlen
  | cons c cs =>
    obtain ⟨g, hg, hm, hr⟩ := fromAnglesAux_spec cs 0 _ (Rng_rotation c)
    refine ⟨g, hg, by rw [hm, pden_rotation]; rfl, ?_⟩
    simp only [List.length_cons, Nat.add_right_cancel_iff] at hlen
    rw [zero_add, hlen] at hr; exact hr

theorem conj_rng {n : ℕ} {g r : LA R} (hg : Rng n g) (e : g.conj = .ok r) : Rng n r := by
  obtain ⟨gNZ, i1, i2, x1, x2⟩ := hg
  obtain ⟨r', hr', rNZ⟩ := LA.conj_NZ gNZ
  rw [e] at hr'; cases hr'
  unfold LA.conj at e
  cases mk'_ok e
  obtain ⟨⟨⟨gI0, -⟩, gIz⟩, ⟨⟨gX0, -⟩, gXz⟩, -⟩ := gNZ
  obtain ⟨a1, a2, -⟩ := LRange.inv_range g.I gI0 gIz
  obtain ⟨b1, b2, -⟩ := LRange.neg_range g.X gX0 gXz
  refine ⟨rNZ, ?_, ?_, ?_, ?_⟩
  · simp only [a1, i2]
  · simp only [a2, i1, neg_neg]
  · simp only [b1, x1]
  · simp only [b2, x2]


/-! ## 4. solvability of the linear system of `decompose` -/

theorem getD_eq_coeff (l : List R) (d : ℤ) (k : ℕ) : l.getD k 0 = (denL l d).coeff (d + 2 * k) := by
  rw [← LinSys.getItem_window l d k, getItem_eq]; rfl

theorem ev1_conj (g : P2 R) : ev1 (conj g) = conjPair (ev1 g) := by
  simp [ev1, conj, conjPair, e1_invert]

theorem split_lists (ps : List (R × R)) (n ldeg : ℕ) (hlen : ps.length = n + 1) (h2 : ldeg ≤ n) :
    ∃ y ys, ps = ps.take ldeg ++ y :: ys ∧
      splitSuffix ps ldeg = rotMul (rotProd (ps.take ldeg)) y :: ys ∧
      ys.length = n - ldeg ∧ (ps.take ldeg).length = ldeg := by
  cases hd : ps.drop ldeg with
  | nil =>
    have := congrArg List.length hd
    simp only [List.length_drop, List.length_nil] at this
    omega
  | cons y ys =>
    refine ⟨y, ys, ?_, ?_, ?_, ?_⟩
    · rw [← hd, List.take_append_drop]
    · simp only [splitSuffix, hd]
    · have := congrArg List.length hd
      simp only [List.length_drop, List.length_cons] at this
      omega
    · rw [List.length_take]; omega

/-- `g = ~l · r` for the documented split -/
theorem angP_split (ps : List (R × R)) (n ldeg : ℕ) (hlen : ps.length = n + 1) (h2 : ldeg ≤ n)
    (hunit : ∀ c ∈ ps, c.1 ^ 2 + c.2 ^ 2 = 1) :
    angP ps = angP (splitPrefix ps ldeg) * angP (splitSuffix ps ldeg) := by
  obtain ⟨y, ys, hps, hsuf, -, -⟩ := split_lists ps n ldeg hlen h2
  have hP := rotProd_normSq (ps.take ldeg) fun c hc => hunit c (List.mem_of_mem_take hc)
  rw [hsuf, splitPrefix, angP_merge, conjPair_rotMul hP, ← hps]

theorem mem_splitPrefix (ps : List (R × R)) (ldeg : ℕ)
    (hunit : ∀ c ∈ ps, c.1 ^ 2 + c.2 ^ 2 = 1) : ∀ c ∈ splitPrefix ps ldeg, c.1 ^ 2 + c.2 ^ 2 = 1 := by
  intro c hc
  have hP := rotProd_normSq (ps.take ldeg) fun c hc => hunit c (List.mem_of_mem_take hc)
  simp only [splitPrefix, List.mem_append, List.mem_singleton] at hc
  rcases hc with hc | hc
  · exact hunit c (List.mem_of_mem_take hc)
  · rw [hc]; exact conjPair_normSq hP

theorem consistent_of_NZ {g : LA R} (h : g.NZ) : g.consistent = true := by
  simp [LA.consistent, LP.isconsistent, h.2.2]

/-- the value at `w = 1` of the conjugated prefix is `Id` -/
theorem ev1_prefix (ps : List (R × R)) (ldeg : ℕ) (hunit : ∀ c ∈ ps, c.1 ^ 2 + c.2 ^ 2 = 1) :
    ev1 (conj (angP (splitPrefix ps ldeg))) = (1, 0) := by
  have hP := rotProd_normSq (ps.take ldeg) fun c hc => hunit c (List.mem_of_mem_take hc)
  rw [ev1_conj, ev1_angP, splitPrefix, rotProd_append]
  have h1 : rotProd [conjPair (rotProd (List.take ldeg ps))] = conjPair (rotProd (List.take ldeg ps)) := by
    simp only [rotProd, rotMul_one_right]
  rw [h1, rotMul_conjPair hP]
  simp [conjPair]

/-- SOLVABILITY.  For every list of `n + 1` unit pairs and every `1 ≤ ldeg ≤ n`: the model builds
    `g`, the documented prefix `pre` and suffix `suf`; `l = ~pre` solves the linear system of
    `g`; `l * g` denotes `suf`; `~l` is `pre` again. -/
theorem decompose_solvable (ps : List (R × R)) (n ldeg : ℕ) (hlen : ps.length = n + 1)
    (hunit : ∀ c ∈ ps, c.1 ^ 2 + c.2 ^ 2 = 1) (h1 : 1 ≤ ldeg) (h2 : ldeg ≤ n) :
    ∃ g pre suf l r : LA R,
      LA.fromAngles ps = .ok g ∧ LA.fromAngles (splitPrefix ps ldeg) = .ok pre ∧
      LA.fromAngles (splitSuffix ps ldeg) = .ok suf ∧ pre.conj = .ok l ∧ l.conj = .ok pre ∧
      Rng n g ∧ Rng ldeg l ∧ Rng (n - ldeg) suf ∧
      mulVec (linSys g.I.coefs g.X.coefs ldeg).1 (vecOf l.I.coefs l.X.coefs)
        = (linSys g.I.coefs g.X.coefs ldeg).2 ∧
      l.mul g = .ok r ∧ pden r = pden suf ∧
      r.I = ⟨prodI g.I.coefs g.X.coefs l.I.coefs l.X.coefs, -((n : ℤ) + ldeg), false⟩ ∧
      r.X = ⟨prodX g.I.coefs g.X.coefs l.I.coefs l.X.coefs, -((n : ℤ) + ldeg), false⟩ := by
  obtain ⟨y, ys, hps, hsuf, hys, htake⟩ := split_lists ps n ldeg hlen h2
  have hprelen : (splitPrefix ps ldeg).length = ldeg + 1 := by
    simp only [splitPrefix, List.length_append, htake, List.length_singleton]
  have hsuflen : (splitSuffix ps ldeg).length = (n - ldeg) + 1 := by
    rw [hsuf, List.length_cons, hys]
  obtain ⟨g, hg, dg, rg⟩ := fromAngles_spec ps n hlen
  obtain ⟨pre, hpre, dpre, rpre⟩ := fromAngles_spec (splitPrefix ps ldeg) ldeg hprelen
  obtain ⟨suf, hsf, dsuf, rsuf⟩ := fromAngles_spec (splitSuffix ps ldeg) (n - ldeg) hsuflen
  obtain ⟨l, hl, hl'⟩ := LRange.conj_conj pre rpre.1.1.1 rpre.1.2.1.1 (consistent_of_NZ rpre.1)
  have rl := conj_rng rpre hl
  have dl : pden l = conj (angP (splitPrefix ps ldeg)) := by rw [pden_conj rpre.1.wf hl, dpre]
  obtain ⟨gI, gX, gIl, gXl⟩ := rg.shape
  obtain ⟨lI, lX, lIl, lXl⟩ := rl.shape
  have hgeq : g = ⟨⟨g.I.coefs, -(n : ℤ), false⟩, ⟨g.X.coefs, -(n : ℤ), false⟩⟩ :=
    (congrArg₂ LA.mk gI gX : (⟨g.I, g.X⟩ : LA R) = _)
  have hleq : l = ⟨⟨l.I.coefs, -(ldeg : ℤ), false⟩, ⟨l.X.coefs, -(ldeg : ℤ), false⟩⟩ :=
    (congrArg₂ LA.mk lI lX : (⟨l.I, l.X⟩ : LA R) = _)
  have hmul := LinSys.LA_mul_explicit g.I.coefs g.X.coefs l.I.coefs l.X.coefs n ldeg gIl gXl lIl lXl
  rw [← hgeq, ← hleq] at hmul
  have hnrm := nrm_angP _ (mem_splitPrefix ps ldeg hunit)
  have dr := pden_mul rl.1.wf rg.1.wf hmul
  rw [dl, dg, angP_split ps n ldeg hlen h2 hunit, ← mul_assoc, conj_mul_self_of_nrm hnrm, one_mul,
    ← dsuf] at dr
  obtain ⟨sI, sX, sIl, sXl⟩ := rsuf.shape
  have drA : denL (prodI g.I.coefs g.X.coefs l.I.coefs l.X.coefs) (-((n : ℤ) + ldeg))
      = denL suf.I.coefs (-((n - ldeg : ℕ) : ℤ)) := by
    have := congrArg P2.A dr
    simp only [pden] at this
    rw [sI] at this; exact this
  have drB : denL (prodX g.I.coefs g.X.coefs l.I.coefs l.X.coefs) (-((n : ℤ) + ldeg))
      = denL suf.X.coefs (-((n - ldeg : ℕ) : ℤ)) := by
    have := congrArg P2.B dr
    simp only [pden] at this
    rw [sX] at this; exact this
  have hev := ev1_prefix ps ldeg hunit
  rw [← dl] at hev
  have hsum1 : l.I.coefs.sum = 1 := by
    rw [← LinSys.evalAt_one_eq_sum l.I.coefs (-(ldeg : ℤ)), ← lI, evalAt_one _ rl.1.wf.1]
    exact congrArg Prod.fst hev
  have hsum0 : l.X.coefs.sum = 0 := by
    rw [← LinSys.evalAt_one_eq_sum l.X.coefs (-(ldeg : ℤ)), ← lX, evalAt_one _ rl.1.wf.2]
    exact congrArg Prod.snd hev
  refine ⟨g, pre, suf, l, _, hg, hpre, hsf, hl, hl', rg, rl, rsuf, ?_, hmul, dr, rfl, rfl⟩
  refine (LinSys.linSys_iff g.I.coefs g.X.coefs n ldeg l.I.coefs l.X.coefs gIl gXl lIl lXl h1).mpr
    ⟨hsum1, hsum0, fun k hk => ⟨?_, ?_⟩⟩
  · rw [getD_eq_coeff _ (-((n : ℤ) + ldeg)), drA]
    rcases hk with hk | hk
    · exact denL_coeff_of_lt (by omega)
    · exact denL_coeff_of_gt (by rw [sIl]; push_cast; omega)
  · rw [getD_eq_coeff _ (-((n : ℤ) + ldeg)), drB]
    rcases hk with hk | hk
    · exact denL_coeff_of_lt (by omega)
    · exact denL_coeff_of_gt (by rw [sXl]; push_cast; omega)

end DS
end QSP

/-
  Core soundness lemmas for the executable validators of `QSP/Model/Validators.lean`:
  evaluation of polynomials in `cos θ`, the two comparison routines `validReal` / `validCplx`,
  the completion validators `validC04` / `validC05`, and the Chebyshev-series certificates.
-/
import QSP.Model.Validators
import QSP.Proofs.AnglesEval
import QSP.Proofs.Cheb
import QSP.Proofs.Trig
import Mathlib.Data.List.GetD
import Mathlib.Analysis.SpecialFunctions.Trigonometric.Chebyshev.RootsExtrema
open LaurentPolynomial Complex
namespace QSP

/-! ## A. polynomials in `cos θ` -/

/-- Horner value `Σ t_k x^k` of a rational coefficient list at a real point -/
noncomputable def polyAt (t : List ℚ) (x : ℝ) : ℝ :=
  (t.map (fun q : ℚ => (q : ℝ))).foldr (fun c acc => c + x * acc) 0

@[simp] theorem polyAt_nil (x : ℝ) : polyAt [] x = 0 := rfl
@[simp] theorem polyAt_cons (c : ℚ) (cs : List ℚ) (x : ℝ) :
    polyAt (c :: cs) x = (c : ℝ) + x * polyAt cs x := rfl

theorem evalQ_cosW (θ : ℝ) : evalQ θ (cosW : ℚ[T;T⁻¹]) = ((Real.cos θ : ℝ) : ℂ) := by
  rw [cosW, map_mul, map_add, evalQ_C, evalQ_T, evalQ_T, Complex.ofReal_cos, Complex.cos]
  rw [zpow_one, zpow_neg, zpow_one, ← Complex.exp_neg]
  push_cast
  ring_nf

theorem evalQ_aeval (θ : ℝ) (P : Polynomial ℚ) :
    evalQ θ (Polynomial.aeval (cosW : ℚ[T;T⁻¹]) P) =
      ((Polynomial.eval₂ (algebraMap ℚ ℝ) (Real.cos θ) P : ℝ) : ℂ) := by
  induction P using Polynomial.induction_on' with
  | add p q hp hq => simp only [map_add, Polynomial.eval₂_add, hp, hq, Complex.ofReal_add]
  | monomial n a =>
    rw [Polynomial.aeval_monomial, map_mul, map_pow, evalQ_cosW, ← C_eq_algebraMap, evalQ_C,
      Polynomial.eval₂_monomial]
    push_cast
    rfl

theorem eval₂_toPoly (t : List ℚ) (x : ℝ) :
    Polynomial.eval₂ (algebraMap ℚ ℝ) x (toPoly t) = polyAt t x := by
  induction t with
  | nil => simp
  | cons c cs ih =>
    rw [toPoly_cons, Polynomial.eval₂_add, Polynomial.eval₂_mul, Polynomial.eval₂_C,
      Polynomial.eval₂_X, ih, polyAt_cons]
    rfl

theorem evQ_laurentForm (t : List ℚ) (p : LP ℚ) (h : polyToLaurentForm t = .ok p) (θ : ℝ) :
    evQ p θ = ((polyAt t (Real.cos θ) : ℝ) : ℂ) := by
  rw [evQ_eq, (den_polyToLaurentForm t p h).1, evalQ_aeval, eval₂_toPoly]

/-! ### parity splitting -/

theorem polyAt_parityPart_aux (t : List ℚ) (i : ℕ) (x : ℝ) :
    polyAt t x = polyAt (parityPart 0 t i) x + polyAt (parityPart 1 t i) x := by
  induction t generalizing i with
  | nil => simp [parityPart]
  | cons c cs ih =>
    simp only [parityPart, polyAt_cons]
    rw [ih (i + 1)]
    rcases Nat.mod_two_eq_zero_or_one i with h | h <;> simp [h] <;> ring

theorem polyAt_parityPart (t : List ℚ) (x : ℝ) :
    polyAt t x = polyAt (parityPart 0 t 0) x + polyAt (parityPart 1 t 0) x :=
  polyAt_parityPart_aux t 0 x

theorem parityPart_getD (par : ℕ) (t : List ℚ) (i j : ℕ)
    (h : (parityPart par t i).getD j 0 ≠ 0) : (i + j) % 2 = par := by
  induction t generalizing i j with
  | nil => simp [parityPart] at h
  | cons c cs ih =>
    cases j with
    | zero =>
      simp only [parityPart, List.getD_cons_zero] at h
      split at h
      · simpa using ‹i % 2 = par›
      · exact absurd rfl h
    | succ j =>
      simp only [parityPart, List.getD_cons_succ] at h
      have := ih (i + 1) j h
      rw [← this]; congr 1; omega

/-- the parity parts have definite parity, so `polyToLaurentForm` returns on them -/
theorem polyToLaurentForm_parityPart (par : ℕ) (t : List ℚ) (i : ℕ) :
    ∃ p, polyToLaurentForm (parityPart par t i) = .ok p := by
  apply polyToLaurentForm_returns _ ((par + i) % 2)
  intro j hj
  have := parityPart_getD par t i j hj
  omega

theorem laurentParts_ok (t : List ℚ) : ∃ e o, laurentParts t = .ok (e, o) ∧
    polyToLaurentForm (parityPart 0 t 0) = .ok e ∧
    polyToLaurentForm (parityPart 1 t 0) = .ok o := by
  obtain ⟨e, he⟩ := polyToLaurentForm_parityPart 0 t 0
  obtain ⟨o, ho⟩ := polyToLaurentForm_parityPart 1 t 0
  refine ⟨e, o, ?_, he, ho⟩
  simp only [laurentParts, he, ho, ok_bind]

/-- what `laurentParts` returns: well-formed Laurent forms of the even and the odd part -/
theorem laurentParts_spec (t : List ℚ) (e o : LP ℚ) (h : laurentParts t = .ok (e, o)) :
    e.WF ∧ o.WF ∧ ∀ θ : ℝ, ((polyAt t (Real.cos θ) : ℝ) : ℂ) = evQ e θ + evQ o θ := by
  obtain ⟨e', o', h', he, ho⟩ := laurentParts_ok t
  rw [h'] at h
  cases h
  refine ⟨(den_polyToLaurentForm _ _ he).2, (den_polyToLaurentForm _ _ ho).2, fun θ => ?_⟩
  rw [evQ_laurentForm _ _ he, evQ_laurentForm _ _ ho, ← Complex.ofReal_add, ← polyAt_parityPart]

/-! ### the target of C01 -/

theorem polyAt_addL (a b : List ℚ) (x : ℝ) : polyAt (addL a b) x = polyAt a x + polyAt b x := by
  induction a generalizing b with
  | nil => simp [addL]
  | cons c cs ih =>
    cases b with
    | nil => simp [addL]
    | cons d ds => simp only [addL, polyAt_cons, ih]; push_cast; ring

theorem polyAt_map_mul (c : ℚ) (l : List ℚ) (x : ℝ) :
    polyAt (l.map (c * ·)) x = (c : ℝ) * polyAt l x := by
  induction l with
  | nil => simp
  | cons d ds ih => simp only [List.map_cons, polyAt_cons, ih]; push_cast; ring

theorem polyAt_zeros_append (n : ℕ) (l : List ℚ) (x : ℝ) :
    polyAt (zeros n ++ l) x = x ^ n * polyAt l x := by
  induction n with
  | zero => simp [zeros]
  | succ n ih =>
    have : (zeros (n + 1) : List ℚ) = 0 :: zeros n := by simp [zeros, List.replicate_succ]
    rw [this, List.cons_append, polyAt_cons, ih]; push_cast; ring

theorem polyAt_targetC01 (p : List ℚ) (eps suc : ℚ) (x : ℝ) :
    polyAt (targetC01 p eps suc) x =
      (suc : ℝ) * (polyAt p x + (eps : ℝ) / 2 * x ^ (p.length - 1)) := by
  rw [targetC01, polyAt_map_mul, polyAt_addL, polyAt_zeros_append]
  simp only [polyAt_cons, polyAt_nil]
  push_cast
  ring

/-! ## B. the comparison routines -/

theorem norm_circ (θ : ℝ) : ‖exp ((θ : ℂ) * I)‖ = 1 := Complex.norm_exp_ofReal_mul_I θ

/-- the sup certificate applied to a model polynomial -/
theorem supLeReal_evQ (d : LP ℚ) (B : ℚ) (depth : ℕ)
    (h : (supLeReal d.coefs d.dmin B depth).1 = true) (θ : ℝ) : ‖evQ d θ‖ ≤ (B : ℝ) :=
  supLeReal_sound d.coefs d.dmin B depth h _ (norm_circ θ)

theorem validReal_sound (f : LP ℚ) (hf : f.WF) (E : ℚ) (t : List ℚ) (budget : ℚ) (depth : ℕ)
    (v : VOut) (h : validReal f E t budget depth = .ok v) (hv : v.ok = true) :
    ∀ θ : ℝ, ‖evQ f θ - ((polyAt t (Real.cos θ) : ℝ) : ℂ)‖ + (E : ℝ) ≤ (budget : ℝ) := by
  intro θ
  unfold validReal at h
  obtain ⟨⟨le, lo⟩, hparts, h⟩ := bind_ok h
  dsimp only at h
  obtain ⟨d, hd, h⟩ := bind_ok h
  obtain ⟨hle, hlo, hsum⟩ := laurentParts_spec t le lo hparts
  -- the two branches of the parity selection are symmetric
  have key : ∀ same other : LP ℚ, same.WF → other.WF →
      ((polyAt t (Real.cos θ) : ℝ) : ℂ) = evQ same θ + evQ other θ →
      f.sub same = .ok d →
      (if l1 d.coefs + l1 other.coefs + E ≤ budget then
          (Except.ok ⟨true, 1, l1 d.coefs + l1 other.coefs + E, 0⟩ : Except Err VOut)
        else .ok ⟨(supLeReal d.coefs d.dmin (budget - E - l1 other.coefs) depth).1, 2,
          l1 d.coefs + l1 other.coefs + E,
          (supLeReal d.coefs d.dmin (budget - E - l1 other.coefs) depth).2⟩) = .ok v →
      ‖evQ f θ - ((polyAt t (Real.cos θ) : ℝ) : ℂ)‖ + (E : ℝ) ≤ (budget : ℝ) := by
    intro same other hs ho hsum hd h
    have e1 : evQ f θ - ((polyAt t (Real.cos θ) : ℝ) : ℂ) = evQ d θ - evQ other θ := by
      rw [hsum, evQ_sub hf hs hd]; ring
    have n1 : ‖evQ f θ - ((polyAt t (Real.cos θ) : ℝ) : ℂ)‖ ≤ ‖evQ d θ‖ + ‖evQ other θ‖ := by
      rw [e1]; exact norm_sub_le _ _
    have n2 := norm_evQ_le other θ
    split at h
    · rename_i hb
      have hb' : ((l1 d.coefs : ℚ) : ℝ) + ((l1 other.coefs : ℚ) : ℝ) + (E : ℝ) ≤ (budget : ℝ) := by
        exact_mod_cast hb
      have n3 := norm_evQ_le d θ
      linarith
    · cases h
      have n3 := supLeReal_evQ d _ depth hv θ
      push_cast at n3
      linarith
  by_cases hp : f.parity = 0
  · simp only [hp, if_true] at hd h
    exact key le lo hle hlo (hsum θ) hd h
  · simp only [hp, if_false] at hd h
    exact key lo le hlo hle ((hsum θ).trans (add_comm _ _)) hd h

/-! ### the complex comparison -/

theorem sub_parity_of_nonzero {p q r : LP ℚ} (hp0 : p.iszero = false) (h : p.sub q = .ok r) :
    r.parity = p.parity := by
  unfold LP.sub at h
  rcases add_eq_ok h with ⟨hz, -⟩ | ⟨-, -, rfl⟩ | ⟨-, -, hpar, a, b, rfl, -, -⟩
  · rw [hp0] at hz; cases hz
  · unfold LP.parity; rw [dmin_mk']
  · unfold LP.parity at hpar ⊢; rw [dmin_mk']; omega

theorem aligned_length (p : LP ℚ) (hp : p.WF) (lo hi : ℤ) (l : List ℚ)
    (h : p.aligned lo hi = .ok l)
    (hpar : p.iszero = true ∨ ((p.dmin - lo) % 2 = 0 ∧ (hi - p.dmax) % 2 = 0)) :
    (l.length : ℤ) = (hi - lo) / 2 + 1 := by
  cases hz : p.iszero
  · rcases hpar with h1 | ⟨h1, h2⟩
    · rw [hz] at h1; cases h1
    · exact (den_aligned p hp lo hi l (Or.inr h1) h).2 hz h2
  · unfold LP.aligned at h
    rw [if_pos hz] at h
    dsimp only at h
    split at h
    · cases h
    · cases h
      rw [length_zeros]
      omega

theorem FW_zip (a b : List ℚ) (hl : a.length = b.length) (d : ℤ) (w : ℂ) :
    FW ((List.zipWith (fun x y => ((x, y) : CQ)) a b).map toC) d w =
      FW (a.map (fun q : ℚ => ((q : ℝ) : ℂ))) d w +
        I * FW (b.map (fun q : ℚ => ((q : ℝ) : ℂ))) d w := by
  induction a generalizing b d with
  | nil =>
    cases b with
    | nil => simp [FW]
    | cons y ys => simp at hl
  | cons x xs ih =>
    cases b with
    | nil => simp at hl
    | cons y ys =>
      simp only [List.length_cons, Nat.add_right_cancel_iff] at hl
      simp only [List.zipWith_cons_cons, List.map_cons, FW, ih ys hl, toC_eq]
      ring

/-- `zipCQ` returns the complex coefficient vector of `re + i im` when the two operands live on
    powers of the same parity (or one of them carries the zero flag) -/
theorem zipCQ_spec (re im : LP ℚ) (hre : re.WF) (him : im.WF)
    (hpar : re.iszero = true ∨ im.iszero = true ∨ re.parity = im.parity)
    (cs : List CQ) (lo : ℤ) (h : zipCQ re im = .ok (cs, lo)) (θ : ℝ) :
    FW (cs.map toC) lo (exp ((θ : ℂ) * I)) = evQ re θ + I * evQ im θ := by
  unfold zipCQ at h
  split at h
  · rename_i hz
    simp only [Bool.and_eq_true] at hz
    cases h
    rw [evQ_eq, evQ_eq, den_of_iszero hre hz.1, den_of_iszero him hz.2]
    simp [FW]
  · rename_i hz
    dsimp only at h
    obtain ⟨a, ha, h⟩ := bind_ok h
    obtain ⟨b, hb, h⟩ := bind_ok h
    cases h
    -- the window is compatible with both operands
    have hwin :
        (re.iszero = true ∨ ((re.dmin - (if re.iszero = true then im.dmin else
            if im.iszero = true then re.dmin else min re.dmin im.dmin)) % 2 = 0 ∧
          ((if re.iszero = true then im.dmax else
            if im.iszero = true then re.dmax else max re.dmax im.dmax) - re.dmax) % 2 = 0)) ∧
        (im.iszero = true ∨ ((im.dmin - (if re.iszero = true then im.dmin else
            if im.iszero = true then re.dmin else min re.dmin im.dmin)) % 2 = 0 ∧
          ((if re.iszero = true then im.dmax else
            if im.iszero = true then re.dmax else max re.dmax im.dmax) - im.dmax) % 2 = 0)) := by
      cases hr : re.iszero <;> cases hi : im.iszero
      · have hp : re.parity = im.parity := by
          rcases hpar with h1 | h1 | h1
          · rw [hr] at h1; cases h1
          · rw [hi] at h1; cases h1
          · exact h1
        simp only [Bool.false_eq_true, if_false, false_or]
        unfold LP.parity at hp
        unfold LP.dmax
        omega
      · simp
      · simp
      · simp [hr, hi] at hz
    generalize (if re.iszero = true then im.dmin else
        if im.iszero = true then re.dmin else min re.dmin im.dmin) = lo at ha hb hwin ⊢
    generalize (if re.iszero = true then im.dmax else
        if im.iszero = true then re.dmax else max re.dmax im.dmax) = hi at ha hb hwin
    have la := aligned_length re hre lo hi a ha hwin.1
    have lb := aligned_length im him lo hi b hb hwin.2
    have hl : a.length = b.length := by omega
    have da := (den_aligned re hre lo hi a (hwin.1.imp id And.left) ha).1
    have db := (den_aligned im him lo hi b (hwin.2.imp id And.left) hb).1
    rw [FW_zip a b hl, ← evalQ_denL, ← evalQ_denL, da, db, evQ_eq, evQ_eq]

theorem supLeC_zip (re im : LP ℚ) (hre : re.WF) (him : im.WF)
    (hpar : re.iszero = true ∨ im.iszero = true ∨ re.parity = im.parity)
    (cs : List CQ) (lo : ℤ) (h : zipCQ re im = .ok (cs, lo)) (B : ℚ) (depth : ℕ)
    (hs : (supLeC cs lo B depth).1 = true) (θ : ℝ) : ‖evQ re θ + I * evQ im θ‖ ≤ (B : ℝ) := by
  rw [← zipCQ_spec re im hre him hpar cs lo h θ]
  exact supLeC_sound cs lo B depth hs _ (norm_circ θ)

/-- Soundness of `validCplx`.  The hypotheses `hzre hzim hpar`: both operands non-zero-flagged and
    on powers of the same parity.  `hpar` cannot be dropped (second example below); the former
    counterexample for the zero flags is rejected since `0 + 0` keeps its flag (first example). -/
theorem validCplx_sound (fre fim : LP ℚ) (hre : fre.WF) (him : fim.WF)
    (hzre : fre.iszero = false) (hzim : fim.iszero = false) (hpar : fre.parity = fim.parity)
    (E : ℚ) (tre tim : List ℚ) (budget : ℚ) (depth : ℕ) (v : VOut)
    (h : validCplx fre fim E tre tim budget depth = .ok v) (hv : v.ok = true) :
    ∀ θ : ℝ, ‖(evQ fre θ + I * evQ fim θ) -
        (((polyAt tre (Real.cos θ) : ℝ) : ℂ) + I * ((polyAt tim (Real.cos θ) : ℝ) : ℂ))‖ + (E : ℝ)
      ≤ (budget : ℝ) := by
  intro θ
  unfold validCplx at h
  obtain ⟨⟨re_e, re_o⟩, hpr, h⟩ := bind_ok h
  dsimp only at h
  obtain ⟨⟨im_e, im_o⟩, hpi, h⟩ := bind_ok h
  dsimp only at h
  obtain ⟨hree, hreo, hsre⟩ := laurentParts_spec tre re_e re_o hpr
  obtain ⟨hime, himo, hsim⟩ := laurentParts_spec tim im_e im_o hpi
  have w1 : (if fre.parity = 0 then re_e else re_o).WF := by split <;> assumption
  have w2 : (if fre.parity = 0 then re_o else re_e).WF := by split <;> assumption
  have w3 : (if fim.parity = 0 then im_e else im_o).WF := by split <;> assumption
  have w4 : (if fim.parity = 0 then im_o else im_e).WF := by split <;> assumption
  have s1 : ((polyAt tre (Real.cos θ) : ℝ) : ℂ) = evQ (if fre.parity = 0 then re_e else re_o) θ +
      evQ (if fre.parity = 0 then re_o else re_e) θ := by
    rw [hsre θ]; split
    · rfl
    · exact add_comm _ _
  have s2 : ((polyAt tim (Real.cos θ) : ℝ) : ℂ) = evQ (if fim.parity = 0 then im_e else im_o) θ +
      evQ (if fim.parity = 0 then im_o else im_e) θ := by
    rw [hsim θ]; split
    · rfl
    · exact add_comm _ _
  generalize (if fre.parity = 0 then re_e else re_o) = sameRe at h w1 s1
  generalize (if fre.parity = 0 then re_o else re_e) = otherRe at h w2 s1
  generalize (if fim.parity = 0 then im_e else im_o) = sameIm at h w3 s2
  generalize (if fim.parity = 0 then im_o else im_e) = otherIm at h w4 s2
  obtain ⟨dre, hdre, h⟩ := bind_ok h
  obtain ⟨dim, hdim, h⟩ := bind_ok h
  have e1 : (evQ fre θ + I * evQ fim θ) -
      (((polyAt tre (Real.cos θ) : ℝ) : ℂ) + I * ((polyAt tim (Real.cos θ) : ℝ) : ℂ)) =
      (evQ dre θ + I * evQ dim θ) - evQ otherRe θ - I * evQ otherIm θ := by
    rw [s1, s2, evQ_sub hre w1 hdre, evQ_sub him w3 hdim]; ring
  have nI : ∀ z : ℂ, ‖I * z‖ = ‖z‖ := fun z => by rw [norm_mul, Complex.norm_I, one_mul]
  have n1 : ‖(evQ fre θ + I * evQ fim θ) -
      (((polyAt tre (Real.cos θ) : ℝ) : ℂ) + I * ((polyAt tim (Real.cos θ) : ℝ) : ℂ))‖ ≤
      ‖evQ dre θ + I * evQ dim θ‖ + ‖evQ otherRe θ‖ + ‖evQ otherIm θ‖ := by
    rw [e1]
    refine (norm_sub_le _ _).trans ?_
    rw [nI]
    exact add_le_add (norm_sub_le _ _) le_rfl
  have n2 := norm_evQ_le otherRe θ
  have n3 := norm_evQ_le otherIm θ
  split at h
  · rename_i hb
    cases h
    have hb' : ((l1 dre.coefs : ℚ) : ℝ) + ((l1 dim.coefs : ℚ) : ℝ) +
        (((l1 otherRe.coefs : ℚ) : ℝ) + ((l1 otherIm.coefs : ℚ) : ℝ) + (E : ℝ)) ≤ (budget : ℝ) := by
      exact_mod_cast hb
    have n4 : ‖evQ dre θ + I * evQ dim θ‖ ≤ ‖evQ dre θ‖ + ‖evQ dim θ‖ := by
      refine (norm_add_le _ _).trans ?_
      rw [nI]
    have n5 := norm_evQ_le dre θ
    have n6 := norm_evQ_le dim θ
    linarith
  · obtain ⟨⟨cs, lo⟩, hz, h⟩ := bind_ok h
    dsimp only at h
    cases h
    have hp : dre.parity = dim.parity := by
      rw [sub_parity_of_nonzero hzre hdre, sub_parity_of_nonzero hzim hdim, hpar]
    have n4 := supLeC_zip dre dim (sub_ok hre w1 hdre).2 (sub_ok him w3 hdim).2
      (Or.inr (Or.inr hp)) cs lo hz _ depth hv θ
    push_cast at n4
    linarith

/-- the former counterexample for the zero-flag hypothesis of `validCplx_sound`: `fre` the
    (well-formed) zero polynomial stored with an odd lowest power, `fim = cos θ`, both targets
    empty; `|0 + i cos 0| = 1` and the budget `3/5` was accepted while `0 + 0` lost the zero flag
    (`LP.add`); it is rejected now -/
example : (validCplx ⟨[0], 1, true⟩ (LP.mk' [1 / 2, 1 / 2] (-1)) 0 [] [] (3 / 5) 30).map (·.ok)
    = .ok false := by decide +kernel

/-- `hpar` (parity) cannot be dropped: `fre = cos 2θ`, `fim = cos θ`, both targets empty; the budget
    `13/10` is accepted although `|cos 0 + i cos 0| = √2 > 13/10` -/
example : (validCplx (LP.mk' [1 / 2, 0, 1 / 2] (-2)) (LP.mk' [1 / 2, 1 / 2] (-1)) 0 [] []
    (13 / 10) 30).map (·.ok) = .ok true := by decide +kernel

/-! ## C. completion validators -/

theorem maxAbs_aux (l : List ℚ) (m : ℚ) :
    m ≤ l.foldl (fun m x => if m < qabs x then qabs x else m) m ∧
    ∀ c ∈ l, |c| ≤ l.foldl (fun m x => if m < qabs x then qabs x else m) m := by
  induction l generalizing m with
  | nil => simp
  | cons x xs ih =>
    simp only [List.foldl_cons, List.mem_cons]
    obtain ⟨h1, h2⟩ := ih (if m < qabs x then qabs x else m)
    refine ⟨le_trans ?_ h1, ?_⟩
    · split
      · exact le_of_lt ‹_›
      · exact le_rfl
    · rintro c (rfl | hc)
      · refine le_trans ?_ h1
        rw [← qabs_eq]
        split
        · exact le_rfl
        · exact not_lt.mp ‹_›
      · exact h2 c hc

theorem maxAbs_nonneg (l : List ℚ) : 0 ≤ maxAbs l := (maxAbs_aux l 0).1

theorem abs_le_maxAbs {l : List ℚ} {c : ℚ} (hc : c ∈ l) : |c| ≤ maxAbs l := (maxAbs_aux l 0).2 c hc

/-- every coefficient of the denoted Laurent polynomial is bounded by `maxAbs` of the list -/
theorem abs_coeff_denL_le (l : List ℚ) (d k : ℤ) : |(denL l d).coeff k| ≤ maxAbs l := by
  rw [denL_coeff]
  split
  · rename_i hk
    have hlt : ((k - d) / 2).toNat < l.length := by omega
    rw [List.getD_eq_getElem _ _ hlt]
    exact abs_le_maxAbs (List.getElem_mem hlt)
  · simpa using maxAbs_nonneg l

theorem unitarityDefect_spec (f g : LP ℚ) (hf : f.WF) (hg : g.WF) (m : ℚ)
    (h : unitarityDefect f g = .ok m) :
    ∀ k : ℤ, |(den f * invert (den f) + den g * invert (den g) - 1).coeff k| ≤ m := by
  unfold unitarityDefect at h
  obtain ⟨n, hn, h⟩ := bind_ok h
  obtain ⟨r, hr, h⟩ := bind_ok h
  cases h
  have hfi := den_inv f hf
  have hgi := den_inv g hg
  have hff := den_mul f f.inv hf hfi.2
  have hgg := den_mul g g.inv hg hgi.2
  obtain ⟨n1, n2⟩ := add_ok hff.2 hgg.2 hn
  obtain ⟨r1, -⟩ := sub_ok n2 WF_one hr
  intro k
  rw [← hfi.1, ← hgi.1, ← hff.1, ← hgg.1, ← n1, ← den_one (R := ℚ), ← r1]
  exact abs_coeff_denL_le _ _ _

theorem validC04_sound' (F G : List ℚ) (tol : ℚ) (v : VOut) (h : validC04 F G tol = .ok v)
    (hv : v.ok = true) :
    G.length = F.length ∧ F ≠ [] ∧ ∀ k : ℤ,
      |(denL F (-(F.length : ℤ) + 1) * invert (denL F (-(F.length : ℤ) + 1)) +
        denL G (-(G.length : ℤ) + 1) * invert (denL G (-(G.length : ℤ) + 1)) - 1).coeff k| < tol := by
  unfold validC04 at h
  split at h
  · cases h; cases hv
  · rename_i hc
    obtain ⟨m, hm, h⟩ := bind_ok h
    cases h
    simp only [decide_eq_true_eq] at hv
    simp only [ne_eq, Bool.or_eq_true, decide_eq_true_eq, List.isEmpty_iff, not_or,
      Decidable.not_not] at hc
    refine ⟨hc.1, hc.2, fun k => lt_of_le_of_lt ?_ hv⟩
    have := unitarityDefect_spec _ _ (WF_mk' F _) (WF_mk' G _) m hm k
    rwa [den_mk', den_mk'] at this

/-- C04: an accepted completion has the length of `F`, and every coefficient of
    `F F~ + G G~ - 1` is below `tol` in magnitude -/
theorem validC04_sound (F G : List ℚ) (tol : ℚ) (v : VOut) (h : validC04 F G tol = .ok v)
    (hv : v.ok = true) :
    G.length = F.length ∧ ∀ k : ℤ,
      |(denL F (-(F.length : ℤ) + 1) * invert (denL F (-(F.length : ℤ) + 1)) +
        denL G (-(G.length : ℤ) + 1) * invert (denL G (-(G.length : ℤ) + 1)) - 1).coeff k| < tol :=
  ⟨(validC04_sound' F G tol v h hv).1, (validC04_sound' F G tol v h hv).2.2⟩

/-- an accepted `F` is not empty -/
theorem validC04_ne_nil (F G : List ℚ) (tol : ℚ) (v : VOut) (h : validC04 F G tol = .ok v)
    (hv : v.ok = true) : F ≠ [] := (validC04_sound' F G tol v h hv).2.1

/-! ### pointwise form of the unitarity defect -/

theorem l1_le_length_mul (L : List ℚ) (ε : ℚ) (h : ∀ c ∈ L, |c| ≤ ε) :
    l1 L ≤ (L.length : ℚ) * ε := by
  induction L with
  | nil => simp [l1]
  | cons c cs ih =>
    rw [l1_cons, qabs_eq, List.length_cons]
    have h1 := h c (by simp)
    have h2 := ih (fun x hx => h x (by simp [hx]))
    push_cast
    linarith

/-- a Laurent polynomial supported on `N` powers `lo, lo+2, …` with coefficients of magnitude at
    most `ε` is at most `N ε` on the circle -/
theorem norm_evalQ_le_of_window (D : ℚ[T;T⁻¹]) (lo : ℤ) (N : ℕ) (ε : ℚ)
    (hsupp : ∀ k, D.coeff k ≠ 0 → ∃ j : ℕ, j < N ∧ k = lo + 2 * (j : ℤ))
    (hc : ∀ k, |D.coeff k| ≤ ε) (θ : ℝ) : ‖evalQ θ D‖ ≤ (N : ℝ) * (ε : ℝ) := by
  have hlen : ((List.range N).map (fun j : ℕ => D.coeff (lo + 2 * (j : ℤ)))).length = N := by simp
  have hD : D = denL ((List.range N).map (fun j : ℕ => D.coeff (lo + 2 * (j : ℤ)))) lo := by
    apply LaurentPolynomial.ext
    intro k
    rw [denL_coeff, hlen]
    split
    · rename_i hk
      have hlt : ((k - lo) / 2).toNat < N := by omega
      rw [List.getD_eq_getElem _ _ (by rw [hlen]; exact hlt)]
      simp only [List.getElem_map, List.getElem_range]
      congr 1; omega
    · rename_i hk
      by_contra hne
      obtain ⟨j, hj, rfl⟩ := hsupp k hne
      apply hk; omega
  have hl : l1 ((List.range N).map (fun j : ℕ => D.coeff (lo + 2 * (j : ℤ)))) ≤ (N : ℚ) * ε := by
    have := l1_le_length_mul ((List.range N).map (fun j : ℕ => D.coeff (lo + 2 * (j : ℤ)))) ε
      (by
        intro c hcm
        simp only [List.mem_map, List.mem_range] at hcm
        obtain ⟨j, -, rfl⟩ := hcm
        exact hc _)
    rwa [hlen] at this
  have hl' : ((l1 ((List.range N).map (fun j : ℕ => D.coeff (lo + 2 * (j : ℤ)))) : ℚ) : ℝ) ≤
      (N : ℝ) * (ε : ℝ) := by exact_mod_cast hl
  rw [hD, evalQ_denL, ← evalC_denL_cast_eq_FW]
  exact (sup_le_l1 _ lo θ).trans hl'

theorem length_convL_le (a b : List ℚ) (hb : b ≠ []) :
    (convL a b).length ≤ a.length + b.length - 1 := by
  have hbl := List.length_pos_of_ne_nil hb
  induction a with
  | nil => simp [convL]
  | cons x xs ih =>
    simp only [convL, length_addL, List.length_map, List.length_cons]
    omega

/-- support of `A A~` for `A` stored on `n` powers: the `2n-1` powers `-(2n-2), …, 2n-2` -/
theorem mul_invert_support (F : List ℚ) (hF : F ≠ []) (d k : ℤ)
    (h : (denL F d * invert (denL F d)).coeff k ≠ 0) :
    k % 2 = 0 ∧ -(2 * (F.length : ℤ) - 2) ≤ k ∧ k ≤ 2 * (F.length : ℤ) - 2 := by
  have hr := denL_reverse F d
  have hc := denL_convL F F.reverse d (-(2 * (F.length : ℤ) + d - 2))
  rw [hr] at hc
  rw [← hc] at h
  have h1 := denL_coeff_ne_zero h
  have h2 := length_convL_le F F.reverse (by simpa using hF)
  have h3 := List.length_pos_of_ne_nil hF
  rw [List.length_reverse] at h2
  omega

/-- pointwise corollary of `validC04_sound`: `|F(w)F(1/w) + G(w)G(1/w) - 1| ≤ (2n-1) tol` at
    every point `w = e^{iθ}` of the circle -/
theorem validC04_pointwise (F G : List ℚ) (tol : ℚ) (v : VOut) (h : validC04 F G tol = .ok v)
    (hv : v.ok = true) (θ : ℝ) :
    ‖evQ (LP.mk' F (-(F.length : ℤ) + 1)) θ * evQ (LP.mk' F (-(F.length : ℤ) + 1)) (-θ) +
      evQ (LP.mk' G (-(G.length : ℤ) + 1)) θ * evQ (LP.mk' G (-(G.length : ℤ) + 1)) (-θ) - 1‖ ≤
      (2 * (F.length : ℝ) - 1) * (tol : ℝ) := by
  obtain ⟨hlen, hF, hdef⟩ := validC04_sound' F G tol v h hv
  have hG : G ≠ [] := by
    intro hg; rw [hg] at hlen
    exact hF (List.length_eq_zero_iff.mp hlen.symm)
  have hn := List.length_pos_of_ne_nil hF
  have e : evQ (LP.mk' F (-(F.length : ℤ) + 1)) θ * evQ (LP.mk' F (-(F.length : ℤ) + 1)) (-θ) +
      evQ (LP.mk' G (-(G.length : ℤ) + 1)) θ * evQ (LP.mk' G (-(G.length : ℤ) + 1)) (-θ) - 1 =
      evalQ θ (denL F (-(F.length : ℤ) + 1) * invert (denL F (-(F.length : ℤ) + 1)) +
        denL G (-(G.length : ℤ) + 1) * invert (denL G (-(G.length : ℤ) + 1)) - 1) := by
    simp only [evQ_eq, den_mk', map_sub, map_add, map_mul, map_one, evalQ_invert]
  rw [e]
  have key := norm_evalQ_le_of_window _ (-(2 * (F.length : ℤ) - 2)) (2 * F.length - 1) tol ?_
    (fun k => (hdef k).le) θ
  · have hc : ((2 * F.length - 1 : ℕ) : ℝ) = 2 * (F.length : ℝ) - 1 := by
      rw [Nat.cast_sub (by omega)]; push_cast; ring
    rwa [hc] at key
  · intro k hk
    have hwin : k % 2 = 0 ∧ -(2 * (F.length : ℤ) - 2) ≤ k ∧ k ≤ 2 * (F.length : ℤ) - 2 := by
      by_contra hcon
      apply hk
      have hA : (denL F (-(F.length : ℤ) + 1) * invert (denL F (-(F.length : ℤ) + 1))).coeff k = 0 := by
        by_contra hne; exact hcon (mul_invert_support F hF _ k hne)
      have hB : (denL G (-(G.length : ℤ) + 1) * invert (denL G (-(G.length : ℤ) + 1))).coeff k = 0 := by
        by_contra hne
        have := mul_invert_support G hG _ k hne
        rw [hlen] at this
        exact hcon this
      have h1 : ((1 : ℚ[T;T⁻¹])).coeff k = 0 := by
        by_contra hne
        have h1' : (denL [(1 : ℚ)] 0).coeff k ≠ 0 := by
          have : denL [(1 : ℚ)] 0 = 1 := by simp
          rwa [this]
        have := denL_coeff_ne_zero h1'
        simp only [List.length_singleton, Nat.cast_one] at this
        apply hcon; omega
      simp only [AddMonoidAlgebra.coeff_add, AddMonoidAlgebra.coeff_sub, Finsupp.add_apply,
        Finsupp.sub_apply, hA, hB, h1]
      simp
    refine ⟨((k + (2 * (F.length : ℤ) - 2)) / 2).toNat, ?_, ?_⟩ <;> omega

/-- `symHalf` is the symmetrisation `θ ↦ (f(θ) + f(-θ))/2`; on non-zero-flagged input the result
    is non-zero-flagged and has the parity of the input -/
theorem symHalf_spec (p s : LP ℚ) (hp : p.WF) (h : symHalf p = .ok s) (θ : ℝ) :
    evQ s θ = (evQ p θ + evQ p (-θ)) / 2 ∧ s.WF := by
  unfold symHalf at h
  obtain ⟨a, ha, h⟩ := bind_ok h
  cases h
  have hi := den_inv p hp
  obtain ⟨-, a2⟩ := add_ok hp hi.2 ha
  refine ⟨?_, (den_smul _ a a2).2⟩
  rw [evQ_smul _ _ a2, evQ_add hp hi.2 ha, evQ_inv p hp]
  push_cast
  ring

theorem symHalf_NZ (p s : LP ℚ) (hp : p.NZ) (h : symHalf p = .ok s) :
    s.NZ ∧ s.parity = p.parity := by
  unfold symHalf at h
  obtain ⟨a, ha, h⟩ := bind_ok h
  cases h
  obtain ⟨hin, hip⟩ := inv_NZ hp
  obtain ⟨a', ha', aNZ, apar⟩ := add_NZ hp hin hip.symm
  rw [ha] at ha'; cases ha'
  unfold LP.smul
  simp only [aNZ.2, Bool.false_eq_true, if_false]
  refine ⟨NZ_mk' (by simpa using aNZ.1.1) _, ?_⟩
  unfold LP.parity at apar ⊢
  rw [dmin_mk']; exact apar

/-! ### C05 -/

/-- the complex 1-norm `Σ_k |re_k + i im_k|` of a pair of coefficient lists -/
noncomputable def cnorm1 : List ℚ → List ℚ → ℝ
  | r :: rs, i :: is => Real.sqrt ((r : ℝ) ^ 2 + (i : ℝ) ^ 2) + cnorm1 rs is
  | [], _ => 0
  | _ :: _, [] => 0

theorem cnorm1_cons (r i : ℚ) (rs is : List ℚ) :
    cnorm1 (r :: rs) (i :: is) = ‖((r : ℝ) : ℂ) + I * ((i : ℝ) : ℂ)‖ + cnorm1 rs is := by
  rw [cnorm1, mul_comm, Complex.norm_add_mul_I]

theorem cnorm1Lo_le (pre pim : List ℚ) : ((cnorm1Lo pre pim : ℚ) : ℝ) ≤ cnorm1 pre pim := by
  induction pre generalizing pim with
  | nil => simp [cnorm1Lo, cnorm1]
  | cons r rs ih =>
    cases pim with
    | nil => simp [cnorm1Lo, cnorm1]
    | cons i is =>
      rw [cnorm1Lo, cnorm1]
      have hq : (0 : ℚ) ≤ r * r + i * i := add_nonneg (mul_self_nonneg r) (mul_self_nonneg i)
      have := (sqrtLo_sound (r * r + i * i) 64 hq).2.1
      have e : (((r * r + i * i : ℚ)) : ℝ) = (r : ℝ) ^ 2 + (i : ℝ) ^ 2 := by push_cast; ring
      rw [e] at this
      push_cast
      exact add_le_add this (ih is)

/-- C05: unitarity within `tol` (coefficient-wise) and the Hadamard-conjugated corner of
    `[[F(θ), iG(θ)], [iG(-θ), F(-θ)]]` equals `P(cos θ)` within `1e-9 ‖P‖₁` at every `θ` -/
theorem validC05_sound (pre pim F G : List ℚ) (tol : ℚ) (depth : ℕ) (v : VOut)
    (h : validC05 pre pim F G tol depth = .ok v) (hv : v.ok = true) :
    (G.length = F.length ∧ ∀ k : ℤ,
      |(denL F (-(F.length : ℤ) + 1) * invert (denL F (-(F.length : ℤ) + 1)) +
        denL G (-(G.length : ℤ) + 1) * invert (denL G (-(G.length : ℤ) + 1)) - 1).coeff k| < tol) ∧
    ∀ θ : ℝ,
      ‖((evQ (LP.mk' F (-(F.length : ℤ) + 1)) θ + evQ (LP.mk' F (-(F.length : ℤ) + 1)) (-θ)) / 2 +
          I * ((evQ (LP.mk' G (-(G.length : ℤ) + 1)) θ +
            evQ (LP.mk' G (-(G.length : ℤ) + 1)) (-θ)) / 2)) -
        (((polyAt pre (Real.cos θ) : ℝ) : ℂ) + I * ((polyAt pim (Real.cos θ) : ℝ) : ℂ))‖
      ≤ (1e-9 : ℝ) * cnorm1 pre pim := by
  unfold validC05 at h
  obtain ⟨u, hu, h⟩ := bind_ok h
  split at h
  · cases h; cases hv
  · rename_i hok
    have huok : u.ok = true := by simpa using hok
    obtain ⟨hlen, hF, hdef⟩ := validC04_sound' F G tol u hu huok
    refine ⟨⟨hlen, hdef⟩, fun θ => ?_⟩
    obtain ⟨sa, hsa, h⟩ := bind_ok h
    obtain ⟨sb, hsb, h⟩ := bind_ok h
    have hG : G ≠ [] := by
      intro hg; rw [hg] at hlen
      exact hF (List.length_eq_zero_iff.mp hlen.symm)
    have fNZ : (LP.mk' F (-(F.length : ℤ) + 1)).NZ := NZ_mk' hF _
    have gNZ : (LP.mk' G (-(G.length : ℤ) + 1)).NZ := NZ_mk' hG _
    obtain ⟨a1, a2⟩ := symHalf_spec _ sa fNZ.1 hsa θ
    obtain ⟨b1, b2⟩ := symHalf_spec _ sb gNZ.1 hsb θ
    obtain ⟨a3, a4⟩ := symHalf_NZ _ sa fNZ hsa
    obtain ⟨b3, b4⟩ := symHalf_NZ _ sb gNZ hsb
    have hpar : sa.parity = sb.parity := by
      rw [a4, b4]; unfold LP.parity; rw [dmin_mk', dmin_mk', hlen]
    have := validCplx_sound sa sb a2 b2 a3.2 b3.2 hpar 0 pre pim _ depth v h hv θ
    rw [a1, b1] at this
    have hc := cnorm1Lo_le pre pim
    push_cast at this
    norm_num at this ⊢
    linarith

/-! ## D. Chebyshev series -/

/-- `Σ_j c_j g(k + j)` -/
noncomputable def wsum (g : ℕ → ℝ) : List ℚ → ℕ → ℝ
  | [], _ => 0
  | a :: as, k => (a : ℝ) * g k + wsum g as (k + 1)

theorem wsum_eq_sum (g : ℕ → ℝ) (c : List ℚ) (k : ℕ) :
    wsum g c k = ∑ i ∈ Finset.range c.length, ((c.getD i 0 : ℚ) : ℝ) * g (k + i) := by
  induction c generalizing k with
  | nil => simp [wsum]
  | cons a as ih =>
    rw [wsum, ih, List.length_cons, Finset.sum_range_succ']
    simp only [List.getD_cons_succ, List.getD_cons_zero, add_zero]
    rw [add_comm]
    congr 1
    apply Finset.sum_congr rfl
    intro i _
    rw [show k + 1 + i = k + (i + 1) by ring]

theorem abs_wsum_le (g : ℕ → ℝ) (hg : ∀ j, |g j| ≤ 1) (c : List ℚ) (k : ℕ) :
    |wsum g c k| ≤ ((l1 c : ℚ) : ℝ) := by
  induction c generalizing k with
  | nil => simp [wsum, l1]
  | cons a as ih =>
    rw [wsum, l1_cons, qabs_eq]
    push_cast
    refine (abs_add_le _ _).trans (add_le_add ?_ (ih _))
    rw [abs_mul]
    have := hg k
    have h0 := abs_nonneg (a : ℝ)
    nlinarith

/-- value `Σ_k c_k T_k(x)` of a Chebyshev series -/
noncomputable def chebAt (c : List ℚ) (x : ℝ) : ℝ :=
  wsum (fun k => (Polynomial.Chebyshev.T ℝ (k : ℤ)).eval x) c 0

theorem chebAt_eq_sum (c : List ℚ) (x : ℝ) :
    chebAt c x = ∑ k ∈ Finset.range c.length,
      ((c.getD k 0 : ℚ) : ℝ) * (Polynomial.Chebyshev.T ℝ (k : ℤ)).eval x := by
  rw [chebAt, wsum_eq_sum]
  simp only [zero_add]

/-- `Σ_j 2 l_j cos((d + 2j) φ)` -/
noncomputable def cosSumZ : List ℚ → ℤ → ℝ → ℝ
  | [], _, _ => 0
  | a :: as, d, φ => 2 * (a : ℝ) * Real.cos ((d : ℝ) * φ) + cosSumZ as (d + 2) φ

theorem evalQ_symm_denL (l : List ℚ) (d : ℤ) (φ : ℝ) :
    evalQ φ (invert (denL l d) + denL l d) = ((cosSumZ l d φ : ℝ) : ℂ) := by
  induction l generalizing d with
  | nil => simp [cosSumZ]
  | cons a as ih =>
    have h := ih (d + 2)
    simp only [map_add] at h
    simp only [denL_cons, map_add, map_mul, invert_C, invert_T, evalQ_C, evalQ_T, cosSumZ]
    rw [add_add_add_comm, h]
    push_cast
    rw [Complex.cos, ← Complex.exp_int_mul, ← Complex.exp_int_mul]
    have e1 : ((-d : ℤ) : ℂ) * ((φ : ℂ) * I) = -((d : ℂ) * (φ : ℂ)) * I := by push_cast; ring
    have e2 : ((d : ℤ) : ℂ) * ((φ : ℂ) * I) = ((d : ℂ) * (φ : ℂ)) * I := by ring
    rw [e1, e2]
    ring

theorem cosSumZ_map_half (c : List ℚ) (d : ℤ) (φ : ℝ) (g : ℕ → ℝ) (k : ℕ)
    (hg : ∀ j : ℕ, g (k + j) = Real.cos (((d : ℝ) + 2 * (j : ℝ)) * φ)) :
    cosSumZ (c.map (· / 2)) d φ = wsum g c k := by
  induction c generalizing d k with
  | nil => simp [cosSumZ, wsum]
  | cons a as ih =>
    rw [List.map_cons, cosSumZ, wsum, ih (d + 2) (k + 1)]
    · have := hg 0
      simp only [add_zero, Nat.cast_zero, mul_zero] at this
      rw [this]; push_cast; ring
    · intro j
      rw [show k + 1 + j = k + (j + 1) by ring, hg (j + 1)]
      push_cast
      ring_nf

/-- the symmetric coefficient vector of `chebSeriesLP` denotes `f(1/v) + f(v)` with
    `f(v) = Σ_k (c_k/2) v^{2k}` -/
theorem denL_chebSeriesLP (c : List ℚ) :
    denL (chebSeriesLP c).1 (chebSeriesLP c).2 =
      invert (denL (c.map (· / 2)) 0) + denL (c.map (· / 2)) 0 := by
  cases c with
  | nil => simp [chebSeriesLP]
  | cons c0 rest =>
    have h := denL_sym_even (c0 / 2) (rest.map (· / 2))
    have e1 : (2 : ℚ) * (c0 / 2) = c0 := by ring
    have e2 : -(((rest.map (· / 2)).reverse ++ [c0] ++ rest.map (· / 2)).length : ℤ) + 1 =
        -(2 * (rest.length : ℤ)) := by
      simp only [List.length_append, List.length_reverse, List.length_map, List.length_singleton]
      push_cast; ring
    rw [e1, e2] at h
    simpa [chebSeriesLP] using h

/-- at `v = e^{iθ/2}` the Laurent polynomial of `chebSeriesLP` is `Σ_k c_k T_k(cos θ)` -/
theorem FW_chebSeriesLP (c : List ℚ) (θ : ℝ) :
    FW ((chebSeriesLP c).1.map (fun q : ℚ => ((q : ℝ) : ℂ))) (chebSeriesLP c).2
        (exp (((θ / 2 : ℝ) : ℂ) * I)) = ((chebAt c (Real.cos θ) : ℝ) : ℂ) := by
  rw [← evalQ_denL, denL_chebSeriesLP, evalQ_symm_denL, chebAt]
  congr 1
  apply cosSumZ_map_half
  intro j
  rw [zero_add, Polynomial.Chebyshev.T_real_cos]
  congr 1
  push_cast
  ring

theorem chebSupLe_sound (c : List ℚ) (B : ℚ) (depth : ℕ) (h : (chebSupLe c B depth).1 = true) :
    ∀ x : ℝ, x ∈ Set.Icc (-1 : ℝ) 1 → |chebAt c x| ≤ (B : ℝ) := by
  intro x hx
  unfold chebSupLe at h
  dsimp only at h
  split at h
  · rename_i hb
    have hb' : ((l1 c : ℚ) : ℝ) ≤ (B : ℝ) := by exact_mod_cast hb
    refine le_trans (abs_wsum_le _ (fun j => ?_) c 0) hb'
    exact Polynomial.Chebyshev.abs_eval_T_real_le_one _ (abs_le.mpr ⟨hx.1, hx.2⟩)
  · have hcos : Real.cos (Real.arccos x) = x := Real.cos_arccos hx.1 hx.2
    have := supLeReal_sound _ _ B depth h _ (norm_circ (Real.arccos x / 2))
    rw [FW_chebSeriesLP, hcos, Complex.norm_real, Real.norm_eq_abs] at this
    exact this

/-! ### the exact evaluator `chebEval` -/

theorem chebEvalAux_spec (x : ℚ) (c : List ℚ) (k : ℕ) (t0 t1 : ℚ)
    (h0 : (t0 : ℝ) = (Polynomial.Chebyshev.T ℝ (k : ℤ)).eval (x : ℝ))
    (h1 : (t1 : ℝ) = (Polynomial.Chebyshev.T ℝ ((k : ℤ) + 1)).eval (x : ℝ)) :
    ((chebEvalAux x c t0 t1 : ℚ) : ℝ) =
      wsum (fun j => (Polynomial.Chebyshev.T ℝ (j : ℤ)).eval (x : ℝ)) c k := by
  induction c generalizing k t0 t1 with
  | nil => simp [chebEvalAux, wsum]
  | cons a as ih =>
    rw [chebEvalAux, wsum]
    push_cast
    rw [ih (k + 1) t1 (2 * x * t1 - t0), h0]
    · push_cast; exact h1
    · push_cast
      rw [show (k : ℤ) + 1 + 1 = (k : ℤ) + 2 by ring, Polynomial.Chebyshev.T_add_two]
      simp only [Polynomial.eval_sub, Polynomial.eval_mul, Polynomial.eval_ofNat,
        Polynomial.eval_X]
      rw [h0, h1]

/-- `chebEval` computes `Σ_k c_k T_k(x)` exactly at rational points -/
theorem chebEval_chebAt (c : List ℚ) (x : ℚ) : ((chebEval c x : ℚ) : ℝ) = chebAt c (x : ℝ) := by
  rw [chebEval, chebAt]
  apply chebEvalAux_spec <;> simp

theorem chebEval_spec (c : List ℚ) (x : ℚ) :
    ((chebEval c x : ℚ) : ℝ) = ∑ k ∈ Finset.range c.length,
      ((c.getD k 0 : ℚ) : ℝ) * (Polynomial.Chebyshev.T ℝ (k : ℤ)).eval (x : ℝ) := by
  rw [chebEval_chebAt, chebAt_eq_sum]

/-! ### `chebToLP` -/

theorem den_chebToLP (par : ℕ) (c : List ℚ) :
    den (chebToLP par c) = invert (denL (c.map (· / 2)) ((par % 2 : ℕ) : ℤ)) +
      denL (c.map (· / 2)) ((par % 2 : ℕ) : ℤ) := by
  unfold chebToLP
  split
  · rename_i hp
    rw [hp]
    dsimp only
    rw [den_mk']
    have h := denL_sym_odd (c.map (· / 2))
    have e : -(((c.map (· / 2)).reverse ++ c.map (· / 2)).length : ℤ) + 1 =
        -(2 * (c.length : ℤ)) + 1 := by
      simp only [List.length_append, List.length_reverse, List.length_map]
      push_cast; ring
    rw [e] at h
    simpa using h
  · rename_i hp
    have hp0 : par % 2 = 0 := by omega
    rw [hp0]
    have h := denL_chebSeriesLP c
    cases c with
    | nil => simpa using den_zero.1
    | cons c0 rest =>
      dsimp only
      rw [den_mk']
      simpa [chebSeriesLP] using h

theorem chebToLP_WF (par : ℕ) (c : List ℚ) : (chebToLP par c).WF := by
  unfold chebToLP
  split
  · exact WF_mk' _ _
  · cases c with
    | nil => exact den_zero.2
    | cons c0 rest => exact WF_mk' _ _

theorem chebToLP_wsum (par : ℕ) (c : List ℚ) (θ : ℝ) :
    evQ (chebToLP par c) θ =
      ((wsum (fun k => Real.cos (((2 * k + par % 2 : ℕ) : ℝ) * θ)) c 0 : ℝ) : ℂ) := by
  rw [evQ_eq, den_chebToLP, evalQ_symm_denL]
  congr 1
  apply cosSumZ_map_half
  intro j
  congr 1
  simp only [Int.cast_natCast, Nat.cast_add, Nat.cast_mul, Nat.cast_ofNat, zero_add]
  ring

/-- `chebToLP par c` is `Σ_k c_k cos((2k + par) θ)` on the circle … -/
theorem chebToLP_spec (par : ℕ) (c : List ℚ) (θ : ℝ) :
    evQ (chebToLP par c) θ = ((∑ k ∈ Finset.range c.length,
      ((c.getD k 0 : ℚ) : ℝ) * Real.cos (((2 * k + par % 2 : ℕ) : ℝ) * θ) : ℝ) : ℂ) ∧
    (chebToLP par c).WF := by
  refine ⟨?_, chebToLP_WF par c⟩
  rw [chebToLP_wsum, wsum_eq_sum]
  simp only [zero_add]

/-- … i.e. `Σ_k c_k T_{2k+par}(cos θ)` -/
theorem chebToLP_spec_T (par : ℕ) (c : List ℚ) (θ : ℝ) :
    evQ (chebToLP par c) θ = ((∑ k ∈ Finset.range c.length,
      ((c.getD k 0 : ℚ) : ℝ) *
        (Polynomial.Chebyshev.T ℝ ((2 * k + par % 2 : ℕ) : ℤ)).eval (Real.cos θ) : ℝ) : ℂ) := by
  rw [(chebToLP_spec par c θ).1]
  congr 2
  funext k
  rw [Polynomial.Chebyshev.T_real_cos]
  push_cast
  rfl

/-! ## Non-vacuity (kernel-checked runs of the validators; the theorems apply to them) -/

/-- `cos θ - cos(3θ)/3` against the zero target: 1-norm `4/3`, certified `≤ 1 - 1/1000` by the
    sup certificate (stage 2) -/
example : (validReal (LP.mk' [-1 / 6, 1 / 2, 1 / 2, -1 / 6] (-3)) (1 / 1000) [] 1 20).map
    (fun v => (v.ok, v.stage)) = .ok (true, 2) := by decide +kernel

example : ∀ θ : ℝ, ‖evQ (LP.mk' [-1 / 6, 1 / 2, 1 / 2, -1 / 6] (-3)) θ -
    ((polyAt [] (Real.cos θ) : ℝ) : ℂ)‖ + ((1 / 1000 : ℚ) : ℝ) ≤ ((1 : ℚ) : ℝ) := by
  cases hr : validReal (LP.mk' [-1 / 6, 1 / 2, 1 / 2, -1 / 6] (-3)) (1 / 1000) [] 1 20 with
  | error e =>
    have : (validReal (LP.mk' [-1 / 6, 1 / 2, 1 / 2, -1 / 6] (-3)) (1 / 1000) [] 1 20).map
      (fun v => (v.ok, v.stage)) = .ok (true, 2) := by decide +kernel
    rw [hr] at this; cases this
  | ok v =>
    have : (validReal (LP.mk' [-1 / 6, 1 / 2, 1 / 2, -1 / 6] (-3)) (1 / 1000) [] 1 20).map
      (fun v => (v.ok, v.stage)) = .ok (true, 2) := by decide +kernel
    rw [hr] at this
    have hv : v.ok = true := by
      have h2 := Except.ok.inj this
      exact congrArg Prod.fst h2
    exact validReal_sound _ (WF_mk' _ _) _ _ _ _ v hr hv

/-- complex target `i x / 2` against `(cos θ - cos(3θ)/3) + i cos θ / 2` (stage 2) -/
example : (validCplx (LP.mk' [-1 / 6, 1 / 2, 1 / 2, -1 / 6] (-3)) (LP.mk' [1 / 4, 1 / 4] (-1))
    (1 / 1000) [] [0, 1 / 2] 1 20).map (fun v => (v.ok, v.stage)) = .ok (true, 2) := by
  decide +kernel

/-- `F = cos θ`, `G = i sin θ` (as Laurent vectors) complete `P(x) = x` -/
example : (validC05 [0, 1] [0, 0] [1 / 2, 1 / 2] [-1 / 2, 1 / 2] (1 / 100) 20).map
    (fun v => (v.ok, v.stage)) = .ok (true, 1) := by decide +kernel

/-- `T_0/2 + T_1/3 - T_2/4` : 1-norm `13/12`, sup `≤ 1.01` certified with 9 evaluations; the value
    at `x = 1` is `7/12` -/
example : chebSupLe [1 / 2, 1 / 3, -1 / 4] (101 / 100) 20 = (true, 9) ∧
    chebEval [1 / 2, 1 / 3, -1 / 4] 1 = 7 / 12 := by decide +kernel

end QSP

/-
  Evaluation of the exactly computed rational model values on the unit circle:
  `evQ p θ` is the value of a rational model polynomial at `e^{iθ}`, `evMat g θ` the 2×2 complex
  matrix denoted by a rational Low-algebra element, and `fromAngles_eval` states that the
  element computed by `LA.fromAngles` IS the ordered product of X-rotations and diagonal signal
  matrices at every point of the circle.
-/
import QSP.Proofs.EvalC
import QSP.Proofs.LAlg
import QSP.Proofs.L2Kit
import Mathlib.LinearAlgebra.Matrix.Notation
import Mathlib.Tactic.FinCases
import Mathlib.Tactic.LinearCombination

open LaurentPolynomial Complex Matrix
namespace QSP

/-! ### definitions -/

/-- value of a rational model polynomial at the circle point e^{iθ} -/
noncomputable def evQ (p : LP ℚ) (θ : ℝ) : ℂ :=
  FW (p.coefs.map (fun q : ℚ => ((q : ℝ) : ℂ))) p.dmin (exp ((θ : ℂ) * I))

-- `rotC`, `wC` : see `QSP/Proofs/L2Kit.lean`

/-- the 2×2 complex matrix denoted by a rational Low-algebra element at e^{iθ} -/
noncomputable def evMat (g : LA ℚ) (θ : ℝ) : Matrix (Fin 2) (Fin 2) ℂ :=
  !![evQ g.I θ, I * evQ g.X θ; I * evQ g.X (-θ), evQ g.I (-θ)]

/-- diagonal matrix `diag(z(θ), z(-θ))` of a model polynomial (`LAlg * LPoly`) -/
noncomputable def diagP (p : LP ℚ) (θ : ℝ) : Matrix (Fin 2) (Fin 2) ℂ :=
  !![evQ p θ, 0; 0, evQ p (-θ)]

/-! ### the evaluation ring homomorphism `ℚ[T;T⁻¹] →+* ℂ` -/

/-- evaluation of a rational Laurent polynomial at `e^{iθ}` -/
noncomputable def evalQ (θ : ℝ) : ℚ[T;T⁻¹] →+* ℂ :=
  LaurentPolynomial.eval₂ ((algebraMap ℝ ℂ).comp (Rat.castHom ℝ)) (circ θ)

theorem evalQ_C (θ : ℝ) (q : ℚ) : evalQ θ (C q) = ((q : ℝ) : ℂ) := by
  simp [evalQ, eval₂_C]

theorem evalQ_T (θ : ℝ) (k : ℤ) : evalQ θ (T k) = exp ((θ : ℂ) * I) ^ k := by
  simp only [evalQ, eval₂_T]
  rw [Units.val_zpow_eq_zpow_val]
  rfl

theorem evalQ_denL (θ : ℝ) (cs : List ℚ) (d : ℤ) :
    evalQ θ (denL cs d) = FW (cs.map (fun q : ℚ => ((q : ℝ) : ℂ))) d (exp ((θ : ℂ) * I)) := by
  induction cs generalizing d with
  | nil => simp [FW]
  | cons c cs ih =>
    simp only [denL_cons, List.map_cons, FW, map_add, map_mul, evalQ_C, evalQ_T, ih]

theorem evQ_eq (p : LP ℚ) (θ : ℝ) : evQ p θ = evalQ θ (den p) := by
  rw [den, evalQ_denL]; rfl

theorem exp_neg_theta (θ : ℝ) : exp (((-θ : ℝ) : ℂ) * I) = (exp ((θ : ℂ) * I))⁻¹ := by
  rw [← Complex.exp_neg]; congr 1; push_cast; ring

theorem evalQ_invert (θ : ℝ) (f : ℚ[T;T⁻¹]) : evalQ θ (invert f) = evalQ (-θ) f := by
  induction f using LaurentPolynomial.induction_on' with
  | add p q hp hq => simp only [map_add, hp, hq]
  | C_mul_T n a =>
    simp only [map_mul, invert_C, invert_T, evalQ_C, evalQ_T, exp_neg_theta]
    rw [zpow_neg, inv_zpow]

/-- evaluation through the real Laurent polynomial (link to `evalC` of `EvalC.lean`) -/
theorem evQ_eq_evalC (p : LP ℚ) (θ : ℝ) :
    evQ p θ = evalC θ (denL (p.coefs.map (fun q : ℚ => (q : ℝ))) p.dmin) := by
  rw [evalC_denL_cast_eq_FW]; rfl

/-! ### the ring operations of `LP ℚ` under evaluation -/

theorem evQ_mul (p q : LP ℚ) (hp : p.WF) (hq : q.WF) (θ : ℝ) :
    evQ (p.mul q) θ = evQ p θ * evQ q θ := by
  rw [evQ_eq, evQ_eq, evQ_eq, (den_mul p q hp hq).1, map_mul]

theorem evQ_inv (p : LP ℚ) (hp : p.WF) (θ : ℝ) : evQ p.inv θ = evQ p (-θ) := by
  rw [evQ_eq, evQ_eq, (den_inv p hp).1, evalQ_invert]

theorem evQ_neg (p : LP ℚ) (hp : p.WF) (θ : ℝ) : evQ p.neg θ = - evQ p θ := by
  rw [evQ_eq, evQ_eq, (den_neg p hp).1, map_neg]

theorem evQ_smul (c : ℚ) (p : LP ℚ) (hp : p.WF) (θ : ℝ) :
    evQ (LP.smul c p) θ = ((c : ℝ) : ℂ) * evQ p θ := by
  rw [evQ_eq, evQ_eq, (den_smul c p hp).1, map_mul, evalQ_C]

theorem evQ_add {p q r : LP ℚ} (hp : p.WF) (hq : q.WF) (h : p.add q = .ok r) (θ : ℝ) :
    evQ r θ = evQ p θ + evQ q θ := by
  rw [evQ_eq, evQ_eq, evQ_eq, (add_ok hp hq h).1, map_add]

theorem evQ_sub {p q r : LP ℚ} (hp : p.WF) (hq : q.WF) (h : p.sub q = .ok r) (θ : ℝ) :
    evQ r θ = evQ p θ - evQ q θ := by
  rw [evQ_eq, evQ_eq, evQ_eq, (sub_ok hp hq h).1, map_sub]

theorem evQ_const (c : ℚ) (θ : ℝ) : evQ (LP.mk' [c] 0) θ = ((c : ℝ) : ℂ) := by
  rw [evQ_eq, den_const, evalQ_C]

theorem evQ_w (θ : ℝ) : evQ (LP.w : LP ℚ) θ = exp ((θ : ℂ) * I) := by
  rw [evQ_eq, den_w, evalQ_T, zpow_one]

theorem evQ_zero (θ : ℝ) : evQ (LP.zero : LP ℚ) θ = 0 := by
  rw [evQ_eq, den_zero.1, map_zero]

theorem evQ_one (θ : ℝ) : evQ (LP.one : LP ℚ) θ = 1 := by
  rw [evQ_eq, den_one, map_one]

/-- the value on the circle is bounded by the 1-norm of the coefficient list -/
theorem norm_evQ_le (p : LP ℚ) (θ : ℝ) : ‖evQ p θ‖ ≤ ((l1 p.coefs : ℚ) : ℝ) := by
  rw [evQ_eq_evalC]; exact sup_le_l1 p.coefs p.dmin θ

/-! ### the operations of `LA ℚ` are the matrix operations at every point of the circle -/

theorem evMat_00 (g : LA ℚ) (θ : ℝ) : (evMat g θ) 0 0 = evQ g.I θ := by simp [evMat]
theorem evMat_01 (g : LA ℚ) (θ : ℝ) : (evMat g θ) 0 1 = I * evQ g.X θ := by simp [evMat]
theorem evMat_10 (g : LA ℚ) (θ : ℝ) : (evMat g θ) 1 0 = I * evQ g.X (-θ) := by simp [evMat]
theorem evMat_11 (g : LA ℚ) (θ : ℝ) : (evMat g θ) 1 1 = evQ g.I (-θ) := by simp [evMat]

theorem evMat_mul {g h r : LA ℚ} (hg : g.WF) (hh : h.WF) (e : g.mul h = .ok r) (θ : ℝ) :
    evMat r θ = evMat g θ * evMat h θ := by
  obtain ⟨hI, hX, -⟩ := LA.mul_ok hg hh e
  have hII : (I : ℂ) * I = -1 := Complex.I_mul_I
  have eI : ∀ t : ℝ, evQ r.I t = evQ g.I t * evQ h.I t - evQ g.X t * evQ h.X (-t) := by
    intro t; simp only [evQ_eq, hI, map_sub, map_mul, evalQ_invert]
  have eX : ∀ t : ℝ, evQ r.X t = evQ g.I t * evQ h.X t + evQ g.X t * evQ h.I (-t) := by
    intro t; simp only [evQ_eq, hX, map_add, map_mul, evalQ_invert]
  apply Matrix.ext; intro i j
  fin_cases i <;> fin_cases j
  · simp [evMat, eI, Matrix.mul_apply, Fin.sum_univ_two]
    linear_combination (-(evQ g.X θ * evQ h.X (-θ))) * hII
  · simp [evMat, eX, Matrix.mul_apply, Fin.sum_univ_two]
    ring
  · simp [evMat, eX, Matrix.mul_apply, Fin.sum_univ_two]
    ring
  · simp [evMat, eI, Matrix.mul_apply, Fin.sum_univ_two]
    linear_combination (-(evQ g.X (-θ) * evQ h.X θ)) * hII

theorem evMat_mulR {g r : LA ℚ} {p : LP ℚ} (hg : g.WF) (hp : p.WF) (e : g.mulR p = .ok r)
    (θ : ℝ) : evMat r θ = evMat g θ * diagP p θ := by
  obtain ⟨hI, hX, -⟩ := LA.mulR_ok hg hp e
  have eI : ∀ t : ℝ, evQ r.I t = evQ g.I t * evQ p t := by
    intro t; simp only [evQ_eq, hI, map_mul]
  have eX : ∀ t : ℝ, evQ r.X t = evQ g.X t * evQ p (-t) := by
    intro t; simp only [evQ_eq, hX, map_mul, evalQ_invert]
  apply Matrix.ext; intro i j
  fin_cases i <;> fin_cases j <;>
    simp [evMat, diagP, eI, eX, Matrix.mul_apply, Fin.sum_univ_two] <;> ring

theorem evMat_rotation (c : ℚ × ℚ) (θ : ℝ) :
    evMat (LA.rotation c) θ = rotC ((c.1 : ℝ) : ℂ) ((c.2 : ℝ) : ℂ) := by
  simp only [evMat, LA.rotation, evQ_const, rotC]

theorem diagP_w (θ : ℝ) : diagP (LP.w : LP ℚ) θ = wC θ := by
  simp only [diagP, wC, evQ_w, exp_neg_theta, Complex.exp_neg]

/-! ### `unitary_from_angles` -/

theorem fromAnglesAux_eval (cs : List (ℚ × ℚ)) (acc g : LA ℚ) (hacc : acc.NZ)
    (h : LA.fromAnglesAux acc cs = .ok g) (θ : ℝ) :
    evMat g θ = cs.foldl (fun U e => U * (wC θ * rotC ((e.1 : ℝ) : ℂ) ((e.2 : ℝ) : ℂ)))
                  (evMat acc θ) ∧ g.NZ := by
  induction cs generalizing acc with
  | nil => cases h; exact ⟨rfl, hacc⟩
  | cons c cs ih =>
    unfold LA.fromAnglesAux at h
    obtain ⟨a, ha, h⟩ := bind_ok h
    obtain ⟨b, hb, h⟩ := bind_ok h
    obtain ⟨a', ha', aNZ⟩ := LA.mulR_NZ hacc (NZ_w (R := ℚ))
    rw [ha] at ha'; cases ha'
    obtain ⟨b', hb', bNZ⟩ := LA.mul_NZ aNZ (NZ_rotation c)
    rw [hb] at hb'; cases hb'
    obtain ⟨h1, h2⟩ := ih b bNZ h
    refine ⟨?_, h2⟩
    rw [h1, List.foldl_cons, evMat_mul aNZ.wf (WF_rotation c) hb, evMat_mulR hacc.wf WF_w ha,
      evMat_rotation, diagP_w, Matrix.mul_assoc]

/-- on a non-empty list the model never fails and returns a well-formed element -/
theorem fromAngles_returns (c : ℚ × ℚ) (cs : List (ℚ × ℚ)) :
    ∃ g, LA.fromAngles (c :: cs) = .ok g ∧ g.WF := by
  have key : ∀ (cs : List (ℚ × ℚ)) (acc : LA ℚ), acc.NZ →
      ∃ g, LA.fromAnglesAux acc cs = .ok g ∧ g.NZ := by
    intro cs
    induction cs with
    | nil => intro acc hacc; exact ⟨acc, rfl, hacc⟩
    | cons c cs ih =>
      intro acc hacc
      obtain ⟨a, ha, aNZ⟩ := LA.mulR_NZ hacc (NZ_w (R := ℚ))
      obtain ⟨b, hb, bNZ⟩ := LA.mul_NZ aNZ (NZ_rotation c)
      obtain ⟨g, hg, gNZ⟩ := ih b bNZ
      refine ⟨g, ?_, gNZ⟩
      simp only [LA.fromAnglesAux, ha, hb, bind, Except.bind]
      exact hg
  obtain ⟨g, hg, gNZ⟩ := key cs _ (NZ_rotation c)
  exact ⟨g, hg, gNZ.wf⟩

/-- the exactly computed rational element, evaluated at any point of the circle, is the ordered
    product `R(c₀) · (W(θ) R(c₁)) ⋯ (W(θ) R(c_n))` of the X-rotations with the given (cos, sin)
    values and the diagonal signal matrices -/
theorem fromAngles_eval (c : ℚ × ℚ) (cs : List (ℚ × ℚ)) (g : LA ℚ)
    (h : LA.fromAngles (c :: cs) = .ok g) (θ : ℝ) :
    evMat g θ = cs.foldl (fun U e => U * (wC θ * rotC ((e.1 : ℝ) : ℂ) ((e.2 : ℝ) : ℂ)))
                  (rotC ((c.1 : ℝ) : ℂ) ((c.2 : ℝ) : ℂ)) := by
  rw [← evMat_rotation c θ]
  exact (fromAnglesAux_eval cs (LA.rotation c) g (NZ_rotation c) h θ).1

/-- the result of `fromAngles` is well-formed (both components non-zero-flagged, equal parity) -/
theorem fromAngles_NZ (c : ℚ × ℚ) (cs : List (ℚ × ℚ)) (g : LA ℚ)
    (h : LA.fromAngles (c :: cs) = .ok g) : g.NZ :=
  (fromAnglesAux_eval cs (LA.rotation c) g (NZ_rotation c) h 0).2

/-- component corollaries: the (0,0) and (0,1) entries of the product are the values of the two
    computed polynomials -/
theorem fromAngles_eval_I (c : ℚ × ℚ) (cs : List (ℚ × ℚ)) (g : LA ℚ)
    (h : LA.fromAngles (c :: cs) = .ok g) (θ : ℝ) :
    evQ g.I θ = (cs.foldl (fun U e => U * (wC θ * rotC ((e.1 : ℝ) : ℂ) ((e.2 : ℝ) : ℂ)))
                  (rotC ((c.1 : ℝ) : ℂ) ((c.2 : ℝ) : ℂ))) 0 0 := by
  rw [← fromAngles_eval c cs g h θ, evMat_00]

theorem fromAngles_eval_X (c : ℚ × ℚ) (cs : List (ℚ × ℚ)) (g : LA ℚ)
    (h : LA.fromAngles (c :: cs) = .ok g) (θ : ℝ) :
    I * evQ g.X θ = (cs.foldl (fun U e => U * (wC θ * rotC ((e.1 : ℝ) : ℂ) ((e.2 : ℝ) : ℂ)))
                  (rotC ((c.1 : ℝ) : ℂ) ((c.2 : ℝ) : ℂ))) 0 1 := by
  rw [← fromAngles_eval c cs g h θ, evMat_01]

end QSP

/-
  Property C12 (Jacobian clause) — sup-norm stability of the assembly `JacImpl.jacAssemble` in the
  sample matrix, and the end-to-end bound: the assembly applied to samples computed by
  `jacImplPt` at rational inputs within `δ` of the exact ones is within `2·jacImplErr d δ` of the
  Chebyshev coefficients `chebCoefs` / `dCoefs`.
-/
import QSP.Proofs.JacAsm
import QSP.Proofs.JacImplErr

open Finset
namespace QSP
namespace JacImpl

theorem abs_sgnR (par : ℕ) : |sgnR par| = 1 := by
  unfold sgnR; split_ifs <;> norm_num

theorem extRow_stab (par d : ℕ) (M M' : List (List ℝ)) (c : ℕ) (ε : ℝ)
    (hM : ∀ n ≤ d, |(M.getD n []).getD c 0 - (M'.getD n []).getD c 0| ≤ ε) (m : ℕ)
    (hm : m < 4 * d) :
    |(extRow par d M m).getD c 0 - (extRow par d M' m).getD c 0| ≤ ε := by
  have half : ∀ j ≤ 2 * d,
      |(extHalf par d M j).getD c 0 - (extHalf par d M' j).getD c 0| ≤ ε := by
    intro j hj
    unfold extHalf
    simp only
    by_cases h1 : j ≤ d
    · rw [if_pos h1, if_pos h1]; exact hM j h1
    · rw [if_neg h1, if_neg h1]
      change |(List.map (sgnR par * ·) (M.getD (2 * d - j) [])).getD c 0
        - (List.map (sgnR par * ·) (M'.getD (2 * d - j) [])).getD c 0| ≤ ε
      rw [getD_map_mul, getD_map_mul, ← mul_sub, abs_mul, abs_sgnR, one_mul]
      exact hM _ (by omega)
  unfold extRow
  by_cases h1 : m ≤ 2 * d
  · rw [if_pos h1, if_pos h1]; exact half m h1
  · rw [if_neg h1, if_neg h1]; exact half _ (by omega)

/-- one assembled entry moves by at most `2ε` when the samples move by at most `ε` -/
theorem asmEntry_stab (par d : ℕ) (hd : 0 < d) (cosTab : List ℝ)
    (hcos : ∀ j < 4 * d, |cosTab.getD j 0| ≤ 1) (M M' : List (List ℝ)) (c : ℕ) (ε : ℝ)
    (hM : ∀ n ≤ d, |(M.getD n []).getD c 0 - (M'.getD n []).getD c 0| ≤ ε) (r : ℕ) :
    |asmEntry par d cosTab ((4 * d : ℕ) : ℝ) M r c - asmEntry par d cosTab ((4 * d : ℕ) : ℝ) M' r c|
      ≤ 2 * ε := by
  have hN : (0 : ℝ) < ((4 * d : ℕ) : ℝ) := by
    have : 0 < 4 * d := by omega
    exact_mod_cast this
  have hd' : |dftRe cosTab (4 * d) (extRow par d M) r c - dftRe cosTab (4 * d) (extRow par d M') r c|
      ≤ ((4 * d : ℕ) : ℝ) * ε := by
    unfold dftRe
    rw [list_sum_range_map, list_sum_range_map, ← Finset.sum_sub_distrib]
    refine (Finset.abs_sum_le_sum_abs _ _).trans ?_
    have : ∀ m ∈ range (4 * d),
        |cosTab.getD (m * r % (4 * d)) 0 * (extRow par d M m).getD c 0
          - cosTab.getD (m * r % (4 * d)) 0 * (extRow par d M' m).getD c 0| ≤ ε := by
      intro m hm
      rw [← mul_sub, abs_mul]
      have h1 := hcos (m * r % (4 * d)) (Nat.mod_lt _ (by omega))
      have h2 := extRow_stab par d M M' c ε hM m (Finset.mem_range.mp hm)
      calc _ ≤ 1 * ε := mul_le_mul h1 h2 (abs_nonneg _) zero_le_one
        _ = ε := one_mul _
    refine (Finset.sum_le_sum this).trans ?_
    simp
  unfold asmEntry
  simp only
  set x := dftRe cosTab (4 * d) (extRow par d M) r c
  set y := dftRe cosTab (4 * d) (extRow par d M') r c
  split_ifs
  · rw [← sub_div, ← mul_sub, abs_div, abs_mul, abs_of_pos hN, div_le_iff₀ hN]
    have : |(two : ℝ)| = 2 := by unfold two; norm_num
    rw [this]; nlinarith [abs_nonneg (x - y)]
  · rw [← sub_div, abs_div, abs_of_pos hN, div_le_iff₀ hN]
    have : 0 ≤ ε := (abs_nonneg _).trans (hM 0 (Nat.zero_le _))
    nlinarith [abs_nonneg (x - y)]

/-- the output of the assembly, entry by entry (`par ≤ 1`) -/
theorem jacAssemble_entries (par d : ℕ) (hpar : par ≤ 1) (cosTab : List ℝ) (dd2 : ℝ)
    (M : List (List ℝ)) :
    jacAssemble par d cosTab dd2 M
      = ((List.range d).map fun i => asmEntry par d cosTab dd2 M (par + 2 * i) d,
         (List.range d).map fun i => (List.range d).map fun c =>
           asmEntry par d cosTab dd2 M (par + 2 * i) c) := by
  unfold jacAssemble
  have hsel : (((List.range d).map fun i => par + 2 * i).filter (· < 2 * d))
      = (List.range d).map fun i => par + 2 * i := by
    rw [List.filter_eq_self]
    intro r hr
    obtain ⟨i, hi, rfl⟩ := List.mem_map.mp hr
    have := List.mem_range.mp hi
    simp only [decide_eq_true_eq]
    omega
  simp only [hsel, List.map_map]
  rfl

/-- the exact sample matrix, entry by entry: column `c < d` samples `dRespIm`, column `d` `respIm` -/
theorem sampleMat_getD (par : ℕ) (hpar : par ≤ 1) (red : List ℝ) (hne : red ≠ []) (c n : ℕ)
    (hc : c ≤ red.length) (hn : n ≤ red.length) :
    ((sampleMat par red).getD n []).getD c 0
      = cosSum par red.length
          (fun k => if c < red.length then (dCoefs par red c).getD k 0
            else (chebCoefs par red).getD k 0) (asmNode red.length n) := by
  have hrow : (sampleMat par red).getD n [] = jacImplPt par (pairs2Of red)
      (Real.cos (asmNode red.length n)) (Real.sin (asmNode red.length n)) := by
    unfold sampleMat
    rw [List.getD_eq_getElem _ _ (by simp; omega), List.getElem_map, List.getElem_range]
  rw [hrow]
  by_cases hlt : c < red.length
  · rw [jacImplPt_dRespIm par hpar red _ c hlt, dRespIm_eq_cosGenR par hpar red hne,
      cosGenR_eq_cosSum]
    simp only [if_pos hlt]
  · have hceq : c = red.length := by omega
    subst hceq
    rw [jacImplPt_respIm par hpar red hne, respIm_eq_cosGenR par hpar red hne, cosGenR_eq_cosSum]
    simp only [if_neg hlt]

/-- samples within `E` of the exact ones: assembled entries within `2E` of the coefficients -/
theorem asmEntry_near (par : ℕ) (hpar : par ≤ 1) (red : List ℝ) (hne : red ≠ []) (cosTab : List ℝ)
    (hcos : ∀ j < 4 * red.length,
      cosTab.getD j 0 = Real.cos (2 * Real.pi * (j : ℝ) / ((4 * red.length : ℕ) : ℝ)))
    (M : List (List ℝ)) (E : ℝ)
    (hM : ∀ n ≤ red.length, ∀ c ≤ red.length,
      |(M.getD n []).getD c 0 - ((sampleMat par red).getD n []).getD c 0| ≤ E)
    (i : ℕ) (hi : i < red.length) :
    |asmEntry par red.length cosTab ((4 * red.length : ℕ) : ℝ) M (par + 2 * i) red.length
        - (chebCoefs par red).getD i 0| ≤ 2 * E ∧
    ∀ c < red.length,
      |asmEntry par red.length cosTab ((4 * red.length : ℕ) : ℝ) M (par + 2 * i) c
        - (dCoefs par red c).getD i 0| ≤ 2 * E := by
  have hd : 0 < red.length := List.length_pos_iff.mpr hne
  have hcos1 : ∀ j < 4 * red.length, |cosTab.getD j 0| ≤ 1 := by
    intro j hj
    rw [hcos j hj]; exact Real.abs_cos_le_one _
  have hex : ∀ c ≤ red.length,
      asmEntry par red.length cosTab ((4 * red.length : ℕ) : ℝ) (sampleMat par red) (par + 2 * i) c
        = if c < red.length then (dCoefs par red c).getD i 0 else (chebCoefs par red).getD i 0 :=
    fun c hc => asmEntry_eq par red.length hpar hd cosTab hcos _ (sampleMat par red) c
      (fun n hn => sampleMat_getD par hpar red hne c n hc hn) i hi
  refine ⟨?_, fun c hc => ?_⟩
  · have h := asmEntry_stab par red.length hd cosTab hcos1 M (sampleMat par red) red.length E
      (fun n hn => hM n hn _ le_rfl) (par + 2 * i)
    rwa [hex _ le_rfl, if_neg (lt_irrefl _)] at h
  · have h := asmEntry_stab par red.length hd cosTab hcos1 M (sampleMat par red) c E
      (fun n hn => hM n hn c hc.le) (par + 2 * i)
    rwa [hex c hc.le, if_pos hc] at h

/-- the sample matrix computed by the model at rational inputs, cast to `ℝ`:
    row `n` is `jacImplPt par Pq (nodes n).1 (nodes n).2` -/
noncomputable def ratSampleMat (par : ℕ) (Pq : List (ℚ × ℚ)) (nodes : ℕ → ℚ × ℚ) (d : ℕ) :
    List (List ℝ) :=
  (List.range (d + 1)).map fun n =>
    (jacImplPt par Pq (nodes n).1 (nodes n).2).map (fun q : ℚ => (q : ℝ))

/-- END TO END: rational phase pairs within `δ` of `(cos 2φ_k, sin 2φ_k)`, rational node pairs
    within `δ` of `(cos θ_n, sin θ_n)`; the assembly (exact DFT cosines) of the rows the model
    computes is within `2·jacImplErr d δ` of the Chebyshev coefficients and of the coefficients
    of every partial derivative -/
theorem gen_jacobian_rat_err (par : ℕ) (hpar : par ≤ 1) (red : List ℝ) (hne : red ≠ [])
    (cosTab : List ℝ)
    (hcos : ∀ j < 4 * red.length,
      cosTab.getD j 0 = Real.cos (2 * Real.pi * (j : ℝ) / ((4 * red.length : ℕ) : ℝ)))
    (Pq : List (ℚ × ℚ)) (nodes : ℕ → ℚ × ℚ) (δ : ℚ) (hδ : 0 ≤ δ)
    (hlen : Pq.length = red.length)
    (hP : ∀ q ∈ (Pq.map castP2).zip (pairs2Of red),
      |q.1.1 - q.2.1| ≤ (δ : ℝ) ∧ |q.1.2 - q.2.2| ≤ (δ : ℝ))
    (hnodes : ∀ n ≤ red.length,
      |((nodes n).1 : ℝ) - Real.cos (asmNode red.length n)| ≤ (δ : ℝ) ∧
      |((nodes n).2 : ℝ) - Real.sin (asmNode red.length n)| ≤ (δ : ℝ))
    (i : ℕ) (hi : i < red.length) :
    |asmEntry par red.length cosTab ((4 * red.length : ℕ) : ℝ)
          (ratSampleMat par Pq nodes red.length) (par + 2 * i) red.length
        - (chebCoefs par red).getD i 0| ≤ 2 * ((jacImplErr red.length δ : ℚ) : ℝ) ∧
    ∀ c < red.length,
      |asmEntry par red.length cosTab ((4 * red.length : ℕ) : ℝ)
          (ratSampleMat par Pq nodes red.length) (par + 2 * i) c
        - (dCoefs par red c).getD i 0| ≤ 2 * ((jacImplErr red.length δ : ℚ) : ℝ) := by
  refine asmEntry_near par hpar red hne cosTab hcos _ _ ?_ i hi
  intro n hn c hc
  have hrow : (sampleMat par red).getD n [] = jacImplPt par (pairs2Of red)
      (Real.cos (asmNode red.length n)) (Real.sin (asmNode red.length n)) := by
    unfold sampleMat
    rw [List.getD_eq_getElem _ _ (by simp; omega), List.getElem_map, List.getElem_range]
  have hrow2 : (ratSampleMat par Pq nodes red.length).getD n []
      = (jacImplPt par Pq (nodes n).1 (nodes n).2).map (fun q : ℚ => (q : ℝ)) := by
    unfold ratSampleMat
    rw [List.getD_eq_getElem _ _ (by simp; omega), List.getElem_map, List.getElem_range]
  have hcast : ((jacImplPt par Pq (nodes n).1 (nodes n).2).map (fun q : ℚ => (q : ℝ))).getD c 0
      = (((jacImplPt par Pq (nodes n).1 (nodes n).2).getD c 0 : ℚ) : ℝ) := by
    have := List.getD_map (jacImplPt par Pq (nodes n).1 (nodes n).2) (0 : ℚ)
      (fun q : ℚ => (q : ℝ)) (n := c)
    simpa using this
  rw [hrow, hrow2, hcast]
  exact jacImplPt_rat_err par red _ Pq _ _ δ hδ (hnodes n hn).1 (hnodes n hn).2 hlen hP c hc

end JacImpl
end QSP

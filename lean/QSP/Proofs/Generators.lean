/-
  Proofs for properties C14 / C17: the option / scale / parity bookkeeping of the polynomial
  generators (`QSP/Model/Generators.lean`).  Every statement is for ALL values of the numerical
  oracles (fit, optimiser value, Bessel values, binomial sums), which are parameters of the model.
-/
import QSP.Proofs.Cheb
import QSP.Model.Generators
import Mathlib.Algebra.Polynomial.Coeff
import Mathlib.Tactic.Ring
namespace QSP

deriving instance DecidableEq for GenOut

/-- all coefficients of the parity opposite to `par` are exactly zero -/
def OppZero (par : ℕ) (l : List ℚ) : Prop := ∀ i, i % 2 ≠ par % 2 → l.getD i 0 = 0

theorem oppZero_iff_coeff (par : ℕ) (l : List ℚ) :
    OppZero par l ↔ ∀ i, i % 2 ≠ par % 2 → (toPoly l).coeff i = 0 := by
  simp [OppZero, toPoly_coeff]

theorem oppZero_nil (par : ℕ) : OppZero par [] := by
  intro i _; simp

theorem oppZero_congr {p q : ℕ} (h : p % 2 = q % 2) {l : List ℚ} (hl : OppZero p l) :
    OppZero q l := by
  intro i hi; exact hl i (by omega)

/-- only the indices inside the list matter, so the predicate is decidable -/
theorem oppZero_iff_bounded (par : ℕ) (l : List ℚ) :
    OppZero par l ↔ ∀ i, i < l.length → i % 2 ≠ par % 2 → l.getD i 0 = 0 := by
  constructor
  · intro h i _ hi; exact h i hi
  · intro h i hi
    by_cases hl : i < l.length
    · exact h i hl hi
    · simp [List.getD_eq_getElem?_getD, List.getElem?_eq_none (Nat.le_of_not_lt hl)]

instance (par : ℕ) (l : List ℚ) : Decidable (OppZero par l) :=
  decidable_of_iff _ (oppZero_iff_bounded par l).symm

/-! ### the parity mask -/

theorem parityPart_length (q : ℕ) (l : List ℚ) (i : ℕ) :
    (parityPart q l i).length = l.length := by
  induction l generalizing i with
  | nil => rfl
  | cons c cs ih => simp [parityPart, ih]

theorem parityPart_getD_eq (q : ℕ) (l : List ℚ) (i j : ℕ) :
    (parityPart q l i).getD j 0 = if (i + j) % 2 = q then l.getD j 0 else 0 := by
  induction l generalizing i j with
  | nil => simp [parityPart]
  | cons c cs ih =>
    cases j with
    | zero => simp [parityPart]
    | succ j =>
      simp only [parityPart, List.getD_cons_succ, ih]
      rw [show i + 1 + j = i + (j + 1) by omega]

theorem parityPart_oppZero (par : ℕ) (l : List ℚ) : OppZero par (parityPart (par % 2) l 0) := by
  intro i hi
  rw [parityPart_getD_eq, Nat.zero_add, if_neg hi]

theorem parityPart_keeps (par : ℕ) (l : List ℚ) (i : ℕ) (h : i % 2 = par % 2) :
    (parityPart (par % 2) l 0).getD i 0 = l.getD i 0 := by
  rw [parityPart_getD_eq, Nat.zero_add, if_pos h]

/-- mask and scaling commute -/
theorem parityPart_map_mul (q : ℕ) (s : ℚ) (l : List ℚ) (i : ℕ) :
    parityPart q (l.map (s * ·)) i = (parityPart q l i).map (s * ·) := by
  induction l generalizing i with
  | nil => rfl
  | cons c cs ih =>
    simp only [List.map_cons, parityPart, ih]
    split <;> simp

/-! ### operations that preserve `OppZero` -/

theorem oppZero_map_mul (par : ℕ) (s : ℚ) (l : List ℚ) (h : OppZero par l) :
    OppZero par (l.map (s * ·)) := by
  rw [oppZero_iff_coeff] at h ⊢
  intro i hi
  rw [toPoly_map_mul, Polynomial.coeff_C_mul, h i hi, mul_zero]

theorem oppZero_addL (par : ℕ) (a b : List ℚ) (ha : OppZero par a) (hb : OppZero par b) :
    OppZero par (addL a b) := by
  rw [oppZero_iff_coeff] at ha hb ⊢
  intro i hi
  rw [toPoly_addL, Polynomial.coeff_add, ha i hi, hb i hi, add_zero]

section
variable {K : Type} [CommRing K]

/-- `T_n` has only monomials of the parity of `n` -/
theorem T_coeff_opp (n j : ℕ) (h : j % 2 ≠ n % 2) :
    (Polynomial.Chebyshev.T K n).coeff j = 0 := by
  induction n using Nat.twoStepInduction generalizing j with
  | zero =>
    have hj : j ≠ 0 := by rintro rfl; simp at h
    simp only [Nat.cast_zero, Polynomial.Chebyshev.T_zero, Polynomial.coeff_one]
    rw [if_neg hj]
  | one =>
    have hj : j ≠ 1 := by rintro rfl; simp at h
    simp only [Nat.cast_one, Polynomial.Chebyshev.T_one, Polynomial.coeff_X]
    rw [if_neg (Ne.symm hj)]
  | more n ih0 ih1 =>
    have e1 : (((n + 2 : ℕ) : ℤ)) = (n : ℤ) + 2 := by push_cast; ring
    have e2 : (n : ℤ) + 1 = ((n + 1 : ℕ) : ℤ) := by push_cast; ring
    rw [e1, Polynomial.Chebyshev.T_add_two, e2, Polynomial.coeff_sub, ih0 j (by omega), sub_zero]
    have e3 : (2 : Polynomial K) * Polynomial.X * Polynomial.Chebyshev.T K ((n + 1 : ℕ) : ℤ) =
        Polynomial.C 2 * (Polynomial.X * Polynomial.Chebyshev.T K ((n + 1 : ℕ) : ℤ)) := by
      rw [map_ofNat]; ring
    rw [e3, Polynomial.coeff_C_mul]
    cases j with
    | zero => simp
    | succ j => rw [Polynomial.coeff_X_mul, ih1 j (by omega), mul_zero]

theorem toPoly_convL (a b : List K) : toPoly (convL a b) = toPoly a * toPoly b := by
  induction a with
  | nil => simp [convL]
  | cons x xs ih =>
    simp only [convL, toPoly_addL, toPoly_map_mul, toPoly_cons, ih, map_zero, zero_add]
    ring

theorem chebSumFrom_map_mul (kindU : Bool) (s : K) (cs : List K) (k : ℕ) :
    chebSumFrom kindU (cs.map (s * ·)) k = Polynomial.C s * chebSumFrom kindU cs k := by
  induction cs generalizing k with
  | nil => simp
  | cons c cs ih =>
    simp only [List.map_cons, chebSumFrom_cons, ih, map_mul]
    ring

/-- `cheb2poly` is linear: scaling the Chebyshev coefficients scales the monomial coefficients -/
theorem cheb2poly_map_mul (kindU : Bool) (s : K) (c : List K) :
    cheb2poly kindU (c.map (s * ·)) = (cheb2poly kindU c).map (s * ·) := by
  apply toPoly_inj
  · simp [cheb2poly_length]
  · rw [cheb2poly_spec, toPoly_map_mul, cheb2poly_spec]
    exact chebSumFrom_map_mul kindU s c 0

end

/-- a sum of Chebyshev polynomials of one parity has exactly-zero monomial coefficients of the
    other parity -/
theorem cheb2poly_oppZero (par : ℕ) (c : List ℚ) (h : OppZero par c) :
    OppZero par (cheb2poly false c) := by
  rw [oppZero_iff_coeff]
  intro j hj
  rw [cheb2poly_spec, chebSum_eq_sum, Polynomial.finsetSum_coeff]
  apply Finset.sum_eq_zero
  intro i _
  rw [Polynomial.coeff_C_mul]
  by_cases hi : i % 2 = par % 2
  · have : (chebP ℚ false i).coeff j = 0 := by
      simp only [chebP, Bool.false_eq_true, if_false]
      exact T_coeff_opp i j (by omega)
    rw [this, mul_zero]
  · rw [h i hi, zero_mul]

/-- the monomial coefficient list of `T_n` has the parity of `n` -/
theorem chebBasis_oppZero (n : ℕ) : OppZero n (chebBasis false n : List ℚ) := by
  rw [oppZero_iff_coeff]
  intro j hj
  rw [chebBasis_T]
  exact T_coeff_opp n j hj

/-- parities add under convolution -/
theorem convL_oppZero_add (p q : ℕ) (a b : List ℚ) (ha : OppZero p a) (hb : OppZero q b) :
    OppZero (p + q) (convL a b) := by
  rw [oppZero_iff_coeff] at ha hb ⊢
  intro n hn
  rw [toPoly_convL, Polynomial.coeff_mul]
  apply Finset.sum_eq_zero
  intro x hx
  have hx' : x.1 + x.2 = n := Finset.mem_antidiagonal.mp hx
  by_cases h1 : x.1 % 2 = p % 2
  · rw [hb x.2 (by omega), mul_zero]
  · rw [ha x.1 h1, zero_mul]

/-- odd × even = odd -/
theorem convL_oppZero (a b : List ℚ) (ha : OppZero 1 a) (hb : OppZero 0 b) :
    OppZero 1 (convL a b) := convL_oppZero_add 1 0 a b ha hb

/-! ### `spread` -/

theorem spread_odd (par : ℕ) (h : par % 2 = 1) (v : ℚ) (vs : List ℚ) :
    spread par (v :: vs) = 0 :: v :: spread par vs := by
  cases vs with
  | nil => simp [spread, h]
  | cons w ws => simp [spread, h]

theorem spread_even_one (par : ℕ) (h : par % 2 = 0) (v : ℚ) : spread par [v] = [v] := by
  simp [spread, h]

theorem spread_even_cons (par : ℕ) (h : par % 2 = 0) (v w : ℚ) (ws : List ℚ) :
    spread par (v :: w :: ws) = v :: 0 :: spread par (w :: ws) := by
  rw [spread]
  · simp [h]
  · simp

theorem spread_oppZero (par : ℕ) (vals : List ℚ) : OppZero par (spread par vals) := by
  induction vals with
  | nil => simpa [spread] using oppZero_nil par
  | cons v vs ih =>
    rcases Nat.mod_two_eq_zero_or_one par with h | h
    · cases vs with
      | nil =>
        rw [spread_even_one par h]
        intro i hi
        cases i with
        | zero => omega
        | succ i => simp
      | cons w ws =>
        rw [spread_even_cons par h]
        intro i hi
        match i with
        | 0 => omega
        | 1 => simp
        | i + 2 =>
          simp only [List.getD_cons_succ]
          exact ih i (by omega)
    · rw [spread_odd par h]
      intro i hi
      match i with
      | 0 => simp
      | 1 => omega
      | i + 2 =>
        simp only [List.getD_cons_succ]
        exact ih i (by omega)

/-- where the values land: `vals[k]` at index `2k + par % 2` -/
theorem spread_getD (par : ℕ) (vals : List ℚ) (k : ℕ) :
    (spread par vals).getD (2 * k + par % 2) 0 = vals.getD k 0 := by
  induction vals generalizing k with
  | nil => simp [spread]
  | cons v vs ih =>
    rcases Nat.mod_two_eq_zero_or_one par with h | h
    · rw [h] at ih ⊢
      cases vs with
      | nil =>
        rw [spread_even_one par h]
        cases k with
        | zero => simp
        | succ k => simp
      | cons w ws =>
        rw [spread_even_cons par h]
        cases k with
        | zero => simp
        | succ k =>
          rw [show 2 * (k + 1) + 0 = (2 * k + 0) + 1 + 1 by omega]
          simp only [List.getD_cons_succ]
          exact ih k
    · rw [h] at ih ⊢
      rw [spread_odd par h]
      cases k with
      | zero => simp
      | succ k =>
        rw [show 2 * (k + 1) + 1 = (2 * k + 1) + 1 + 1 by omega]
        simp only [List.getD_cons_succ]
        exact ih k

/-! ### the generators -/

@[simp] theorem coefList_wrapOut (o : GenOpts) (c : List ℚ) (s : ℚ) :
    (wrapOut o c s).coefList = c := by
  unfold wrapOut; split <;> rfl

theorem wrapOut_withScale_iff (o : GenOpts) (c : List ℚ) (s : ℚ) :
    (∃ c' s', wrapOut o c s = .withScale c' s') ↔ (o.ensureBounded && o.returnScale) = true := by
  unfold wrapOut
  constructor
  · rintro ⟨c', s', h⟩
    split at h
    · assumption
    · cases h
  · intro h
    rw [if_pos h]
    exact ⟨c, s, rfl⟩

theorem wrapOut_eq_withScale {o : GenOpts} {c c' : List ℚ} {s s' : ℚ}
    (h : wrapOut o c s = .withScale c' s') :
    (o.ensureBounded && o.returnScale) = true ∧ c' = c ∧ s' = s := by
  unfold wrapOut at h
  split at h
  · rename_i hc
    injection h with h1 h2
    exact ⟨hc, h1.symm, h2.symm⟩
  · cases h

/-- the chebyshev coefficient list of the cosine generator -/
def cosCheb (J : List ℚ) : List ℚ :=
  match J with
  | [] => []
  | j0 :: rest => spread 0 (j0 :: altSigns (rest.map (2 * ·)) true)

theorem cosGenerate_eq (o : GenOpts) (J : List ℚ) :
    cosGenerate o J = chebFinish o (cosCheb J) (1 / 2) := by
  cases J <;> rfl

theorem cosCheb_oppZero (J : List ℚ) : OppZero 0 (cosCheb J) := by
  cases J with
  | nil => exact oppZero_nil 0
  | cons j0 rest => exact spread_oppZero 0 _

theorem coefList_chebFinish (o : GenOpts) (cheb : List ℚ) (scale : ℚ) :
    (chebFinish o cheb scale).coefList =
      if o.chebBasis then (if o.ensureBounded then cheb.map (scale * ·) else cheb)
      else cheb2poly false (if o.ensureBounded then cheb.map (scale * ·) else cheb) := by
  simp [chebFinish]

/-- both bases, bounded or not: the output keeps the parity of the Chebyshev coefficients -/
theorem chebFinish_oppZero (par : ℕ) (o : GenOpts) (cheb : List ℚ) (scale : ℚ)
    (h : OppZero par cheb) : OppZero par (chebFinish o cheb scale).coefList := by
  rw [coefList_chebFinish]
  have hg : OppZero par (if o.ensureBounded then cheb.map (scale * ·) else cheb) := by
    split
    · exact oppZero_map_mul par scale cheb h
    · exact h
  split
  · exact hg
  · exact cheb2poly_oppZero par _ hg

theorem chebFinish_length (o : GenOpts) (cheb : List ℚ) (scale : ℚ) :
    (chebFinish o cheb scale).coefList.length = cheb.length := by
  rw [coefList_chebFinish]
  split <;> split <;> simp [cheb2poly_length]

/-! #### C14 -/

theorem erfGenerate_ok (par degree : ℕ) (o : GenOpts) (maxScale : ℚ) (fit : List ℚ) (pmAbs : ℚ)
    (h : degree % 2 = par % 2) :
    ∃ out, erfGenerate par degree o maxScale fit pmAbs = .ok out ∧ OppZero par out.coefList ∧
      out.coefList.length = fit.length := by
  refine ⟨_, by rw [erfGenerate, if_neg (not_not.mpr h)], ?_, ?_⟩
  · rw [coefList_wrapOut]
    exact parityPart_oppZero par _
  · rw [coefList_wrapOut, parityPart_length]
    unfold taylorSeries
    split <;> simp

theorem erfGenerate_refuses (par degree : ℕ) (o : GenOpts) (maxScale : ℚ) (fit : List ℚ)
    (pmAbs : ℚ) (h : degree % 2 ≠ par % 2) :
    erfGenerate par degree o maxScale fit pmAbs = .error .degree := by
  rw [erfGenerate, if_pos h]

/-- the guard is the only way to fail -/
theorem erfGenerate_error_iff (par degree : ℕ) (o : GenOpts) (maxScale : ℚ) (fit : List ℚ)
    (pmAbs : ℚ) (e : Err) :
    erfGenerate par degree o maxScale fit pmAbs = .error e ↔
      (degree % 2 ≠ par % 2 ∧ e = .degree) := by
  by_cases h : degree % 2 = par % 2
  · obtain ⟨out, h1, _⟩ := erfGenerate_ok par degree o maxScale fit pmAbs h
    rw [h1]
    constructor
    · intro h2; cases h2
    · rintro ⟨h2, _⟩; exact absurd h h2
  · rw [erfGenerate_refuses par degree o maxScale fit pmAbs h]
    constructor
    · intro h2; injection h2 with h2; exact ⟨h, h2.symm⟩
    · rintro ⟨_, rfl⟩; rfl

theorem cosGenerate_oppZero (o : GenOpts) (J : List ℚ) : OppZero 0 (cosGenerate o J).coefList := by
  rw [cosGenerate_eq]
  exact chebFinish_oppZero 0 o _ _ (cosCheb_oppZero J)

theorem sinGenerate_oppZero (o : GenOpts) (J : List ℚ) : OppZero 1 (sinGenerate o J).coefList :=
  chebFinish_oppZero 1 o _ _ (spread_oppZero 1 _)

theorem invGenerate_oppZero (o : GenOpts) (G : List ℚ) (pmAbs : ℚ) :
    OppZero 1 (invGenerate o G pmAbs).coefList :=
  chebFinish_oppZero 1 o _ _ (spread_oppZero 1 _)

theorem coefList_invRectGenerate (rs : Bool) (cInv cRect : List ℚ) (s1 s2 : ℚ) :
    (invRectGenerate rs cInv cRect s1 s2).coefList =
      if cInv.isEmpty || cRect.isEmpty then [] else convL cInv cRect := by
  unfold invRectGenerate
  cases rs <;> rfl

theorem invRectGenerate_oppZero (rs : Bool) (cInv cRect : List ℚ) (s1 s2 : ℚ)
    (ha : OppZero 1 cInv) (hb : OppZero 0 cRect) :
    OppZero 1 (invRectGenerate rs cInv cRect s1 s2).coefList := by
  rw [coefList_invRectGenerate]
  split
  · exact oppZero_nil 1
  · exact convL_oppZero cInv cRect ha hb

/-! #### C17 -/

theorem erfGenerate_returnScale_indep (par degree : ℕ) (o1 o2 : GenOpts) (maxScale : ℚ)
    (fit : List ℚ) (pmAbs : ℚ) (h : o1.ensureBounded = o2.ensureBounded) :
    (erfGenerate par degree o1 maxScale fit pmAbs).map GenOut.coefList =
      (erfGenerate par degree o2 maxScale fit pmAbs).map GenOut.coefList := by
  unfold erfGenerate
  split
  · rfl
  · simp [Except.map, h]

theorem chebFinish_returnScale_indep (o1 o2 : GenOpts) (cheb : List ℚ) (scale : ℚ)
    (h1 : o1.ensureBounded = o2.ensureBounded) (h2 : o1.chebBasis = o2.chebBasis) :
    (chebFinish o1 cheb scale).coefList = (chebFinish o2 cheb scale).coefList := by
  rw [coefList_chebFinish, coefList_chebFinish, h1, h2]

theorem cosGenerate_returnScale_indep (o1 o2 : GenOpts) (J : List ℚ)
    (h1 : o1.ensureBounded = o2.ensureBounded) (h2 : o1.chebBasis = o2.chebBasis) :
    (cosGenerate o1 J).coefList = (cosGenerate o2 J).coefList := by
  rw [cosGenerate_eq, cosGenerate_eq]
  exact chebFinish_returnScale_indep o1 o2 _ _ h1 h2

theorem sinGenerate_returnScale_indep (o1 o2 : GenOpts) (J : List ℚ)
    (h1 : o1.ensureBounded = o2.ensureBounded) (h2 : o1.chebBasis = o2.chebBasis) :
    (sinGenerate o1 J).coefList = (sinGenerate o2 J).coefList :=
  chebFinish_returnScale_indep o1 o2 _ _ h1 h2

theorem invGenerate_returnScale_indep (o1 o2 : GenOpts) (G : List ℚ) (pmAbs : ℚ)
    (h1 : o1.ensureBounded = o2.ensureBounded) (h2 : o1.chebBasis = o2.chebBasis) :
    (invGenerate o1 G pmAbs).coefList = (invGenerate o2 G pmAbs).coefList :=
  chebFinish_returnScale_indep o1 o2 _ _ h1 h2

theorem invRectGenerate_returnScale_indep (rs1 rs2 : Bool) (cInv cRect : List ℚ) (s1 s2 : ℚ) :
    (invRectGenerate rs1 cInv cRect s1 s2).coefList =
      (invRectGenerate rs2 cInv cRect s1 s2).coefList := by
  rw [coefList_invRectGenerate, coefList_invRectGenerate]

/-- the returned scale is the factor that was applied (erf family) -/
theorem erfGenerate_scale (par degree : ℕ) (o : GenOpts) (maxScale : ℚ) (fit : List ℚ)
    (pmAbs : ℚ) (c : List ℚ) (s : ℚ) (out' : GenOut)
    (h : erfGenerate par degree o maxScale fit pmAbs = .ok (.withScale c s))
    (h' : erfGenerate par degree { o with ensureBounded := false } maxScale fit pmAbs = .ok out') :
    c = out'.coefList.map (s * ·) ∧ s = (1 / pmAbs) * maxScale := by
  unfold erfGenerate at h h'
  split at h
  · cases h
  · rename_i hd
    rw [if_neg hd] at h'
    injection h with h
    injection h' with h'
    obtain ⟨hbr, hc, hs⟩ := wrapOut_eq_withScale h
    have hb : o.ensureBounded = true := by
      cases hb' : o.ensureBounded
      · rw [hb'] at hbr; simp at hbr
      · rfl
    subst h'
    rw [coefList_wrapOut]
    simp only [taylorSeries, hb, if_true] at hc hs
    simp only [taylorSeries, Bool.false_eq_true, if_false]
    subst hs
    rw [hc, parityPart_map_mul]
    exact ⟨rfl, rfl⟩

/-- the returned scale is the factor that was applied (cosine, sine, 1/x; both bases) -/
theorem chebFinish_scale (o : GenOpts) (cheb : List ℚ) (scale : ℚ) (c : List ℚ) (s : ℚ)
    (h : chebFinish o cheb scale = .withScale c s) :
    c = (chebFinish { o with ensureBounded := false } cheb scale).coefList.map (s * ·) ∧
      s = scale := by
  have hc := congrArg GenOut.coefList h
  rw [coefList_chebFinish] at hc
  obtain ⟨hbr, -, hs⟩ := wrapOut_eq_withScale h
  have hb : o.ensureBounded = true := by
    cases hb' : o.ensureBounded
    · rw [hb'] at hbr; simp at hbr
    · rfl
  subst hs
  refine ⟨?_, rfl⟩
  rw [coefList_chebFinish]
  simp only [hb, if_true, Bool.false_eq_true, if_false, GenOut.coefList] at hc ⊢
  rw [← hc]
  split
  · rfl
  · exact cheb2poly_map_mul false s cheb

theorem cosGenerate_scale (o : GenOpts) (J : List ℚ) (c : List ℚ) (s : ℚ)
    (h : cosGenerate o J = .withScale c s) :
    c = (cosGenerate { o with ensureBounded := false } J).coefList.map (s * ·) ∧ s = 1 / 2 := by
  rw [cosGenerate_eq] at h ⊢
  exact chebFinish_scale o _ _ c s h

theorem sinGenerate_scale (o : GenOpts) (J : List ℚ) (c : List ℚ) (s : ℚ)
    (h : sinGenerate o J = .withScale c s) :
    c = (sinGenerate { o with ensureBounded := false } J).coefList.map (s * ·) ∧ s = 1 / 2 :=
  chebFinish_scale o _ _ c s h

theorem invGenerate_scale (o : GenOpts) (G : List ℚ) (pmAbs : ℚ) (c : List ℚ) (s : ℚ)
    (h : invGenerate o G pmAbs = .withScale c s) :
    c = (invGenerate { o with ensureBounded := false } G pmAbs).coefList.map (s * ·) ∧
      s = (1 / pmAbs) * (1 / 2) :=
  chebFinish_scale o _ _ c s h

theorem invRectGenerate_scale (rs : Bool) (cInv cRect : List ℚ) (s1 s2 : ℚ) (c : List ℚ) (s : ℚ)
    (h : invRectGenerate rs cInv cRect s1 s2 = .withScale c s) : s = s1 * s2 := by
  unfold invRectGenerate at h
  cases rs
  · simp at h
  · simp only [if_true] at h
    injection h with _ h2
    exact h2.symm

/-- the two bases denote the same polynomial -/
theorem chebFinish_bases (o : GenOpts) (cheb : List ℚ) (scale : ℚ) :
    toPoly (chebFinish { o with chebBasis := false } cheb scale).coefList =
      chebSum false (chebFinish { o with chebBasis := true } cheb scale).coefList := by
  rw [coefList_chebFinish, coefList_chebFinish]
  simp only [Bool.false_eq_true, if_false, if_true]
  exact cheb2poly_spec false _

theorem cosGenerate_bases (o : GenOpts) (J : List ℚ) :
    toPoly (cosGenerate { o with chebBasis := false } J).coefList =
      chebSum false (cosGenerate { o with chebBasis := true } J).coefList := by
  rw [cosGenerate_eq, cosGenerate_eq]
  exact chebFinish_bases o _ _

theorem sinGenerate_bases (o : GenOpts) (J : List ℚ) :
    toPoly (sinGenerate { o with chebBasis := false } J).coefList =
      chebSum false (sinGenerate { o with chebBasis := true } J).coefList :=
  chebFinish_bases o _ _

theorem invGenerate_bases (o : GenOpts) (G : List ℚ) (pmAbs : ℚ) :
    toPoly (invGenerate { o with chebBasis := false } G pmAbs).coefList =
      chebSum false (invGenerate { o with chebBasis := true } G pmAbs).coefList :=
  chebFinish_bases o _ _

/-- … and the monomial-basis list is `cheb2poly` of the Chebyshev-basis list, of the same length -/
theorem chebFinish_bases_list (o : GenOpts) (cheb : List ℚ) (scale : ℚ) :
    (chebFinish { o with chebBasis := false } cheb scale).coefList =
      cheb2poly false (chebFinish { o with chebBasis := true } cheb scale).coefList := by
  rw [coefList_chebFinish, coefList_chebFinish]
  simp only [Bool.false_eq_true, if_false, if_true]

/-! return shape -/

theorem erfGenerate_shape (par degree : ℕ) (o : GenOpts) (maxScale : ℚ) (fit : List ℚ)
    (pmAbs : ℚ) (out : GenOut) (h : erfGenerate par degree o maxScale fit pmAbs = .ok out) :
    (∃ c s, out = .withScale c s) ↔ (o.ensureBounded && o.returnScale) = true := by
  unfold erfGenerate at h
  split at h
  · cases h
  · injection h with h
    subst h
    exact wrapOut_withScale_iff o _ _

theorem chebFinish_shape (o : GenOpts) (cheb : List ℚ) (scale : ℚ) :
    (∃ c s, chebFinish o cheb scale = .withScale c s) ↔
      (o.ensureBounded && o.returnScale) = true :=
  wrapOut_withScale_iff o _ _

theorem cosGenerate_shape (o : GenOpts) (J : List ℚ) :
    (∃ c s, cosGenerate o J = .withScale c s) ↔ (o.ensureBounded && o.returnScale) = true := by
  rw [cosGenerate_eq]
  exact chebFinish_shape o _ _

theorem sinGenerate_shape (o : GenOpts) (J : List ℚ) :
    (∃ c s, sinGenerate o J = .withScale c s) ↔ (o.ensureBounded && o.returnScale) = true :=
  chebFinish_shape o _ _

theorem invGenerate_shape (o : GenOpts) (G : List ℚ) (pmAbs : ℚ) :
    (∃ c s, invGenerate o G pmAbs = .withScale c s) ↔
      (o.ensureBounded && o.returnScale) = true :=
  chebFinish_shape o _ _

theorem invRectGenerate_shape (rs : Bool) (cInv cRect : List ℚ) (s1 s2 : ℚ) :
    (∃ c s, invRectGenerate rs cInv cRect s1 s2 = .withScale c s) ↔ rs = true := by
  unfold invRectGenerate
  cases rs
  · simp
  · simp

end QSP

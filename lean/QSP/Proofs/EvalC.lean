/-
  Evaluation of real Laurent polynomials on the unit circle, the link to `FW` of
  `QSP/Proofs/Sup.lean`, and the 1-norm bound (`l1` of `QSP/Model/Ball.lean`).
-/
import QSP.Model.Ball
import QSP.Proofs.Den
import QSP.Proofs.Sup
import Mathlib.Algebra.Polynomial.Laurent
import Mathlib.Analysis.Complex.Exponential
import Mathlib.Analysis.Complex.Trigonometric
import Mathlib.Tactic.Ring
import Mathlib.Tactic.Linarith
import Mathlib.Tactic.Push

open LaurentPolynomial Complex
namespace QSP

/-- the point e^{iθ} of the unit circle as a unit of ℂ -/
noncomputable def circ (θ : ℝ) : ℂˣ :=
  ⟨exp (θ * I), exp (-(θ * I)), by rw [← exp_add]; simp, by rw [← exp_add]; simp⟩

/-- evaluation of a real Laurent polynomial at `e^{iθ}` -/
noncomputable def evalC (θ : ℝ) : ℝ[T;T⁻¹] →+* ℂ :=
  LaurentPolynomial.eval₂ (algebraMap ℝ ℂ) (circ θ)

theorem evalC_T (θ : ℝ) (k : ℤ) : evalC θ (T k) = exp ((k * θ : ℝ) * I) := by
  simp only [evalC, eval₂_T]
  rw [Units.val_zpow_eq_zpow_val]
  simp only [circ]
  rw [← Complex.exp_int_mul]
  congr 1; push_cast; ring

theorem evalC_T' (θ : ℝ) (k : ℤ) : evalC θ (T k) = exp (θ * I) ^ k := by
  rw [evalC_T, ← Complex.exp_int_mul]; congr 1; push_cast; ring

theorem evalC_C (θ : ℝ) (c : ℝ) : evalC θ (C c) = (c : ℂ) := by
  simp [evalC, eval₂_C]

theorem norm_evalC_T (θ : ℝ) (k : ℤ) : ‖evalC θ (T k)‖ = 1 := by
  rw [evalC_T, Complex.norm_exp_ofReal_mul_I]

/-- 1-norm of a real coefficient list -/
def l1R : List ℝ → ℝ
  | [] => 0
  | c :: cs => |c| + l1R cs

theorem l1R_nonneg (cs : List ℝ) : 0 ≤ l1R cs := by
  induction cs with
  | nil => simp [l1R]
  | cons c cs ih => simp only [l1R]; positivity

theorem norm_evalC_denL_le (θ : ℝ) (cs : List ℝ) (d : ℤ) : ‖evalC θ (denL cs d)‖ ≤ l1R cs := by
  induction cs generalizing d with
  | nil => simp [denL, l1R]
  | cons c cs ih =>
    simp only [denL, l1R, map_add, map_mul]
    refine (norm_add_le _ _).trans (add_le_add ?_ (ih _))
    rw [norm_mul, norm_evalC_T, mul_one]
    simp [evalC, eval₂_C]

/-! ### inversion `T ↦ T⁻¹` is `θ ↦ -θ`, i.e. complex conjugation -/

theorem evalC_invert (θ : ℝ) (f : ℝ[T;T⁻¹]) : evalC θ (invert f) = evalC (-θ) f := by
  induction f using LaurentPolynomial.induction_on' with
  | add p q hp hq => simp only [map_add, hp, hq]
  | C_mul_T n a =>
    simp only [map_mul, invert_C, invert_T, evalC_C, evalC_T]
    congr 3; push_cast; ring

theorem evalC_neg_eq_conj (θ : ℝ) (f : ℝ[T;T⁻¹]) :
    evalC (-θ) f = (starRingEnd ℂ) (evalC θ f) := by
  induction f using LaurentPolynomial.induction_on' with
  | add p q hp hq => simp only [map_add, hp, hq]
  | C_mul_T n a =>
    simp only [map_mul, evalC_C, evalC_T, Complex.conj_ofReal, ← Complex.exp_conj,
      Complex.conj_I]
    congr 2; push_cast; ring

theorem evalC_invert_conj (θ : ℝ) (f : ℝ[T;T⁻¹]) :
    evalC θ (invert f) = (starRingEnd ℂ) (evalC θ f) := by
  rw [evalC_invert, evalC_neg_eq_conj]

theorem norm_evalC_invert (θ : ℝ) (f : ℝ[T;T⁻¹]) : ‖evalC θ (invert f)‖ = ‖evalC θ f‖ := by
  rw [evalC_invert_conj, Complex.norm_conj]

/-! ### link to `FW` -/

theorem evalC_denL_eq_FW (θ : ℝ) (cs : List ℝ) (d : ℤ) :
    evalC θ (denL cs d) = FW (cs.map (fun c : ℝ => (c : ℂ))) d (exp (θ * I)) := by
  induction cs generalizing d with
  | nil => simp [FW]
  | cons c cs ih =>
    simp only [denL_cons, List.map_cons, FW, map_add, map_mul, evalC_C, evalC_T', ih]

/-! ### change of coefficient ring -/

theorem denL_map_cast {R S : Type} [CommRing R] [CommRing S] (f : R →+* S) (cs : List R)
    (d : ℤ) : denL (cs.map f) d = AddMonoidAlgebra.mapRingHom ℤ f (denL cs d) := by
  induction cs generalizing d with
  | nil => simp
  | cons c cs ih =>
    have hC : AddMonoidAlgebra.mapRingHom ℤ f (C c) = C (f c) := by
      rw [← single_eq_C, ← single_eq_C, AddMonoidAlgebra.mapRingHom_single]
    have hT : AddMonoidAlgebra.mapRingHom ℤ f (T d : R[T;T⁻¹]) = T d := by
      simp only [T, AddMonoidAlgebra.mapRingHom_single, map_one]
    simp only [List.map_cons, denL_cons, map_add, map_mul, ih, hC, hT]

theorem evalC_denL_cast_eq_FW (θ : ℝ) (cs : List ℚ) (d : ℤ) :
    evalC θ (denL (cs.map (fun q : ℚ => (q : ℝ))) d)
      = FW (cs.map (fun q : ℚ => ((q : ℝ) : ℂ))) d (exp (θ * I)) := by
  rw [evalC_denL_eq_FW, List.map_map]; rfl

/-! ### the model's 1-norm -/

theorem l1_cons (c : ℚ) (cs : List ℚ) : l1 (c :: cs) = qabs c + l1 cs := rfl

theorem l1_cast (cs : List ℚ) : ((l1 cs : ℚ) : ℝ) = l1R (cs.map (fun q : ℚ => (q : ℝ))) := by
  induction cs with
  | nil => simp [l1, l1R]
  | cons c cs ih =>
    rw [l1_cons, List.map_cons, l1R, ← ih, qabs_eq]; push_cast; rfl

theorem l1_nonneg (cs : List ℚ) : 0 ≤ l1 cs := by
  have : (0 : ℝ) ≤ ((l1 cs : ℚ) : ℝ) := by rw [l1_cast]; exact l1R_nonneg _
  exact_mod_cast this

/-- the sup norm on the circle is at most the 1-norm of the coefficients -/
theorem sup_le_l1 (cs : List ℚ) (d : ℤ) (θ : ℝ) :
    ‖evalC θ (denL (cs.map (fun q : ℚ => (q : ℝ))) d)‖ ≤ ((l1 cs : ℚ) : ℝ) := by
  rw [l1_cast]; exact norm_evalC_denL_le θ _ d

end QSP

/-
  Feasibility of the completion: if the 1-norm of the coefficients of `f` is below one then
  `1 - f · f~` (with `f~ = invert f`, i.e. `T ↦ T⁻¹`) is strictly positive on the unit circle,
  in particular it has no root there.
-/
import QSP.Proofs.EvalC
import Mathlib.Analysis.SpecialFunctions.Complex.Arg

open LaurentPolynomial Complex
namespace QSP

/-- on the circle `1 - f f~` takes the real value `1 - |f|²` -/
theorem evalC_one_sub_mul_invert (θ : ℝ) (f : ℝ[T;T⁻¹]) :
    evalC θ (1 - f * invert f) = ((1 - ‖evalC θ f‖ ^ 2 : ℝ) : ℂ) := by
  rw [map_sub, map_one, map_mul, evalC_invert_conj, Complex.mul_conj, Complex.normSq_eq_norm_sq]
  push_cast; rfl

theorem one_sub_normSq_pos_of_l1R_lt_one (F : List ℝ) (d : ℤ) (h : l1R F < 1) (θ : ℝ) :
    0 < 1 - ‖evalC θ (denL F d)‖ ^ 2 := by
  have h1 : ‖evalC θ (denL F d)‖ < 1 := (norm_evalC_denL_le θ F d).trans_lt h
  have h0 : 0 ≤ ‖evalC θ (denL F d)‖ := norm_nonneg _
  nlinarith

theorem evalC_one_sub_mul_invert_ne_zero (F : List ℝ) (d : ℤ) (h : l1R F < 1) (θ : ℝ) :
    evalC θ (1 - denL F d * invert (denL F d)) ≠ 0 := by
  rw [evalC_one_sub_mul_invert]
  exact_mod_cast (one_sub_normSq_pos_of_l1R_lt_one F d h θ).ne'

/-- every complex unit of modulus one is a point `circ θ` -/
theorem exists_circ_eq (u : ℂˣ) (hu : ‖(u : ℂ)‖ = 1) : ∃ θ : ℝ, circ θ = u := by
  refine ⟨arg (u : ℂ), Units.ext ?_⟩
  have := norm_mul_exp_arg_mul_I (u : ℂ)
  rw [hu] at this
  simpa [circ] using this

theorem eval₂_one_sub_mul_invert_ne_zero (F : List ℝ) (d : ℤ) (h : l1R F < 1) (u : ℂˣ)
    (hu : ‖(u : ℂ)‖ = 1) :
    LaurentPolynomial.eval₂ (algebraMap ℝ ℂ) u (1 - denL F d * invert (denL F d)) ≠ 0 := by
  obtain ⟨θ, rfl⟩ := exists_circ_eq u hu
  exact evalC_one_sub_mul_invert_ne_zero F d h θ

end QSP

/-
  Property C12, coefficient-wise reading of the Jacobian clause.

  * `cosCoefF` : a cosine (Chebyshev) coefficient as a FINITE mean of values of the function at
    the `4d+1` equispaced nodes of the circle (discrete orthogonality of the cosines); it
    recovers the coefficients of every cosine sum of the parity class (`cosCoefF_cosSum`), is
    bounded by twice the sup (`abs_cosCoefF_le`), and commutes with differentiation with
    respect to a parameter (`hasDerivAt_cosCoefF`).
  * `chebCoefs par red`, `dCoefs par red j` : the Chebyshev coefficient lists of
    `a ↦ Im <0|U_x(a)|0>` for the symmetric protocol with reduced phases `red`, and of its
    partial derivative with respect to reduced phase `j`; the expansions; the derivative of each
    coefficient (G1).
  * quantitative enclosure of the executable specification `jacSpec` (G2).
-/
import QSP.Model.JacErr
import QSP.Proofs.Jacobian
import QSP.Proofs.CoeffBound
import Mathlib.Analysis.Calculus.Deriv.Add
import Mathlib.Analysis.Calculus.Deriv.Mul
import Mathlib.Analysis.SpecialFunctions.Trigonometric.Basic

open Matrix Complex
open scoped Matrix.Norms.L2Operator
namespace QSP

/-! ## 1. discrete orthogonality of the cosines -/

/-- `Σ_{r<N} cos(k · 2π r / N) = N` if `N ∣ k`, else `0` -/
theorem sum_cos_nodes_dft (N : ℕ) (hN : N ≠ 0) (k : ℤ) :
    ∑ r ∈ Finset.range N, Real.cos ((k : ℝ) * (2 * Real.pi * (r : ℝ) / (N : ℝ)))
      = if (N : ℤ) ∣ k then (N : ℝ) else 0 := by
  have hζ : IsPrimitiveRoot (exp (2 * (Real.pi : ℂ) * I / (N : ℂ))) N :=
    Complex.isPrimitiveRoot_exp N hN
  set ζ := exp (2 * (Real.pi : ℂ) * I / (N : ℂ)) with hζdef
  have hNC : (N : ℂ) ≠ 0 := by exact_mod_cast hN
  have key : ∀ r : ℕ, (ζ ^ r) ^ k
      = exp ((((k : ℝ) * (2 * Real.pi * (r : ℝ) / (N : ℝ)) : ℝ) : ℂ) * I) := by
    intro r
    rw [hζdef, ← Complex.exp_nat_mul, ← Complex.exp_int_mul]
    congr 1
    push_cast
    field_simp
  have hsum : ∑ r ∈ Finset.range N, Real.cos ((k : ℝ) * (2 * Real.pi * (r : ℝ) / (N : ℝ)))
      = (∑ r ∈ Finset.range N, (ζ ^ r) ^ k).re := by
    rw [Complex.re_sum]
    refine Finset.sum_congr rfl fun r _ => ?_
    rw [key r, Complex.exp_ofReal_mul_I_re]
  rw [hsum]
  split_ifs with hdvd
  · have h1 : ζ ^ k = 1 := (hζ.zpow_eq_one_iff_dvd k).mpr hdvd
    have h2 : ∀ r ∈ Finset.range N, (ζ ^ r) ^ k = 1 := by
      intro r _
      rw [← zpow_natCast, ← zpow_mul, mul_comm, zpow_mul, h1, one_zpow]
    rw [Finset.sum_congr rfl h2]
    simp
  · rw [sum_zpow_primitive_eq_zero hζ k hdvd]
    simp

/-- discrete orthogonality: for frequencies `a, b` with `a + b < N`,
    `Σ_{r<N} cos(a θ_r) cos(b θ_r) = N` (`a = b = 0`), `N/2` (`a = b ≠ 0`), `0` (`a ≠ b`) -/
theorem sum_cos_cos_nodes (N : ℕ) (a b : ℕ) (hab : a + b < N) :
    ∑ r ∈ Finset.range N, Real.cos ((a : ℝ) * (2 * Real.pi * (r : ℝ) / (N : ℝ)))
        * Real.cos ((b : ℝ) * (2 * Real.pi * (r : ℝ) / (N : ℝ)))
      = if a = b then (if a = 0 then (N : ℝ) else (N : ℝ) / 2) else 0 := by
  have hN : N ≠ 0 := by omega
  have e : ∀ r : ℕ, Real.cos ((a : ℝ) * (2 * Real.pi * (r : ℝ) / (N : ℝ)))
        * Real.cos ((b : ℝ) * (2 * Real.pi * (r : ℝ) / (N : ℝ)))
      = (Real.cos ((((a : ℤ) - (b : ℤ) : ℤ) : ℝ) * (2 * Real.pi * (r : ℝ) / (N : ℝ)))
          + Real.cos ((((a : ℤ) + (b : ℤ) : ℤ) : ℝ) * (2 * Real.pi * (r : ℝ) / (N : ℝ)))) / 2 := by
    intro r
    push_cast
    rw [sub_mul, add_mul, Real.cos_sub, Real.cos_add]
    ring
  simp only [e]
  rw [← Finset.sum_div, Finset.sum_add_distrib, sum_cos_nodes_dft N hN, sum_cos_nodes_dft N hN]
  have h1 : ((N : ℤ) ∣ (a : ℤ) - (b : ℤ)) ↔ a = b := by
    constructor
    · rintro ⟨c, hc⟩
      have : c = 0 := by
        by_contra hc0
        rcases lt_or_gt_of_ne hc0 with hlt | hgt
        · have : (N : ℤ) * c ≤ -(N : ℤ) := by nlinarith
          omega
        · have : (N : ℤ) ≤ (N : ℤ) * c := by nlinarith
          omega
      subst this
      omega
    · rintro rfl; simp
  have h2 : ((N : ℤ) ∣ (a : ℤ) + (b : ℤ)) ↔ (a = 0 ∧ b = 0) := by
    constructor
    · rintro ⟨c, hc⟩
      have : c = 0 := by
        by_contra hc0
        rcases lt_or_gt_of_ne hc0 with hlt | hgt
        · have : (N : ℤ) * c ≤ -(N : ℤ) := by nlinarith
          omega
        · have : (N : ℤ) ≤ (N : ℤ) * c := by nlinarith
          omega
      subst this
      omega
    · rintro ⟨rfl, rfl⟩; simp
  by_cases hab' : a = b
  · subst hab'
    by_cases ha : a = 0
    · subst ha
      simp
    · have : ¬ ((N : ℤ) ∣ (a : ℤ) + (a : ℤ)) := by rw [h2]; omega
      rw [if_pos (h1.mpr rfl), if_neg this, if_pos rfl, if_neg ha]
      ring
  · have : ¬ ((N : ℤ) ∣ (a : ℤ) + (b : ℤ)) := by rw [h2]; omega
    rw [if_neg (fun h => hab' (h1.mp h)), if_neg this, if_neg hab']
    ring

/-! ## 2. the finite-mean cosine coefficient functional -/

/-- number of nodes: odd and larger than twice the top frequency `2(d-1)+par ≤ 2d-1` -/
def jnodes (d : ℕ) : ℕ := 4 * d + 1

/-- the equispaced nodes `θ_r = 2π r / N` of the circle -/
noncomputable def jnode (d r : ℕ) : ℝ := 2 * Real.pi * (r : ℝ) / ((jnodes d : ℕ) : ℝ)

/-- the generating cosine series of a REAL coefficient list:
    `Σ_{k<d} c_k cos((2k+par) θ) = Σ_{k<d} c_k T_{2k+par}(cos θ)` (`cosGen` for real lists) -/
noncomputable def cosGenR (par d : ℕ) (c : List ℝ) (θ : ℝ) : ℝ :=
  ∑ k ∈ Finset.range d, c.getD k 0 * Real.cos (((2 * k + par : ℕ) : ℝ) * θ)

theorem cosGen_eq_cosGenR (par d : ℕ) (c : List ℚ) (θ : ℝ) :
    cosGen par d c θ = cosGenR par d (c.map (fun q : ℚ => (q : ℝ))) θ := by
  unfold cosGen cosGenR
  refine Finset.sum_congr rfl fun k _ => ?_
  have := List.getD_map (l := c) (d := (0 : ℚ)) (n := k) (fun q : ℚ => (q : ℝ))
  rw [Rat.cast_zero] at this
  rw [this]

/-- the `m`-th cosine coefficient (frequency `2m+par`) of `g` as a finite mean over the nodes:
    `(ε_m / N) Σ_{r<N} g(θ_r) cos((2m+par) θ_r)`, `ε = 1` for frequency `0`, else `2` -/
noncomputable def cosCoefF (par d : ℕ) (g : ℝ → ℝ) (m : ℕ) : ℝ :=
  (if 2 * m + par = 0 then (1 : ℝ) else 2) / ((jnodes d : ℕ) : ℝ) *
    ∑ r ∈ Finset.range (jnodes d), g (jnode d r) * Real.cos (((2 * m + par : ℕ) : ℝ) * jnode d r)

/-- the functional recovers the coefficients of every cosine sum of the parity class -/
theorem cosCoefF_cosSum (par d : ℕ) (hpar : par ≤ 1) (a : ℕ → ℝ) (m : ℕ) (hm : m < d) :
    cosCoefF par d
      (fun θ => ∑ k ∈ Finset.range d, a k * Real.cos (((2 * k + par : ℕ) : ℝ) * θ)) m = a m := by
  unfold cosCoefF
  have hNpos : (0 : ℝ) < ((jnodes d : ℕ) : ℝ) := by unfold jnodes; positivity
  have e1 : ∑ r ∈ Finset.range (jnodes d),
        (∑ k ∈ Finset.range d, a k * Real.cos (((2 * k + par : ℕ) : ℝ) * jnode d r))
          * Real.cos (((2 * m + par : ℕ) : ℝ) * jnode d r)
      = ∑ k ∈ Finset.range d, a k * ∑ r ∈ Finset.range (jnodes d),
          Real.cos (((2 * k + par : ℕ) : ℝ) * jnode d r)
            * Real.cos (((2 * m + par : ℕ) : ℝ) * jnode d r) := by
    simp only [Finset.sum_mul, Finset.mul_sum]
    rw [Finset.sum_comm]
    refine Finset.sum_congr rfl fun k _ => Finset.sum_congr rfl fun r _ => ?_
    ring
  rw [e1]
  have e2 : ∀ k ∈ Finset.range d, a k * ∑ r ∈ Finset.range (jnodes d),
          Real.cos (((2 * k + par : ℕ) : ℝ) * jnode d r)
            * Real.cos (((2 * m + par : ℕ) : ℝ) * jnode d r)
      = a k * (if 2 * k + par = 2 * m + par then
          (if 2 * k + par = 0 then ((jnodes d : ℕ) : ℝ) else ((jnodes d : ℕ) : ℝ) / 2) else 0) := by
    intro k hk
    have hk' := Finset.mem_range.mp hk
    unfold jnode
    rw [sum_cos_cos_nodes (jnodes d) (2 * k + par) (2 * m + par) (by unfold jnodes; omega)]
  rw [Finset.sum_congr rfl e2, Finset.sum_eq_single_of_mem m (Finset.mem_range.mpr hm)]
  · rw [if_pos rfl]
    split_ifs
    · field_simp
    · field_simp
  · intro k _ hkm
    rw [if_neg (by omega), mul_zero]

/-- the functional is bounded by twice the sup of the function -/
theorem abs_cosCoefF_le (par d : ℕ) (g : ℝ → ℝ) (B : ℝ) (hB : ∀ θ, |g θ| ≤ B) (m : ℕ) :
    |cosCoefF par d g m| ≤ 2 * B := by
  unfold cosCoefF
  have hNpos : (0 : ℝ) < ((jnodes d : ℕ) : ℝ) := by unfold jnodes; positivity
  have hB0 : 0 ≤ B := (abs_nonneg _).trans (hB 0)
  have h1 : |∑ r ∈ Finset.range (jnodes d),
      g (jnode d r) * Real.cos (((2 * m + par : ℕ) : ℝ) * jnode d r)| ≤ ((jnodes d : ℕ) : ℝ) * B := by
    refine (Finset.abs_sum_le_sum_abs _ _).trans ?_
    calc ∑ r ∈ Finset.range (jnodes d),
          |g (jnode d r) * Real.cos (((2 * m + par : ℕ) : ℝ) * jnode d r)|
        ≤ ∑ _r ∈ Finset.range (jnodes d), B := by
          refine Finset.sum_le_sum fun r _ => ?_
          rw [abs_mul]
          calc |g (jnode d r)| * |Real.cos (((2 * m + par : ℕ) : ℝ) * jnode d r)|
              ≤ B * 1 := mul_le_mul (hB _) (Real.abs_cos_le_one _) (abs_nonneg _) hB0
            _ = B := mul_one B
      _ = ((jnodes d : ℕ) : ℝ) * B := by
          rw [Finset.sum_const, Finset.card_range, nsmul_eq_mul]
  have h2 : |(if 2 * m + par = 0 then (1 : ℝ) else 2) / ((jnodes d : ℕ) : ℝ)|
      ≤ 2 / ((jnodes d : ℕ) : ℝ) := by
    rw [abs_div, abs_of_pos hNpos]
    apply div_le_div_of_nonneg_right _ hNpos.le
    split_ifs <;> norm_num
  rw [abs_mul]
  calc _ ≤ 2 / ((jnodes d : ℕ) : ℝ) * (((jnodes d : ℕ) : ℝ) * B) :=
        mul_le_mul h2 h1 (abs_nonneg _) (by positivity)
    _ = 2 * B := by field_simp

/-- the functional only looks at values of the function -/
theorem cosCoefF_congr (par d : ℕ) (g h : ℝ → ℝ) (hgh : ∀ θ, g θ = h θ) (m : ℕ) :
    cosCoefF par d g m = cosCoefF par d h m := by
  have : g = h := funext hgh
  rw [this]

theorem cosCoefF_sub (par d : ℕ) (g h : ℝ → ℝ) (m : ℕ) :
    cosCoefF par d (fun θ => g θ - h θ) m = cosCoefF par d g m - cosCoefF par d h m := by
  unfold cosCoefF
  rw [← mul_sub, ← Finset.sum_sub_distrib]
  congr 1
  refine Finset.sum_congr rfl fun r _ => ?_
  ring

/-- differentiation with respect to a parameter commutes with the functional (a finite sum) -/
theorem hasDerivAt_cosCoefF (par d : ℕ) (g : ℝ → ℝ → ℝ) (g' : ℝ → ℝ) (x : ℝ)
    (h : ∀ θ, HasDerivAt (fun t => g t θ) (g' θ) x) (m : ℕ) :
    HasDerivAt (fun t => cosCoefF par d (g t) m) (cosCoefF par d g' m) x := by
  unfold cosCoefF
  refine HasDerivAt.const_mul _ ?_
  refine HasDerivAt.fun_sum fun r _ => ?_
  exact (h (jnode d r)).mul_const _

/-! ## 3. cosine sums of the parity class -/

/-- `g` is a cosine sum on the frequencies `par, 2+par, …, 2(d-1)+par` -/
def IsCosPoly (par d : ℕ) (g : ℝ → ℝ) : Prop :=
  ∃ a : ℕ → ℝ, ∀ θ, g θ = ∑ k ∈ Finset.range d, a k * Real.cos (((2 * k + par : ℕ) : ℝ) * θ)

theorem IsCosPoly.zero (par d : ℕ) : IsCosPoly par d (fun _ => 0) :=
  ⟨fun _ => 0, fun θ => by simp⟩

theorem IsCosPoly.add {par d : ℕ} {g h : ℝ → ℝ} (hg : IsCosPoly par d g) (hh : IsCosPoly par d h) :
    IsCosPoly par d (fun θ => g θ + h θ) := by
  obtain ⟨a, ha⟩ := hg
  obtain ⟨b, hb⟩ := hh
  refine ⟨fun k => a k + b k, fun θ => ?_⟩
  beta_reduce
  rw [ha, hb, ← Finset.sum_add_distrib]
  refine Finset.sum_congr rfl fun k _ => ?_
  ring

theorem IsCosPoly.const_mul {par d : ℕ} {g : ℝ → ℝ} (c : ℝ) (hg : IsCosPoly par d g) :
    IsCosPoly par d (fun θ => c * g θ) := by
  obtain ⟨a, ha⟩ := hg
  refine ⟨fun k => c * a k, fun θ => ?_⟩
  beta_reduce
  rw [ha, Finset.mul_sum]
  refine Finset.sum_congr rfl fun k _ => ?_
  ring

theorem IsCosPoly.congr {par d : ℕ} {g h : ℝ → ℝ} (hg : IsCosPoly par d g) (e : ∀ θ, h θ = g θ) :
    IsCosPoly par d h := by
  obtain ⟨a, ha⟩ := hg
  exact ⟨a, fun θ => by rw [e, ha]⟩

/-- the list of functional values -/
noncomputable def coefList (par d : ℕ) (g : ℝ → ℝ) : List ℝ :=
  (List.range d).map (cosCoefF par d g)

theorem coefList_length (par d : ℕ) (g : ℝ → ℝ) : (coefList par d g).length = d := by
  simp [coefList]

theorem coefList_getD (par d : ℕ) (g : ℝ → ℝ) (m : ℕ) (hm : m < d) :
    (coefList par d g).getD m 0 = cosCoefF par d g m := by
  unfold coefList
  rw [List.getD_eq_getElem _ _ (by simpa using hm)]
  simp

theorem coefList_getD_of_le (par d : ℕ) (g : ℝ → ℝ) (m : ℕ) (hm : d ≤ m) :
    (coefList par d g).getD m 0 = 0 := by
  unfold coefList
  rw [List.getD_eq_default _ _ (by simpa using hm)]

/-- a cosine sum of the class IS the cosine series of its list of functional values -/
theorem IsCosPoly.eq_cosGenR {par d : ℕ} (hpar : par ≤ 1) {g : ℝ → ℝ} (hg : IsCosPoly par d g)
    (θ : ℝ) : g θ = cosGenR par d (coefList par d g) θ := by
  obtain ⟨a, ha⟩ := hg
  rw [ha θ]
  unfold cosGenR
  refine Finset.sum_congr rfl fun k hk => ?_
  have hk' := Finset.mem_range.mp hk
  rw [coefList_getD par d g k hk', cosCoefF_congr par d g _ ha, cosCoefF_cosSum par d hpar a k hk']

theorem cosGenR_isCosPoly (par d : ℕ) (c : List ℝ) : IsCosPoly par d (cosGenR par d c) :=
  ⟨fun k => c.getD k 0, fun _ => rfl⟩

/-- uniqueness: the coefficients of a cosine series of the class are determined by its values -/
theorem cosGenR_coef (par d : ℕ) (hpar : par ≤ 1) (c : List ℝ) (m : ℕ) (hm : m < d) :
    cosCoefF par d (cosGenR par d c) m = c.getD m 0 :=
  cosCoefF_cosSum par d hpar (fun k => c.getD k 0) m hm

theorem cosGenR_neg (par d : ℕ) (c : List ℝ) (θ : ℝ) : cosGenR par d c (-θ) = cosGenR par d c θ := by
  unfold cosGenR
  refine Finset.sum_congr rfl fun k _ => ?_
  rw [mul_neg, Real.cos_neg]

/-- folding the window `-n, -n+2, …, n` (`n = 2d-2+par`) onto the frequencies `2i+par ≥ 0` -/
theorem cos_window_fold (par d : ℕ) (hpar : par ≤ 1) (hd : 0 < d) (q : ℕ → ℝ) (θ : ℝ) :
    ∑ k ∈ Finset.range (2 * d - 1 + par),
        q k * Real.cos (((-((2 * d - 2 + par : ℕ) : ℤ) + 2 * (k : ℤ) : ℤ) : ℝ) * θ)
      = ∑ i ∈ Finset.range d, (q (d - 1 + par + i) + if 2 * i + par = 0 then 0 else q (d - 1 - i))
          * Real.cos (((2 * i + par : ℕ) : ℝ) * θ) := by
  obtain ⟨e, rfl⟩ : ∃ e, d = e + 1 := ⟨d - 1, by omega⟩
  have hcases : par = 0 ∨ par = 1 := by omega
  rcases hcases with rfl | rfl
  · -- even class: window `-2e … 2e`, `2e+1` entries
    have h1 : 2 * (e + 1) - 1 + 0 = e + (e + 1) := by omega
    have hn : 2 * (e + 1) - 2 + 0 = 2 * e := by omega
    rw [h1, Finset.sum_range_add]
    simp only [hn, add_mul, Finset.sum_add_distrib]
    rw [add_comm]
    congr 1
    · refine Finset.sum_congr rfl fun i _ => ?_
      have : e + 1 - 1 + 0 + i = e + i := by omega
      rw [this]
      congr 2
      push_cast
      ring
    · rw [Finset.sum_range_succ']
      simp only [Nat.mul_zero, if_true, zero_mul, add_zero]
      rw [← Finset.sum_range_reflect]
      refine Finset.sum_congr rfl fun j hj => ?_
      have hj' := Finset.mem_range.mp hj
      rw [if_neg (by omega)]
      have : e + 1 - 1 - (j + 1) = e - 1 - j := by omega
      rw [this]
      congr 1
      rw [← Real.cos_neg]
      congr 1
      have h3 : ((e - 1 - j : ℕ) : ℤ) = (e : ℤ) - 1 - (j : ℤ) := by omega
      rw [h3]
      push_cast
      ring
  · -- odd class: window `-(2e+1) … 2e+1`, `2e+2` entries
    have h1 : 2 * (e + 1) - 1 + 1 = (e + 1) + (e + 1) := by omega
    rw [h1, Finset.sum_range_add]
    simp only [add_mul, Finset.sum_add_distrib]
    rw [add_comm]
    congr 1
    · refine Finset.sum_congr rfl fun i _ => ?_
      have : e + 1 - 1 + 1 + i = e + 1 + i := by omega
      rw [this]
      congr 2
      have h2 : ((2 * (e + 1) - 2 + 1 : ℕ) : ℤ) = 2 * (e : ℤ) + 1 := by omega
      rw [h2]
      push_cast
      ring
    · rw [← Finset.sum_range_reflect]
      refine Finset.sum_congr rfl fun j hj => ?_
      have hj' := Finset.mem_range.mp hj
      rw [if_neg (by omega)]
      have : e + 1 - 1 - j = e - j := by omega
      rw [this]
      congr 1
      rw [← Real.cos_neg]
      congr 1
      have h2 : ((2 * (e + 1) - 2 + 1 : ℕ) : ℤ) = 2 * (e : ℤ) + 1 := by omega
      have h3 : ((e - j : ℕ) : ℤ) = (e : ℤ) - (j : ℤ) := by omega
      rw [h2, h3]
      push_cast
      ring

/-! ## 4. `Im <+|Ucirc|+>` is a cosine sum of the parity class -/

theorem getD_map_ofReal (l : List ℝ) (j : ℕ) :
    (l.map (fun x : ℝ => (x : ℂ))).getD j 0 = ((l.getD j 0 : ℝ) : ℂ) := by
  have := List.getD_map (l := l) (d := (0 : ℝ)) (n := j) (fun x : ℝ => (x : ℂ))
  simpa using this

/-- a real Laurent polynomial plus its reflection, on the circle: twice a cosine sum -/
theorem FW_real_add_inv (Q : List ℝ) (δ : ℤ) (θ : ℝ) :
    FW (Q.map (fun x : ℝ => (x : ℂ))) δ (exp ((θ : ℂ) * I))
        + FW (Q.map (fun x : ℝ => (x : ℂ))) δ (exp ((θ : ℂ) * I))⁻¹
      = ((2 * ∑ k ∈ Finset.range Q.length,
          Q.getD k 0 * Real.cos (((δ + 2 * (k : ℤ) : ℤ) : ℝ) * θ) : ℝ) : ℂ) := by
  rw [FW_eq_sum, FW_eq_sum, List.length_map, ← Finset.sum_add_distrib]
  push_cast
  rw [Finset.mul_sum]
  refine Finset.sum_congr rfl fun k _ => ?_
  rw [getD_map_ofReal, inv_zpow, ← Complex.exp_int_mul, ← Complex.exp_neg]
  have h := Complex.two_cos ((((δ + 2 * (k : ℤ) : ℤ) : ℂ)) * (θ : ℂ))
  have e1 : ((δ + 2 * (k : ℤ) : ℤ) : ℂ) * ((θ : ℂ) * I)
      = (((δ + 2 * (k : ℤ) : ℤ) : ℂ)) * (θ : ℂ) * I := by ring
  rw [e1, ← neg_mul, ← mul_add, ← h]
  push_cast
  ring

theorem half_im (a b : ℝ) :
    ((1 / 2 : ℂ) * (((2 * a : ℝ) : ℂ) + I * ((2 * b : ℝ) : ℂ))).im = b := by
  simp

/-- the imaginary part of the `<+| · |+>` corner of `[[P(w), iQ(w)], [iQ(1/w), P(1/w)]]`
    (real `P`, `Q`) is the cosine sum of `Q` -/
theorem brG_x_cmat_im (PQ : List ℝ × List ℝ) (δ : ℤ) (θ : ℝ) :
    (brG .x (cmat PQ δ θ)).im
      = ∑ k ∈ Finset.range PQ.2.length,
          PQ.2.getD k 0 * Real.cos (((δ + 2 * (k : ℤ) : ℤ) : ℝ) * θ) := by
  have hP := FW_real_add_inv PQ.1 δ θ
  have hQ := FW_real_add_inv PQ.2 δ θ
  have e : brG .x (cmat PQ δ θ)
      = (1 / 2 : ℂ) * ((FW (PQ.1.map (fun x : ℝ => (x : ℂ))) δ (exp ((θ : ℂ) * I))
            + FW (PQ.1.map (fun x : ℝ => (x : ℂ))) δ (exp ((θ : ℂ) * I))⁻¹)
          + I * (FW (PQ.2.map (fun x : ℝ => (x : ℂ))) δ (exp ((θ : ℂ) * I))
            + FW (PQ.2.map (fun x : ℝ => (x : ℂ))) δ (exp ((θ : ℂ) * I))⁻¹)) := by
    rw [QSP.brG_x]
    simp only [cmat, Matrix.of_apply, Matrix.cons_val', Matrix.cons_val_zero, Matrix.cons_val_one,
      Matrix.empty_val', Matrix.cons_val_fin_one]
    ring
  rw [e, hP, hQ]
  exact half_im _ _

/-- for `2d - 1 + par` phases (`par ∈ {0, 1}`), `θ ↦ Im <+|Ucirc θ φs|+>` is a cosine sum on the
    frequencies `2k + par`, `k < d` -/
theorem isCosPoly_Ucirc (par d : ℕ) (hpar : par ≤ 1) (hd : 0 < d) (φs : List ℝ)
    (hlen : φs.length + 1 = 2 * d + par) :
    IsCosPoly par d (fun θ => (brG .x (Ucirc θ φs)).im) := by
  obtain ⟨-, l2⟩ := Ucoef_length φs
  have hn : φs.length - 1 = 2 * d - 2 + par := by omega
  have hl : (Ucoef φs).2.length = 2 * d - 1 + par := by omega
  refine ⟨fun i => (Ucoef φs).2.getD (d - 1 + par + i) 0
      + if 2 * i + par = 0 then 0 else (Ucoef φs).2.getD (d - 1 - i) 0, fun θ => ?_⟩
  beta_reduce
  rw [Ucirc_eq_cmat, brG_x_cmat_im, hl, hn]
  exact cos_window_fold par d hpar hd (fun k => (Ucoef φs).2.getD k 0) θ

/-! ## 5. the Chebyshev coefficients of `Im <0|U_x(a)|0>` and of its partial derivatives (G1) -/

/-- `θ ↦ Im <+|Ucirc θ (layout par red)|+>`, defined on the whole circle; on the upper half
    circle it is `Im <0|U_x(cos θ)|0>` of the symmetric protocol (`respIm_eq_respDef`) -/
noncomputable def respIm (par : ℕ) (red : List ℝ) (θ : ℝ) : ℝ :=
  (brG .x (Ucirc θ (layout (par : ℤ) red))).im

/-- `θ ↦ Im <+| jacDPairs θ … j |+>` at the EXACT pairs `(cos φ, sin φ)` of the full phase list:
    the product-rule functional which is the true partial derivative with respect to reduced
    phase `j` (`hasDerivAt_resp_layout_im_pairs`, `hasDerivAt_respIm`) -/
noncomputable def dRespIm (par : ℕ) (red : List ℝ) (j : ℕ) (θ : ℝ) : ℝ :=
  (brG .x (jacDPairs θ par red.length ((layout (par : ℤ) red).map prC) j)).im

/-- the Chebyshev coefficients `c_{2m+par}`, `m < d`, of `a ↦ Im <0|U_x(a)|0>` for the symmetric
    protocol with reduced phases `red` (finite means of values of the function) -/
noncomputable def chebCoefs (par : ℕ) (red : List ℝ) : List ℝ :=
  coefList par red.length (respIm par red)

/-- the Chebyshev coefficients of the partial derivative with respect to reduced phase `j` -/
noncomputable def dCoefs (par : ℕ) (red : List ℝ) (j : ℕ) : List ℝ :=
  coefList par red.length (dRespIm par red j)

theorem chebCoefs_length (par : ℕ) (red : List ℝ) : (chebCoefs par red).length = red.length :=
  coefList_length _ _ _

theorem dCoefs_length (par : ℕ) (red : List ℝ) (j : ℕ) : (dCoefs par red j).length = red.length :=
  coefList_length _ _ _

theorem respIm_eq_respDef (par : ℕ) (red : List ℝ) (θ : ℝ) (hθ : 0 ≤ Real.sin θ) :
    respIm par red θ = (respDef .Wx .z (layout (par : ℤ) red) (Real.cos θ)).im := by
  rw [respIm, Ucirc_corner_eq_Wx_z θ hθ]

/-- on the whole circle the partial derivative of `respIm` with respect to reduced phase `j`
    is `dRespIm` -/
theorem hasDerivAt_respIm (par : ℕ) (red : List ℝ) (j : ℕ) (hj : j < red.length) (θ : ℝ) :
    HasDerivAt (fun t => respIm par (red.set j t) θ) (dRespIm par red j θ) (red.getD j 0) := by
  have h := hasDerivAt_im_real (hasDerivAtM_layout θ par red j hj).brG_x
  unfold respIm dRespIm
  rw [← jacD_eq_jacDPairs]
  exact h

theorem dprC_eq (x : ℝ) : dprC x = prC (x + Real.pi / 2) := by
  unfold dprC prC
  rw [Real.cos_add_pi_div_two, Real.sin_add_pi_div_two]
  push_cast
  rfl

/-- the product with the factor at `p` replaced by its derivative is the product of the phase
    list with `π/2` added at `p` -/
theorem UcircD_eq_Ucirc (θ : ℝ) (φs : List ℝ) (p : ℕ) :
    UcircD θ φs p = Ucirc θ (φs.set p (φs.getD p 0 + Real.pi / 2)) := by
  rw [UcircD, dprC_eq, ← List.map_set, ← Ucirc_eq_pairs]

theorem brG_x_smul (k : ℂ) (A : M22) : brG .x (k • A) = k * brG .x A := by
  rw [QSP.brG_x, QSP.brG_x]
  simp only [Matrix.smul_apply, smul_eq_mul]
  ring

theorem isCosPoly_sum_UcircD (par d : ℕ) (hpar : par ≤ 1) (hd : 0 < d) (φs : List ℝ)
    (hlen : φs.length + 1 = 2 * d + par) (pks : List (ℕ × ℚ)) :
    IsCosPoly par d (fun θ => (brG .x ((pks.map (fun pk : ℕ × ℚ =>
      (((pk.2 : ℚ) : ℝ) : ℂ) • UcircD θ φs pk.1)).sum)).im) := by
  induction pks with
  | nil =>
    refine (IsCosPoly.zero par d).congr fun θ => ?_
    simp [brG_x_zero]
  | cons pk pks ih =>
    have h1 : IsCosPoly par d (fun θ => (brG .x (UcircD θ φs pk.1)).im) := by
      refine (isCosPoly_Ucirc par d hpar hd (φs.set pk.1 (φs.getD pk.1 0 + Real.pi / 2))
        (by rw [List.length_set]; exact hlen)).congr fun θ => ?_
      rw [UcircD_eq_Ucirc]
    refine ((h1.const_mul ((pk.2 : ℚ) : ℝ)).add ih).congr fun θ => ?_
    rw [List.map_cons, List.sum_cons, brG_x_add, Complex.add_im, brG_x_smul, Complex.im_ofReal_mul]

/-- EXPANSION (value): `Im <+|Ucirc θ (layout par red)|+> = Σ_m c_m cos((2m+par) θ)` with
    `c = chebCoefs par red`, at every point of the circle -/
theorem respIm_eq_cosGenR (par : ℕ) (hpar : par ≤ 1) (red : List ℝ) (hr : red ≠ []) (θ : ℝ) :
    respIm par red θ = cosGenR par red.length (chebCoefs par red) θ := by
  have hd : 0 < red.length := List.length_pos_iff.mpr hr
  exact (isCosPoly_Ucirc par red.length hpar hd (layout (par : ℤ) red)
    (layout_length_par par hpar red hr)).eq_cosGenR hpar θ

/-- EXPANSION (derivative): `Im <+| jacDPairs θ … j |+> = Σ_m D_m cos((2m+par) θ)` with
    `D = dCoefs par red j`, at every point of the circle -/
theorem dRespIm_eq_cosGenR (par : ℕ) (hpar : par ≤ 1) (red : List ℝ) (hr : red ≠ []) (j : ℕ)
    (θ : ℝ) : dRespIm par red j θ = cosGenR par red.length (dCoefs par red j) θ := by
  have hd : 0 < red.length := List.length_pos_iff.mpr hr
  have h := isCosPoly_sum_UcircD par red.length hpar hd (layout (par : ℤ) red)
    (layout_length_par par hpar red hr) (positions par red.length j)
  have h' : IsCosPoly par red.length (dRespIm par red j) := by
    refine h.congr fun θ => ?_
    unfold dRespIm
    rw [← jacD_eq_jacDPairs]
    rfl
  exact h'.eq_cosGenR hpar θ

/-- G1, the value expansion against the definition of the response: for `θ` on the upper half
    circle, `Im <0|U_x(cos θ)|0> = Σ_m c_m cos((2m+par) θ)` -/
theorem resp_im_eq_cosGenR (par : ℕ) (hpar : par ≤ 1) (red : List ℝ) (hr : red ≠ []) (θ : ℝ)
    (hθ : 0 ≤ Real.sin θ) :
    (respDef .Wx .z (layout (par : ℤ) red) (Real.cos θ)).im
      = cosGenR par red.length (chebCoefs par red) θ := by
  rw [← respIm_eq_respDef par red θ hθ, respIm_eq_cosGenR par hpar red hr]

/-- the cosine series in Chebyshev form -/
theorem cosGenR_T (par d : ℕ) (c : List ℝ) (θ : ℝ) :
    cosGenR par d c θ = ∑ k ∈ Finset.range d, c.getD k 0 *
      (Polynomial.Chebyshev.T ℝ ((2 * k + par : ℕ) : ℤ)).eval (Real.cos θ) := by
  unfold cosGenR
  refine Finset.sum_congr rfl fun k _ => ?_
  rw [Polynomial.Chebyshev.T_real_cos]
  push_cast
  rfl

/-- … for every signal value `a ∈ [-1, 1]`, in Chebyshev form:
    `Im <0|U_x(a)|0> = Σ_m c_m T_{2m+par}(a)` -/
theorem resp_im_eq_cheb (par : ℕ) (hpar : par ≤ 1) (red : List ℝ) (hr : red ≠ []) (a : ℝ)
    (ha : a ∈ Set.Icc (-1 : ℝ) 1) :
    (respDef .Wx .z (layout (par : ℤ) red) a).im
      = ∑ k ∈ Finset.range red.length, (chebCoefs par red).getD k 0 *
          (Polynomial.Chebyshev.T ℝ ((2 * k + par : ℕ) : ℤ)).eval a := by
  obtain ⟨θ, hθ, rfl⟩ := exists_theta_of_mem_Icc a ha
  rw [resp_im_eq_cosGenR par hpar red hr θ hθ, cosGenR_T]

/-- uniqueness: ANY list of `d` coefficients that expands `Im <0|U_x(cos θ)|0>` on the upper
    half circle is `chebCoefs par red` — the choice of definition is immaterial -/
theorem chebCoefs_unique (par : ℕ) (hpar : par ≤ 1) (red : List ℝ) (hr : red ≠ []) (c : List ℝ)
    (hlen : c.length = red.length)
    (h : ∀ θ : ℝ, 0 ≤ Real.sin θ →
      (respDef .Wx .z (layout (par : ℤ) red) (Real.cos θ)).im = cosGenR par red.length c θ) :
    c = chebCoefs par red := by
  have hall : ∀ θ : ℝ, cosGenR par red.length c θ = respIm par red θ := by
    intro θ
    by_cases hθ : 0 ≤ Real.sin θ
    · rw [respIm_eq_respDef par red θ hθ, h θ hθ]
    · have hθ' : 0 ≤ Real.sin (-θ) := by rw [Real.sin_neg]; linarith
      rw [respIm_eq_cosGenR par hpar red hr, ← cosGenR_neg par _ c, ← cosGenR_neg par _ (chebCoefs par red),
        ← respIm_eq_cosGenR par hpar red hr, respIm_eq_respDef par red (-θ) hθ', h (-θ) hθ']
  apply List.ext_getElem (by rw [hlen, chebCoefs_length])
  intro m h1 h2
  have hm : m < red.length := hlen ▸ h1
  rw [← List.getD_eq_getElem _ 0 h1, ← List.getD_eq_getElem _ 0 h2,
    ← cosGenR_coef par red.length hpar c m hm, chebCoefs, coefList_getD _ _ _ _ hm]
  exact cosCoefF_congr par red.length _ _ hall m

/-- the same for the derivative: ANY list of `d` coefficients that expands the true partial
    derivative function on the upper half circle is `dCoefs par red j` -/
theorem dCoefs_unique (par : ℕ) (hpar : par ≤ 1) (red : List ℝ) (hr : red ≠ []) (j : ℕ)
    (c : List ℝ) (hlen : c.length = red.length)
    (h : ∀ θ : ℝ, 0 ≤ Real.sin θ → dRespIm par red j θ = cosGenR par red.length c θ) :
    c = dCoefs par red j := by
  have hall : ∀ θ : ℝ, cosGenR par red.length c θ = dRespIm par red j θ := by
    intro θ
    by_cases hθ : 0 ≤ Real.sin θ
    · rw [h θ hθ]
    · have hθ' : 0 ≤ Real.sin (-θ) := by rw [Real.sin_neg]; linarith
      rw [dRespIm_eq_cosGenR par hpar red hr, ← cosGenR_neg par _ c,
        ← cosGenR_neg par _ (dCoefs par red j), ← dRespIm_eq_cosGenR par hpar red hr, h (-θ) hθ']
  apply List.ext_getElem (by rw [hlen, dCoefs_length])
  intro m h1 h2
  have hm : m < red.length := hlen ▸ h1
  rw [← List.getD_eq_getElem _ 0 h1, ← List.getD_eq_getElem _ 0 h2,
    ← cosGenR_coef par red.length hpar c m hm, dCoefs, coefList_getD _ _ _ _ hm]
  exact cosCoefF_congr par red.length _ _ hall m

/-- G1, the derivative function against the definition of the response: for `θ` on the upper
    half circle the true partial derivative of `Im <0|U_x(cos θ)|0>` with respect to reduced
    phase `j` is the cosine series of `dCoefs par red j` -/
theorem hasDerivAt_resp_im_cosGenR (par : ℕ) (hpar : par ≤ 1) (red : List ℝ) (j : ℕ)
    (hj : j < red.length) (θ : ℝ) (hθ : 0 ≤ Real.sin θ) :
    HasDerivAt (fun t => (respDef .Wx .z (layout (par : ℤ) (red.set j t)) (Real.cos θ)).im)
      (cosGenR par red.length (dCoefs par red j) θ) (red.getD j 0) := by
  have hr : red ≠ [] := ne_nil_of_lt_length hj
  rw [← dRespIm_eq_cosGenR par hpar red hr]
  exact hasDerivAt_resp_layout_im_pairs θ hθ par red j hj

/-- G1, MAIN: every Chebyshev coefficient of `Im <0|U_x(a)|0>` is differentiable in each reduced
    phase, and its partial derivative is the corresponding Chebyshev coefficient of the partial
    derivative function -/
theorem hasDerivAt_chebCoefs (par : ℕ) (red : List ℝ) (j : ℕ) (hj : j < red.length) (m : ℕ) :
    HasDerivAt (fun t => (chebCoefs par (red.set j t)).getD m 0) ((dCoefs par red j).getD m 0)
      (red.getD j 0) := by
  by_cases hm : m < red.length
  · have e : (fun t => (chebCoefs par (red.set j t)).getD m 0)
        = fun t => cosCoefF par red.length (respIm par (red.set j t)) m := by
      funext t
      unfold chebCoefs
      rw [List.length_set, coefList_getD _ _ _ _ hm]
    rw [e, dCoefs, coefList_getD _ _ _ _ hm]
    exact hasDerivAt_cosCoefF par red.length (fun t => respIm par (red.set j t)) (dRespIm par red j)
      (red.getD j 0) (fun θ => hasDerivAt_respIm par red j hj θ) m
  · have hm' : red.length ≤ m := by omega
    have e : (fun t => (chebCoefs par (red.set j t)).getD m 0) = fun _ => (0 : ℝ) := by
      funext t
      unfold chebCoefs
      rw [List.length_set, coefList_getD_of_le _ _ _ _ hm']
    rw [e, dCoefs, coefList_getD_of_le _ _ _ _ hm']
    exact hasDerivAt_const _ _

/-! ## 6. perturbation of the product over arbitrary pairs (towards G2) -/

/-- the enclosure centre of the DERIVATIVE pair `(−sin φ, cos φ)`: the same radius and norm bound
    as for `(cos φ, sin φ)` (`rot_encl`), since `(−sin φ, cos φ)` is again a unit pair -/
theorem drot_encl (bits : ℕ) (q : ℚ) :
    ‖rotC (-((Real.sin (q : ℝ) : ℝ) : ℂ)) ((Real.cos (q : ℝ) : ℝ) : ℂ)
        - rotC (-(((trigEncl q bits).s : ℝ) : ℂ)) (((trigEncl q bits).c : ℝ) : ℂ)‖
      ≤ ((2 * (trigEncl q bits).δ : ℚ) : ℝ) ∧
    ‖rotC (-(((trigEncl q bits).s : ℝ) : ℂ)) (((trigEncl q bits).c : ℝ) : ℂ)‖
      ≤ ((1 + 2 * (trigEncl q bits).δ : ℚ) : ℝ) := by
  obtain ⟨hc, hs⟩ := trigEncl_sound q bits
  have hunit : ‖rotC (-((Real.sin (q : ℝ) : ℝ) : ℂ)) ((Real.cos (q : ℝ) : ℝ) : ℂ)‖ ≤ 1 := by
    have h := norm_rotC_unit ((q : ℝ) + Real.pi / 2)
    rw [Real.cos_add_pi_div_two, Real.sin_add_pi_div_two] at h
    simpa using h
  have h1 : ‖rotC (-((Real.sin (q : ℝ) : ℝ) : ℂ)) ((Real.cos (q : ℝ) : ℝ) : ℂ)
        - rotC (-(((trigEncl q bits).s : ℝ) : ℂ)) (((trigEncl q bits).c : ℝ) : ℂ)‖
      ≤ 2 * ((trigEncl q bits).δ : ℝ) := by
    rw [rotC_sub]
    refine (norm_rotC_le _ _).trans ?_
    rw [← neg_sub', norm_neg, ← Complex.ofReal_sub, ← Complex.ofReal_sub, Complex.norm_real,
      Complex.norm_real, Real.norm_eq_abs, Real.norm_eq_abs]
    linarith
  have c1 : ((2 * (trigEncl q bits).δ : ℚ) : ℝ) = 2 * ((trigEncl q bits).δ : ℝ) := by
    push_cast; ring
  have c2 : ((1 + 2 * (trigEncl q bits).δ : ℚ) : ℝ) = 1 + 2 * ((trigEncl q bits).δ : ℝ) := by
    push_cast; ring
  rw [c1, c2]
  refine ⟨h1, ?_⟩
  have e : rotC (-(((trigEncl q bits).s : ℝ) : ℂ)) (((trigEncl q bits).c : ℝ) : ℂ)
      = rotC (-((Real.sin (q : ℝ) : ℝ) : ℂ)) ((Real.cos (q : ℝ) : ℝ) : ℂ)
        - (rotC (-((Real.sin (q : ℝ) : ℝ) : ℂ)) ((Real.cos (q : ℝ) : ℝ) : ℂ)
            - rotC (-(((trigEncl q bits).s : ℝ) : ℂ)) (((trigEncl q bits).c : ℝ) : ℂ)) := by
    abel
  rw [e]
  refine (norm_sub_le _ _).trans ?_
  linarith

/-- an entry `(exact pair, approximate pair, α, η)` with `‖R(approx)‖ ≤ α`,
    `‖R(exact) − R(approx)‖ ≤ η` -/
def QuadOK (e : (ℂ × ℂ) × (ℂ × ℂ) × ℚ × ℚ) : Prop :=
  ‖rotC e.2.1.1 e.2.1.2‖ ≤ ((e.2.2.1 : ℚ) : ℝ) ∧
    ‖rotC e.1.1 e.1.2 - rotC e.2.1.1 e.2.1.2‖ ≤ ((e.2.2.2 : ℚ) : ℝ)

/-- `Ucirc_err` for ARBITRARY pairs: the product over the exact pairs against the product over
    the approximate pairs, at any point of the circle, is bounded by `prodErr` of the `(α, η)` -/
theorem UcircPairs_err (θ : ℝ) (L : List ((ℂ × ℂ) × (ℂ × ℂ) × ℚ × ℚ)) (hL : ∀ e ∈ L, QuadOK e)
    (hne : L ≠ []) :
    ‖UcircPairs θ (L.map (fun e => e.1)) - UcircPairs θ (L.map (fun e => e.2.1))‖
      ≤ (((prodErr (L.map (fun e => e.2.2)) (1, 0)).2 : ℚ) : ℝ) := by
  cases L with
  | nil => exact absurd rfl hne
  | cons e0 es =>
    obtain ⟨hP0, hE0⟩ := hL e0 (by simp)
    let l : List (M22 × M22 × ℚ × ℚ) := es.map (fun e =>
      (wC θ * rotC e.1.1 e.1.2, wC θ * rotC e.2.1.1 e.2.1.2, e.2.2.1, e.2.2.2))
    have hl : ∀ x ∈ l, ‖x.2.1‖ ≤ ((x.2.2.1 : ℚ) : ℝ) ∧ ‖x.1 - x.2.1‖ ≤ ((x.2.2.2 : ℚ) : ℝ) := by
      intro x hx
      obtain ⟨e, he, rfl⟩ := List.mem_map.mp hx
      obtain ⟨h1, h2⟩ := hL e (by simp [he])
      have hw := norm_wC θ
      constructor
      · calc ‖wC θ * rotC e.2.1.1 e.2.1.2‖ ≤ ‖wC θ‖ * ‖rotC e.2.1.1 e.2.1.2‖ := norm_mul_le _ _
          _ ≤ 1 * ((e.2.2.1 : ℚ) : ℝ) := mul_le_mul hw h1 (norm_nonneg _) zero_le_one
          _ = _ := one_mul _
      · show ‖wC θ * rotC e.1.1 e.1.2 - wC θ * rotC e.2.1.1 e.2.1.2‖ ≤ _
        rw [← Matrix.mul_sub]
        calc ‖wC θ * (rotC e.1.1 e.1.2 - rotC e.2.1.1 e.2.1.2)‖
            ≤ ‖wC θ‖ * ‖rotC e.1.1 e.1.2 - rotC e.2.1.1 e.2.1.2‖ := norm_mul_le _ _
          _ ≤ 1 * ((e.2.2.2 : ℚ) : ℝ) := mul_le_mul hw h2 (norm_nonneg _) zero_le_one
          _ = _ := one_mul _
    have key := prodErr_sound l hl (rotC e0.1.1 e0.1.2) (rotC e0.2.1.1 e0.2.1.2)
      e0.2.2.1 e0.2.2.2 hP0 hE0
    have e1 : l.foldl (fun acc e => acc * e.1) (rotC e0.1.1 e0.1.2)
        = UcircPairs θ ((e0 :: es).map (fun e => e.1)) := by
      simp only [l, UcircPairs, List.map_cons, List.foldl_map]
    have e2 : l.foldl (fun acc e => acc * e.2.1) (rotC e0.2.1.1 e0.2.1.2)
        = UcircPairs θ ((e0 :: es).map (fun e => e.2.1)) := by
      simp only [l, UcircPairs, List.map_cons, List.foldl_map]
    have e3 : prodErr ((e0 :: es).map (fun e => e.2.2)) (1, 0)
        = prodErr (l.map (fun e => (e.2.2.1, e.2.2.2))) (e0.2.2.1, e0.2.2.2) := by
      have : ((e0 :: es).map (fun e => e.2.2)) = (e0.2.2.1, e0.2.2.2) :: es.map (fun e => e.2.2) := rfl
      rw [this, prodErr_cons]
      simp only [l, List.map_map, one_mul, zero_mul, zero_add]
      rfl
    rw [e1, e2] at key
    rw [e3]
    exact key.2.1

/-! ## 7. the enclosure-centre pairs of `jacSpec` against the exact pairs -/

/-- the palindromic layout commutes with the cast `ℚ → ℝ` -/
theorem layout_map_cast (par : ℕ) (reduced : List ℚ) :
    layout (par : ℤ) (reduced.map (fun q : ℚ => (q : ℝ)))
      = (layout (par : ℤ) reduced).map (fun q : ℚ => (q : ℝ)) := by
  unfold layout
  split_ifs with h
  · simp [List.map_reverse]
  · cases reduced with
    | nil => rfl
    | cons x rest =>
      simp only [List.map_cons, List.map_append, List.map_reverse, List.map_nil]
      congr 3
      simp only [two]
      push_cast
      rfl

/-- exact pair, centre pair, `(α, η)` for one rational phase -/
noncomputable def jquad (bits : ℕ) (q : ℚ) : (ℂ × ℂ) × (ℂ × ℂ) × ℚ × ℚ :=
  (prC (q : ℝ), castP (trigEncl q bits).pair, (trigEncl q bits).rotBound)

/-- the same for the derivative pair -/
noncomputable def jdquad (bits : ℕ) (q : ℚ) : (ℂ × ℂ) × (ℂ × ℂ) × ℚ × ℚ :=
  (dprC (q : ℝ), (-(castP (trigEncl q bits).pair).2, (castP (trigEncl q bits).pair).1),
    (trigEncl q bits).rotBound)

theorem jquad_ok (bits : ℕ) (q : ℚ) : QuadOK (jquad bits q) := by
  obtain ⟨h1, h2⟩ := rot_encl bits q
  exact ⟨h2, h1⟩

theorem jdquad_ok (bits : ℕ) (q : ℚ) : QuadOK (jdquad bits q) := by
  obtain ⟨h1, h2⟩ := drot_encl bits q
  exact ⟨h2, h1⟩

theorem jquad_map_exact (bits : ℕ) (full : List ℚ) :
    (full.map (jquad bits)).map (fun e => e.1) = (full.map (fun q : ℚ => (q : ℝ))).map prC := by
  simp only [List.map_map]; rfl

theorem jquad_map_centre (par bits : ℕ) (reduced : List ℚ) :
    ((layout (par : ℤ) reduced).map (jquad bits)).map (fun e => e.2.1)
      = specPairs par bits reduced := by
  simp only [specPairs, enclList, List.map_map]; rfl

theorem jquad_map_bound (bits : ℕ) (full : List ℚ) :
    (full.map (jquad bits)).map (fun e => e.2.2) = (enclList bits full).map Encl.rotBound := by
  simp only [enclList, List.map_map]; rfl

/-- pointwise, VALUE: at every point of the circle the product over the enclosure centres is
    within `jacErrPt` of the product over the exact pairs -/
theorem specPairs_err (par bits : ℕ) (reduced : List ℚ) (hr : reduced ≠ []) (θ : ℝ) :
    ‖UcircPairs θ (((layout (par : ℤ) reduced).map (fun q : ℚ => (q : ℝ))).map prC)
        - UcircPairs θ (specPairs par bits reduced)‖ ≤ ((jacErrPt par bits reduced : ℚ) : ℝ) := by
  have hne : (layout (par : ℤ) reduced).map (jquad bits) ≠ [] := by
    intro h
    have h' := congrArg List.length h
    rw [List.length_map] at h'
    cases reduced with
    | nil => exact hr rfl
    | cons x rest =>
      unfold layout at h'
      split_ifs at h' <;> simp at h'
  have := UcircPairs_err θ ((layout (par : ℤ) reduced).map (jquad bits))
    (fun e he => by obtain ⟨q, _, rfl⟩ := List.mem_map.mp he; exact jquad_ok bits q) hne
  rwa [jquad_map_exact, jquad_map_centre, jquad_map_bound] at this

/-- pointwise, ONE DERIVATIVE FACTOR: the same bound with the pair at `pos` replaced, on both
    sides, by the derivative pair `(c, s) ↦ (−s, c)` -/
theorem specPairs_set_err (par bits : ℕ) (reduced : List ℚ) (pos : ℕ)
    (hpos : pos < (layout (par : ℤ) reduced).length) (θ : ℝ) :
    ‖UcircPairs θ ((((layout (par : ℤ) reduced).map (fun q : ℚ => (q : ℝ))).map prC).set pos
          (-((((layout (par : ℤ) reduced).map (fun q : ℚ => (q : ℝ))).map prC).getD pos (1, 0)).2,
            ((((layout (par : ℤ) reduced).map (fun q : ℚ => (q : ℝ))).map prC).getD pos (1, 0)).1))
        - UcircPairs θ ((specPairs par bits reduced).set pos
          (-((specPairs par bits reduced).getD pos (1, 0)).2,
            ((specPairs par bits reduced).getD pos (1, 0)).1))‖
      ≤ ((jacErrPt par bits reduced : ℚ) : ℝ) := by
  set full := layout (par : ℤ) reduced with hfull
  set L' := (full.map (jquad bits)).set pos (jdquad bits full[pos]) with hL'
  have hne : L' ≠ [] := by
    intro h
    have h' := congrArg List.length h
    rw [hL', List.length_set, List.length_map] at h'
    simp only [List.length_nil] at h'
    omega
  have hok : ∀ e ∈ L', QuadOK e := by
    intro e he
    rcases List.mem_or_eq_of_mem_set he with h | rfl
    · obtain ⟨q, _, rfl⟩ := List.mem_map.mp h; exact jquad_ok bits q
    · exact jdquad_ok bits _
  have key := UcircPairs_err θ L' hok hne
  have e1 : L'.map (fun e => e.1)
      = ((full.map (fun q : ℚ => (q : ℝ))).map prC).set pos
          (-(((full.map (fun q : ℚ => (q : ℝ))).map prC).getD pos (1, 0)).2,
            (((full.map (fun q : ℚ => (q : ℝ))).map prC).getD pos (1, 0)).1) := by
    rw [hL', List.map_set, jquad_map_exact,
      List.getD_eq_getElem _ _ (by simpa using hpos)]
    simp only [List.getElem_map]
    rfl
  have e2 : L'.map (fun e => e.2.1)
      = (specPairs par bits reduced).set pos
          (-((specPairs par bits reduced).getD pos (1, 0)).2,
            ((specPairs par bits reduced).getD pos (1, 0)).1) := by
    have hS : specPairs par bits reduced = (full.map (jquad bits)).map (fun e => e.2.1) :=
      (jquad_map_centre par bits reduced).symm
    rw [hL', List.map_set, hS, List.getD_eq_getElem _ _ (by simpa using hpos)]
    simp only [List.getElem_map]
    rfl
  have e3 : L'.map (fun e => e.2.2) = (enclList bits full).map Encl.rotBound := by
    rw [hL', List.map_set, jquad_map_bound]
    have : (jdquad bits full[pos]).2.2 = ((enclList bits full).map Encl.rotBound)[pos]'(by
        simpa [enclList] using hpos) := by
      simp only [enclList, List.getElem_map]; rfl
    rw [this, List.set_getElem_self]
  rw [e1, e2, e3] at key
  exact key

/-! ## 8. quantitative enclosure of `jacSpec` (G2) -/

theorem abs_im_brG_sub_le (A B : M22) : |(brG .x A).im - (brG .x B).im| ≤ ‖A - B‖ := by
  rw [← Complex.sub_im, ← brG_sub]
  exact (Complex.abs_im_le_norm _).trans (norm_bracket_le _ .x)

/-- POINTWISE, value: the centre functional against the exact one, at every point of the circle -/
theorem jacSpec_value_pt (par bits : ℕ) (reduced : List ℚ) (hr : reduced ≠ []) (θ : ℝ) :
    |(brG .x (UcircPairs θ (specPairs par bits reduced))).im
        - respIm par (reduced.map (fun q : ℚ => (q : ℝ))) θ|
      ≤ ((jacErrPt par bits reduced : ℚ) : ℝ) := by
  unfold respIm
  rw [layout_map_cast, Ucirc_eq_pairs]
  refine (abs_im_brG_sub_le _ _).trans ?_
  rw [norm_sub_rev]
  exact specPairs_err par bits reduced hr θ

/-- a chain-weighted sum of one-derivative-factor products: centre against exact -/
theorem jacD_list_err (θ : ℝ) (S X : List (ℂ × ℂ)) (E : ℝ) (pks : List (ℕ × ℚ))
    (h : ∀ pk ∈ pks,
      ‖UcircPairs θ (X.set pk.1 (-(X.getD pk.1 (1, 0)).2, (X.getD pk.1 (1, 0)).1))
        - UcircPairs θ (S.set pk.1 (-(S.getD pk.1 (1, 0)).2, (S.getD pk.1 (1, 0)).1))‖ ≤ E) :
    ‖(pks.map (fun pk : ℕ × ℚ => (((pk.2 : ℚ) : ℝ) : ℂ) •
          UcircPairs θ (S.set pk.1 (-(S.getD pk.1 (1, 0)).2, (S.getD pk.1 (1, 0)).1)))).sum
      - (pks.map (fun pk : ℕ × ℚ => (((pk.2 : ℚ) : ℝ) : ℂ) •
          UcircPairs θ (X.set pk.1 (-(X.getD pk.1 (1, 0)).2, (X.getD pk.1 (1, 0)).1)))).sum‖
      ≤ (pks.map (fun pk : ℕ × ℚ => |((pk.2 : ℚ) : ℝ)|)).sum * E := by
  induction pks with
  | nil => simp
  | cons pk pks ih =>
    have h0 := h pk (by simp)
    have ih' := ih (fun x hx => h x (List.mem_cons_of_mem _ hx))
    simp only [List.map_cons, List.sum_cons]
    rw [add_sub_add_comm, add_mul]
    refine (norm_add_le _ _).trans (add_le_add ?_ ih')
    rw [← smul_sub, norm_smul, Complex.norm_real, Real.norm_eq_abs, norm_sub_rev]
    exact mul_le_mul_of_nonneg_left h0 (abs_nonneg _)

/-- the chain factors of one reduced phase add up to `2` -/
theorem positions_weight (par d j : ℕ) :
    ((positions par d j).map (fun pk : ℕ × ℚ => |((pk.2 : ℚ) : ℝ)|)).sum = 2 := by
  unfold positions
  split_ifs <;> simp <;> norm_num

/-- POINTWISE, column `j`: the centre product-rule functional against the exact one (the true
    partial derivative), at every point of the circle — `2 E`, the chain factors adding up to 2 -/
theorem jacSpec_col_pt (par bits : ℕ) (hpar : par ≤ 1) (reduced : List ℚ) (j : ℕ)
    (hj : j < reduced.length) (θ : ℝ) :
    |(brG .x (jacDPairs θ par reduced.length (specPairs par bits reduced) j)).im
        - dRespIm par (reduced.map (fun q : ℚ => (q : ℝ))) j θ|
      ≤ 2 * ((jacErrPt par bits reduced : ℚ) : ℝ) := by
  have hr : reduced ≠ [] := ne_nil_of_lt_length hj
  unfold dRespIm
  rw [layout_map_cast, List.length_map]
  refine (abs_im_brG_sub_le _ _).trans ?_
  unfold jacDPairs
  have hlen := layout_length_par par hpar reduced hr
  have := jacD_list_err θ (specPairs par bits reduced)
    (((layout (par : ℤ) reduced).map (fun q : ℚ => (q : ℝ))).map prC)
    ((jacErrPt par bits reduced : ℚ) : ℝ) (positions par reduced.length j)
    (fun pk hpk => specPairs_set_err par bits reduced pk.1
      (by have := positions_valid par reduced.length j hpar hj pk hpk; omega) θ)
  rwa [positions_weight] at this

theorem getD_map_ratCast (l : List ℚ) (m : ℕ) :
    (l.map (fun q : ℚ => (q : ℝ))).getD m 0 = ((l.getD m 0 : ℚ) : ℝ) := by
  have := List.getD_map (l := l) (d := (0 : ℚ)) (n := m) (fun q : ℚ => (q : ℝ))
  rwa [Rat.cast_zero] at this

/-- a rational coefficient list read back by the functional -/
theorem cosCoefF_cosGen (par d : ℕ) (hpar : par ≤ 1) (c : List ℚ) (m : ℕ) (hm : m < d) :
    cosCoefF par d (cosGen par d c) m = ((c.getD m 0 : ℚ) : ℝ) := by
  rw [cosCoefF_congr par d _ _ (cosGen_eq_cosGenR par d c) m, cosGenR_coef par d hpar _ m hm,
    getD_map_ratCast]

theorem jacErrPt_nonneg (par bits : ℕ) (reduced : List ℚ) (hr : reduced ≠ []) :
    0 ≤ ((jacErrPt par bits reduced : ℚ) : ℝ) :=
  (norm_nonneg _).trans (specPairs_err par bits reduced hr 0)

/-- G2, value part, sharp form `2 E` -/
theorem jacSpec_value_err' (par : ℕ) (hpar : par ≤ 1) (bits : ℕ) (reduced f : List ℚ)
    (cols : List (List ℚ)) (h : jacSpec par bits reduced = .ok (f, cols)) (m : ℕ)
    (hm : m < reduced.length) :
    |((f.getD m 0 : ℚ) : ℝ) - (chebCoefs par (reduced.map (fun q : ℚ => (q : ℝ)))).getD m 0|
      ≤ 2 * ((jacErrPt par bits reduced : ℚ) : ℝ) := by
  have hr : reduced ≠ [] := ne_nil_of_lt_length hm
  obtain ⟨-, -, hf, -⟩ := jacSpec_spec par hpar bits reduced f cols h
  unfold chebCoefs
  rw [List.length_map, coefList_getD _ _ _ _ hm, ← cosCoefF_cosGen par _ hpar f m hm,
    ← cosCoefF_sub]
  refine abs_cosCoefF_le par _ _ _ (fun θ => ?_) m
  rw [← hf θ]
  exact jacSpec_value_pt par bits reduced hr θ

/-- G2, column part -/
theorem jacSpec_col_err (par : ℕ) (hpar : par ≤ 1) (bits : ℕ) (reduced f : List ℚ)
    (cols : List (List ℚ)) (h : jacSpec par bits reduced = .ok (f, cols)) (j : ℕ)
    (hj : j < reduced.length) (m : ℕ) (hm : m < reduced.length) :
    |(((cols.getD j []).getD m 0 : ℚ) : ℝ)
        - (dCoefs par (reduced.map (fun q : ℚ => (q : ℝ))) j).getD m 0|
      ≤ ((jacErr par bits reduced : ℚ) : ℝ) := by
  obtain ⟨-, -, -, hc⟩ := jacSpec_spec par hpar bits reduced f cols h
  obtain ⟨-, hcj⟩ := hc j hj
  unfold dCoefs
  rw [List.length_map, coefList_getD _ _ _ _ hm, ← cosCoefF_cosGen par _ hpar _ m hm,
    ← cosCoefF_sub]
  have e : ((jacErr par bits reduced : ℚ) : ℝ) = 2 * (2 * ((jacErrPt par bits reduced : ℚ) : ℝ)) := by
    unfold jacErr; push_cast; ring
  rw [e]
  refine abs_cosCoefF_le par _ _ _ (fun θ => ?_) m
  rw [← hcj θ]
  exact jacSpec_col_pt par bits hpar reduced j hj θ

/-- G2, value part -/
theorem jacSpec_value_err (par : ℕ) (hpar : par ≤ 1) (bits : ℕ) (reduced f : List ℚ)
    (cols : List (List ℚ)) (h : jacSpec par bits reduced = .ok (f, cols)) (m : ℕ)
    (hm : m < reduced.length) :
    |((f.getD m 0 : ℚ) : ℝ) - (chebCoefs par (reduced.map (fun q : ℚ => (q : ℝ)))).getD m 0|
      ≤ ((jacErr par bits reduced : ℚ) : ℝ) := by
  have hr : reduced ≠ [] := ne_nil_of_lt_length hm
  refine (jacSpec_value_err' par hpar bits reduced f cols h m hm).trans ?_
  have := jacErrPt_nonneg par bits reduced hr
  unfold jacErr
  push_cast
  linarith

/-! ## 9. G1 and G2 combined; a closed-form instance -/

/-- HEADLINE: entry `(j, m)` of the column list of `jacSpec` is within `jacErr` of the TRUE
    partial derivative, with respect to reduced phase `j`, of the TRUE Chebyshev coefficient
    `c_{2m+par}` of `Im <0|U_x(a)|0>` -/
theorem jacSpec_col_deriv (par : ℕ) (hpar : par ≤ 1) (bits : ℕ) (reduced f : List ℚ)
    (cols : List (List ℚ)) (h : jacSpec par bits reduced = .ok (f, cols)) (j : ℕ)
    (hj : j < reduced.length) (m : ℕ) (hm : m < reduced.length) :
    |(((cols.getD j []).getD m 0 : ℚ) : ℝ)
        - deriv (fun t : ℝ =>
            (chebCoefs par ((reduced.map (fun q : ℚ => (q : ℝ))).set j t)).getD m 0)
          ((reduced.getD j 0 : ℚ) : ℝ)|
      ≤ ((jacErr par bits reduced : ℚ) : ℝ) := by
  have hd := hasDerivAt_chebCoefs par (reduced.map (fun q : ℚ => (q : ℝ))) j
    (by simpa using hj) m
  rw [getD_map_ratCast] at hd
  rw [hd.deriv]
  exact jacSpec_col_err par hpar bits reduced f cols h j hj m hm

/-- closed form for ONE reduced phase, odd class: the full list is `[φ, φ]`,
    `<0|U_x(a)|0> = e^{2iφ} a`, so `Im <+|Ucirc θ [φ, φ]|+> = sin(2φ) cos θ` -/
theorem respIm_one_odd (φ θ : ℝ) : respIm 1 [φ] θ = Real.sin (2 * φ) * Real.cos θ := by
  have h1 : layout ((1 : ℕ) : ℤ) [φ] = [φ, φ] := by simp [layout]
  have hw : exp ((θ : ℂ) * I) + exp (-((θ : ℂ) * I)) = ((2 * Real.cos θ : ℝ) : ℂ) := by
    have := Complex.two_cos (θ : ℂ)
    rw [neg_mul] at this
    rw [← this]
    push_cast
    ring
  unfold respIm
  rw [h1, QSP.brG_x]
  simp only [Ucirc, List.foldl_cons, List.foldl_nil, rotC, wC, Matrix.mul_apply, Fin.sum_univ_two,
    Matrix.of_apply, Matrix.cons_val', Matrix.cons_val_zero, Matrix.cons_val_one,
    Matrix.empty_val', Matrix.cons_val_fin_one]
  have e : ∀ (c s w w' : ℂ),
      1 / 2 * (c * (w * c + 0 * (I * s)) + I * s * (0 * c + w' * (I * s))
          + (c * (w * (I * s) + 0 * c) + I * s * (0 * (I * s) + w' * c))
          + (I * s * (w * c + 0 * (I * s)) + c * (0 * c + w' * (I * s)))
          + (I * s * (w * (I * s) + 0 * c) + c * (0 * (I * s) + w' * c)))
        = (1 / 2) * ((c * c + (I * I) * (s * s)) + 2 * c * s * I) * (w + w') := by
    intro c s w w'; ring
  rw [e, hw, Complex.I_mul_I, Real.sin_two_mul]
  simp
  rw [Complex.cos_ofReal_re, Complex.sin_ofReal_re, Complex.cos_ofReal_re]
  ring

/-- … hence `chebCoefs 1 [φ] = [sin 2φ]` -/
theorem chebCoefs_one_odd (φ : ℝ) : chebCoefs 1 [φ] = [Real.sin (2 * φ)] := by
  have h : ∀ θ, respIm 1 [φ] θ = cosGenR 1 1 [Real.sin (2 * φ)] θ := by
    intro θ
    rw [respIm_one_odd]
    simp [cosGenR]
  unfold chebCoefs coefList
  simp only [List.length_cons, List.length_nil, List.range_succ, List.range_zero, List.nil_append,
    List.map_cons, List.map_nil]
  rw [cosCoefF_congr 1 1 _ _ h 0, cosGenR_coef 1 1 le_rfl _ 0 (by norm_num)]
  rfl

/-- … and `dCoefs 1 [φ] 0 = [2 cos 2φ]`, obtained from the general derivative theorem -/
theorem dCoefs_one_odd (φ : ℝ) : dCoefs 1 [φ] 0 = [2 * Real.cos (2 * φ)] := by
  have h1 := hasDerivAt_chebCoefs 1 [φ] 0 (by simp) 0
  have e : (fun t : ℝ => (chebCoefs 1 ([φ].set 0 t)).getD 0 0) = fun t => Real.sin (2 * t) := by
    funext t
    rw [List.set_cons_zero, chebCoefs_one_odd]
    rfl
  rw [e] at h1
  have h2 : HasDerivAt (fun t : ℝ => Real.sin (2 * t)) (2 * Real.cos (2 * φ)) φ := by
    have := ((hasDerivAt_id φ).const_mul (2 : ℝ)).sin
    simp only [id, mul_one] at this
    refine this.congr_deriv ?_
    ring
  have h3 : ([φ] : List ℝ).getD 0 0 = φ := rfl
  rw [h3] at h1
  have h4 := h1.unique h2
  have hl := dCoefs_length 1 [φ] 0
  match hd : dCoefs 1 [φ] 0, hl with
  | [x], _ =>
    rw [hd] at h4
    simp only [List.getD_cons_zero] at h4
    rw [h4]

/-- closed form for ONE reduced phase, even class: the full list is the doubled centre `[2φ]`,
    `<0|U_x(a)|0> = e^{2iφ}`, so `Im <+|Ucirc θ [2φ]|+> = sin(2φ)` -/
theorem respIm_one_even (φ θ : ℝ) : respIm 0 [φ] θ = Real.sin (2 * φ) := by
  have h1 : layout ((0 : ℕ) : ℤ) [φ] = [2 * φ] := by
    simp [layout, two]; norm_num
  unfold respIm
  rw [h1, QSP.brG_x]
  simp only [Ucirc, List.foldl_nil, rotC, Matrix.of_apply, Matrix.cons_val', Matrix.cons_val_zero,
    Matrix.cons_val_one, Matrix.empty_val', Matrix.cons_val_fin_one]
  have e : ∀ c s : ℂ, 1 / 2 * (c + I * s + I * s + c) = c + s * I := by intro c s; ring
  rw [e]
  simp only [Complex.add_im, Complex.ofReal_im, Complex.mul_im, Complex.ofReal_re, Complex.I_im,
    Complex.I_re]
  ring

/-- … hence `chebCoefs 0 [φ] = [sin 2φ]` (the coefficient of `T_0`) -/
theorem chebCoefs_one_even (φ : ℝ) : chebCoefs 0 [φ] = [Real.sin (2 * φ)] := by
  have h : ∀ θ, respIm 0 [φ] θ = cosGenR 0 1 [Real.sin (2 * φ)] θ := by
    intro θ
    rw [respIm_one_even]
    simp [cosGenR]
  unfold chebCoefs coefList
  simp only [List.length_cons, List.length_nil, List.range_succ, List.range_zero, List.nil_append,
    List.map_cons, List.map_nil]
  rw [cosCoefF_congr 0 1 _ _ h 0, cosGenR_coef 0 1 (by norm_num) _ 0 (by norm_num)]
  rfl

end QSP

/-
  Property C12 (Jacobian clause), algorithm level, part 1 — the list structure of the model
  `JacImpl.jacImplCore` (`QSP/Model/JacImpl.lean`) over an arbitrary commutative ring:
  entry `k < n` and entry `n` of the returned list are the middle components of explicit
  chains of the 3×3 maps (`vecU`), with no reference to the lists `L`, `R` any more.
-/
import QSP.Model.JacImpl
import Mathlib.Tactic.Ring
import Mathlib.Data.List.GetD
import Mathlib.Algebra.Ring.Defs

namespace QSP
namespace JacImpl
variable {R : Type} [CommRing R]

/-- the chain `v ↦ Rz(q_m)·B· … ·Rz(q_1)·B·v` -/
def vecU (B : Mat3 R) : V3 R → List (R × R) → V3 R
  | v, [] => v
  | v, q :: qs => vecU B (matVec (rzMat q) (matVec B v)) qs

/-- the chain `v ↦ B·Rz(q_m)· … ·B·Rz(q_1)·v` (what the columns of `R` hold) -/
def vecS (B : Mat3 R) : V3 R → List (R × R) → V3 R
  | v, [] => v
  | v, q :: qs => vecS B (matVec B (matVec (rzMat q) v)) qs

/-- the row `[0,1,0]·Rz(q_m)·B· … ·Rz(q_1)·B` as a recursion from the front -/
def lHead (B : Mat3 R) : List (R × R) → V3 R
  | [] => (0, 1, 0)
  | q :: qs => vecMat (vecMat (lHead B qs) (rzMat q)) B

theorem dot_vecMat (w : V3 R) (M : Mat3 R) (u : V3 R) :
    dot (vecMat w M) u = dot w (matVec M u) := by
  simp only [dot, vecMat, matVec]; ring

theorem dot_dbl3 (w u : V3 R) : dot (dbl3 w) u = two * dot w u := by
  simp only [dot, dbl3]; ring

theorem vecMat_dbl3 (w : V3 R) (M : Mat3 R) : vecMat (dbl3 w) M = dbl3 (vecMat w M) := by
  simp only [vecMat, dbl3]
  refine Prod.ext ?_ (Prod.ext ?_ ?_) <;> simp only <;> ring

theorem matVec_dbl3 (M : Mat3 R) (v : V3 R) : matVec M (dbl3 v) = dbl3 (matVec M v) := by
  simp only [matVec, dbl3]
  refine Prod.ext ?_ (Prod.ext ?_ ?_) <;> simp only <;> ring

theorem vecU_dbl3 (B : Mat3 R) (v : V3 R) (qs : List (R × R)) :
    vecU B (dbl3 v) qs = dbl3 (vecU B v qs) := by
  induction qs generalizing v with
  | nil => rfl
  | cons q qs ih => simp only [vecU, matVec_dbl3, ih]

theorem lRows_headD (B : Mat3 R) (qs : List (R × R)) :
    (lRows B qs).headD (0, 1, 0) = lHead B qs := by
  induction qs with
  | nil => rfl
  | cons q qs ih => simp only [lRows, List.headD_cons, lHead, ih]

theorem lRows_getD (B : Mat3 R) (qs : List (R × R)) (k : ℕ) :
    (lRows B qs).getD k (0, 1, 0) = lHead B (qs.drop k) := by
  induction qs generalizing k with
  | nil => cases k <;> simp [lRows, lHead]
  | cons q qs ih =>
    cases k with
    | zero =>
      have := lRows_headD B (q :: qs)
      simp only [lRows, List.headD_cons] at this
      simp only [lRows, List.getD_cons_zero, List.drop_zero, this]
    | succ k => simp only [lRows, List.getD_cons_succ, List.drop_succ_cons, ih]

theorem dot_lHead (B : Mat3 R) (qs : List (R × R)) (u : V3 R) :
    dot (lHead B qs) u = (vecU B u qs).2.1 := by
  induction qs generalizing u with
  | nil => simp only [lHead, dot, vecU]; ring
  | cons q qs ih => simp only [lHead, dot_vecMat, ih, vecU]

theorem rCols_length (B : Mat3 R) (v : V3 R) (ps : List (R × R)) :
    (rCols B v ps).length = ps.length := by
  induction ps generalizing v with
  | nil => rfl
  | cons p ps ih => simp only [rCols, List.length_cons, ih]

theorem rCols_getD (B : Mat3 R) (v : V3 R) (ps : List (R × R)) (k : ℕ) (hk : k < ps.length) :
    (rCols B v ps).getD k (0, 0, 0) = vecS B v (ps.take k) := by
  induction ps generalizing v k with
  | nil => simp at hk
  | cons p ps ih =>
    cases k with
    | zero => simp only [rCols, List.getD_cons_zero, List.take_zero, vecS]
    | succ k =>
      simp only [List.length_cons, Nat.add_lt_add_iff_right] at hk
      simp only [rCols, List.getD_cons_succ, List.take_succ_cons, vecS, ih _ _ hk]

theorem matVec_vecU (B : Mat3 R) (w : V3 R) (qs : List (R × R)) :
    matVec B (vecU B w qs) = vecS B (matVec B w) qs := by
  induction qs generalizing w with
  | nil => rfl
  | cons q qs ih => simp only [vecU, vecS, ih]

theorem vecU_append (B : Mat3 R) (w : V3 R) (qs rs : List (R × R)) :
    vecU B w (qs ++ rs) = vecU B (vecU B w qs) rs := by
  induction qs generalizing w with
  | nil => rfl
  | cons q qs ih => simp only [List.cons_append, vecU, ih]

theorem jacImplCore_length (B : Mat3 R) (r0 : V3 R) (pairs2 : List (R × R)) :
    (jacImplCore B r0 pairs2).length = pairs2.length + 1 := by
  simp [jacImplCore]

/-- entry `k < n`: twice the middle component of the chain in which `Rz(φ_k)` is replaced by the
    derivative matrix -/
theorem jacImplCore_getD_lt (B : Mat3 R) (w0 : V3 R) (pairs2 : List (R × R)) (k : ℕ)
    (hk : k < pairs2.length) :
    (jacImplCore B (matVec B w0) pairs2).getD k 0
      = (vecU B (dbl3 (matVec (dMat (pairs2.getD k (1, 0)))
          (matVec B (vecU B w0 (pairs2.take k))))) (pairs2.drop (k + 1))).2.1 := by
  unfold jacImplCore
  simp only
  rw [List.getD_append _ _ _ _ (by simpa using hk)]
  rw [List.getD_eq_getElem _ _ (by simpa using hk)]
  simp only [List.getElem_map, List.getElem_range]
  rw [lRows_getD, rCols_getD _ _ _ _ hk, vecMat_dbl3, dot_dbl3, dot_vecMat, dot_lHead,
    List.drop_tail, vecU_dbl3, matVec_vecU]
  simp only [dbl3]

/-- entry `n`: the middle component of the full chain -/
theorem jacImplCore_getD_last (B : Mat3 R) (w0 : V3 R) (pairs2 : List (R × R))
    (hn : pairs2 ≠ []) :
    (jacImplCore B (matVec B w0) pairs2).getD pairs2.length 0 = (vecU B w0 pairs2).2.1 := by
  have hpos : 0 < pairs2.length := List.length_pos_iff.mpr hn
  unfold jacImplCore
  simp only
  rw [List.getD_append_right _ _ _ _ (by simp)]
  simp only [List.length_map, List.length_range, Nat.sub_self, List.getD_cons_zero]
  rw [lRows_getD, rCols_getD _ _ _ _ (by omega), dot_vecMat, List.drop_tail,
    Nat.sub_add_cancel hpos, List.drop_length, lHead]
  conv_rhs => rw [← List.dropLast_concat_getLast hn, vecU_append]
  have hl : pairs2.getD (pairs2.length - 1) (1, 0) = pairs2.getLast hn := by
    rw [List.getD_eq_getElem _ _ (by omega), List.getLast_eq_getElem]
  rw [hl, List.dropLast_eq_take, ← matVec_vecU]
  simp only [vecU, dot]; ring

end JacImpl
end QSP

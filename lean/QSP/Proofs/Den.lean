/-
  Denotation of the list model in Mathlib's Laurent polynomials, and the basic list lemmas.
-/
import QSP.Model.LPoly
import Mathlib.Algebra.Polynomial.Laurent
import Mathlib.Tactic.Ring
import Mathlib.Tactic.Linarith
import Mathlib.Tactic.Push
open LaurentPolynomial
namespace QSP
variable {R : Type} [CommRing R]

/-- `sum_i C (cs[i]) * T (d + 2 i)` -/
noncomputable def denL : List R → ℤ → R[T;T⁻¹]
  | [], _ => 0
  | c :: cs, d => C c * T d + denL cs (d + 2)

/-- the Laurent polynomial denoted by a model value -/
noncomputable def den (p : LP R) : R[T;T⁻¹] := denL p.coefs p.dmin

@[simp] theorem denL_nil (d : ℤ) : denL ([] : List R) d = 0 := rfl
@[simp] theorem denL_cons (c : R) (cs : List R) (d : ℤ) :
    denL (c :: cs) d = C c * T d + denL cs (d + 2) := rfl

theorem denL_addL (a b : List R) (d : ℤ) : denL (addL a b) d = denL a d + denL b d := by
  induction a generalizing b d with
  | nil => simp [addL, denL]
  | cons x xs ih =>
    cases b with
    | nil => simp [addL, denL]
    | cons y ys => simp [addL, denL, ih, map_add]; ring

theorem denL_map_mul (x : R) (b : List R) (d : ℤ) :
    denL (b.map (x * ·)) d = C x * denL b d := by
  induction b generalizing d with
  | nil => simp [denL]
  | cons y ys ih => simp [denL, ih, map_mul]; ring

theorem denL_shift (b : List R) (d e : ℤ) : denL b (d + e) = T e * denL b d := by
  induction b generalizing d with
  | nil => simp [denL]
  | cons y ys ih =>
    simp only [denL]
    rw [show d + e + 2 = (d + 2) + e by ring, ih, T_add]; ring

theorem denL_convL (a b : List R) (d e : ℤ) :
    denL (convL a b) (d + e) = denL a d * denL b e := by
  induction a generalizing d with
  | nil => simp [convL, denL]
  | cons x xs ih =>
    simp only [convL, denL_addL, denL_map_mul, denL]
    rw [show d + e + 2 = (d + 2) + e by ring, ih]
    simp
    rw [show d + e = e + d by ring, denL_shift]; ring

/-! ### coefficients -/

theorem coeff_C_mul_T (c : R) (d k : ℤ) : (C c * T d : R[T;T⁻¹]).coeff k = if d = k then c else 0 := by
  rw [← single_eq_C_mul_T, AddMonoidAlgebra.coeff_single, Finsupp.single_apply]

theorem denL_coeff (l : List R) (d k : ℤ) :
    (denL l d).coeff k =
      if (k - d) % 2 = 0 ∧ 0 ≤ (k - d) / 2 ∧ (k - d) / 2 < l.length
      then l.getD ((k - d) / 2).toNat 0 else 0 := by
  induction l generalizing d with
  | nil => simp
  | cons c cs ih =>
    rw [denL_cons, AddMonoidAlgebra.coeff_add, Finsupp.add_apply, coeff_C_mul_T, ih]
    by_cases hk : d = k
    · subst hk
      simp
    · rw [if_neg hk, zero_add]
      by_cases h : (k - d) % 2 = 0 ∧ 0 ≤ (k - d) / 2 ∧ (k - d) / 2 < (c :: cs).length
      · have h' : (k - (d + 2)) % 2 = 0 ∧ 0 ≤ (k - (d + 2)) / 2 ∧ (k - (d + 2)) / 2 < cs.length := by
          simp only [List.length_cons] at h; push_cast at h; omega
        rw [if_pos h, if_pos h']
        have : ((k - d) / 2).toNat = ((k - (d + 2)) / 2).toNat + 1 := by omega
        rw [this, List.getD_cons_succ]
      · have h' : ¬ ((k - (d + 2)) % 2 = 0 ∧ 0 ≤ (k - (d + 2)) / 2 ∧ (k - (d + 2)) / 2 < cs.length) := by
          simp only [List.length_cons] at h; push_cast at h; omega
        rw [if_neg h, if_neg h']

theorem denL_coeff_ne_zero {l : List R} {d k : ℤ} (h : (denL l d).coeff k ≠ 0) :
    (k - d) % 2 = 0 ∧ d ≤ k ∧ k ≤ d + 2 * l.length - 2 := by
  rw [denL_coeff] at h
  split at h
  · omega
  · exact absurd rfl h

theorem denL_coeff_of_lt {l : List R} {d k : ℤ} (h : k < d) : (denL l d).coeff k = 0 := by
  by_contra hne; have := denL_coeff_ne_zero hne; omega

theorem denL_coeff_of_gt {l : List R} {d k : ℤ} (h : d + 2 * l.length - 2 < k) :
    (denL l d).coeff k = 0 := by
  by_contra hne; have := denL_coeff_ne_zero hne; omega

theorem denL_coeff_of_odd {l : List R} {d k : ℤ} (h : (k - d) % 2 ≠ 0) :
    (denL l d).coeff k = 0 := by
  by_contra hne; have := denL_coeff_ne_zero hne; omega

theorem denL_append (a b : List R) (d : ℤ) :
    denL (a ++ b) d = denL a d + denL b (d + 2 * a.length) := by
  induction a generalizing d with
  | nil => simp
  | cons x xs ih =>
    simp only [List.cons_append, denL_cons, ih, List.length_cons]
    push_cast
    rw [show d + 2 + 2 * (xs.length : ℤ) = d + 2 * ((xs.length : ℤ) + 1) by ring]
    ring

theorem denL_eq_zero_of_forall {l : List R} (h : ∀ x ∈ l, x = 0) (d : ℤ) : denL l d = 0 := by
  induction l generalizing d with
  | nil => simp
  | cons x xs ih =>
    have hx : x = 0 := h x (by simp)
    have := ih (fun y hy => h y (by simp [hy])) (d + 2)
    simp [hx, this]

theorem denL_replicate_zero (n : ℕ) (d : ℤ) : denL (List.replicate n (0 : R)) d = 0 :=
  denL_eq_zero_of_forall (fun _ hx => (List.mem_replicate.mp hx).2) d

theorem denL_zeros (n : ℕ) (d : ℤ) : denL (zeros n : List R) d = 0 := denL_replicate_zero n d

theorem denL_map_neg (l : List R) (d : ℤ) : denL (l.map (- ·)) d = - denL l d := by
  induction l generalizing d with
  | nil => simp
  | cons x xs ih => simp [ih]; ring

theorem denL_zipAdd (a b : List R) (d : ℤ) (h : a.length = b.length) :
    denL (zipAdd a b) d = denL a d + denL b d := by
  induction a generalizing b d with
  | nil => cases b with
    | nil => simp [zipAdd]
    | cons y ys => simp at h
  | cons x xs ih => cases b with
    | nil => simp at h
    | cons y ys =>
      simp only [List.length_cons, Nat.add_right_cancel_iff] at h
      have := ih ys (d + 2) h
      simp only [zipAdd] at this
      simp [zipAdd, this]; ring

theorem denL_reverse (l : List R) (d : ℤ) :
    denL l.reverse (-(2 * (l.length : ℤ) + d - 2)) = invert (denL l d) := by
  induction l generalizing d with
  | nil => simp
  | cons x xs ih =>
    have hA : -(2 * (((x :: xs).length : ℕ) : ℤ) + d - 2) = -(2 * (xs.length : ℤ) + (d + 2) - 2) := by
      simp only [List.length_cons]; push_cast; ring
    have hB : -(2 * (xs.length : ℤ) + (d + 2) - 2) + 2 * ((xs.reverse.length : ℕ) : ℤ) = -d := by
      simp only [List.length_reverse]; ring
    rw [List.reverse_cons, denL_append, hA, hB, ih (d + 2)]
    simp only [denL_cons, denL_nil, add_zero, map_add, map_mul, invert_C, invert_T]
    ring

theorem denL_take_coeff (l : List R) (n : ℕ) (d k : ℤ) :
    (denL (l.take n) d).coeff k = if k < d + 2 * n then (denL l d).coeff k else 0 := by
  have h := congrArg (fun f => f.coeff k) (denL_append (l.take n) (l.drop n) d)
  simp only [List.take_append_drop, AddMonoidAlgebra.coeff_add, Finsupp.add_apply] at h
  have hlen : (l.take n).length ≤ n := by simp
  split
  · rw [h]
    by_cases hn : n ≤ l.length
    · rw [denL_coeff_of_lt (l := l.drop n), add_zero]
      rw [List.length_take, Nat.min_eq_left hn]; omega
    · rw [List.drop_eq_nil_of_le (by omega)]; simp
  · rw [denL_coeff_of_gt]; omega

theorem denL_drop_coeff (l : List R) (n : ℕ) (d k : ℤ) :
    (denL (l.drop n) (d + 2 * n)).coeff k = if d + 2 * n ≤ k then (denL l d).coeff k else 0 := by
  have h := congrArg (fun f => f.coeff k) (denL_append (l.take n) (l.drop n) d)
  simp only [List.take_append_drop, AddMonoidAlgebra.coeff_add, Finsupp.add_apply] at h
  have hlen : (l.take n).length ≤ n := by simp
  by_cases hn : n ≤ l.length
  · have hl : ((l.take n).length : ℤ) = n := by rw [List.length_take, Nat.min_eq_left hn]
    rw [hl] at h
    split
    · rw [h, denL_coeff_of_gt (l := l.take n), zero_add]; omega
    · rw [denL_coeff_of_lt]; omega
  · rw [List.drop_eq_nil_of_le (by omega)]
    split
    · rw [denL_coeff_of_gt (l := l)]; simp; omega
    · simp

/-! ### evaluation and the squared norm -/

theorem npow_eq (x : R) (n : ℕ) : zpowWith.npow x n = x ^ n := by
  induction n with
  | zero => simp [zpowWith.npow]
  | succ n ih => simp [zpowWith.npow, ih, pow_succ]

theorem zpowWith_eq (u : Rˣ) (n : ℤ) : zpowWith (u : R) ((u⁻¹ : Rˣ) : R) n = ((u ^ n : Rˣ) : R) := by
  cases n with
  | ofNat n => simp [zpowWith, npow_eq]
  | negSucc n => simp [zpowWith, npow_eq, zpow_negSucc]

theorem evalL_eq (u : Rˣ) (l : List R) (d : ℤ) :
    evalL (u : R) ((u⁻¹ : Rˣ) : R) l d = LaurentPolynomial.eval₂ (RingHom.id R) u (denL l d) := by
  induction l generalizing d with
  | nil => simp [evalL]
  | cons c cs ih => simp [evalL, ih, zpowWith_eq]

theorem coeff_C_mul (c : R) (f : R[T;T⁻¹]) (k : ℤ) : (C c * f).coeff k = c * f.coeff k := by
  rw [← smul_eq_C_mul]; simp

theorem coeff_mul_T (f : R[T;T⁻¹]) (n k : ℤ) : (f * T n).coeff k = f.coeff (k - n) := by
  rw [T, AddMonoidAlgebra.coeff_mul_single_apply]; simp [sub_eq_add_neg]

theorem normSqL_eq (l : List R) (d : ℤ) :
    (denL l d * invert (denL l d)).coeff 0 = l.foldr (fun c acc => c * c + acc) 0 := by
  induction l generalizing d with
  | nil => simp
  | cons c cs ih =>
    have h1 : (C c * T d * invert (denL cs (d + 2))).coeff 0 = 0 := by
      rw [mul_assoc, coeff_C_mul, T_mul, coeff_mul_T, invert_apply, denL_coeff_of_lt (by omega),
        mul_zero]
    have h2 : (denL cs (d + 2) * (C c * T (-d))).coeff 0 = 0 := by
      rw [mul_left_comm, coeff_C_mul, coeff_mul_T, denL_coeff_of_lt (by omega), mul_zero]
    have h3 : (C c * T d * (C c * T (-d)) : R[T;T⁻¹]) = C (c * c) := by
      rw [mul_mul_mul_comm, ← T_add, ← map_mul]; simp
    simp only [denL_cons, map_add, map_mul, invert_C, invert_T, List.foldr_cons]
    rw [add_mul, mul_add, mul_add, h3]
    simp only [AddMonoidAlgebra.coeff_add, Finsupp.add_apply, h1, h2, ih, C_apply]
    simp

end QSP

/-
  Soundness of the rational cos / sin enclosures and of the integer-square-root enclosure
  of `QSP/Model/Trig.lean`.
-/
import QSP.Model.Trig
import QSP.Proofs.Sup
import Mathlib.Analysis.Complex.Exponential
import Mathlib.Analysis.Complex.Trigonometric
import Mathlib.Analysis.Real.Sqrt
import Mathlib.Data.Rat.Floor
import Mathlib.Tactic.Ring
import Mathlib.Tactic.Linarith
import Mathlib.Tactic.FieldSimp
import Mathlib.Tactic.LinearCombination
import Mathlib.Tactic.Positivity
import Mathlib.Tactic.GCongr
import Mathlib.Tactic.NormNum
import Mathlib.Tactic.Push

open Complex Finset
namespace QSP

/-! ## Taylor partial sums of `exp (i x)` -/

/-- the `n`-term partial sum of `exp (i x)` -/
noncomputable def expI (x : ℝ) (n : ℕ) : ℂ := ∑ m ∈ range n, ((x : ℂ) * I) ^ m / (m.factorial : ℂ)

theorem cos_sin_bound (x : ℝ) (n : ℕ) (h : |x| / (n.succ : ℝ) ≤ 1 / 2) :
    |Real.cos x - (expI x n).re| ≤ |x| ^ n / n.factorial * 2 ∧
    |Real.sin x - (expI x n).im| ≤ |x| ^ n / n.factorial * 2 := by
  have hn : ‖(x : ℂ) * I‖ = |x| := by simp
  have hb := Complex.exp_bound' (x := (x : ℂ) * I) (n := n) (by rw [hn]; exact h)
  rw [hn] at hb
  have hre : (Complex.exp ((x : ℂ) * I)).re = Real.cos x := by
    rw [Complex.exp_mul_I]; simp [← Complex.ofReal_cos, ← Complex.ofReal_sin]
  have him : (Complex.exp ((x : ℂ) * I)).im = Real.sin x := by
    rw [Complex.exp_mul_I]; simp [← Complex.ofReal_cos, ← Complex.ofReal_sin]
  constructor
  · calc |Real.cos x - (expI x n).re| = |(Complex.exp ((x : ℂ) * I) - expI x n).re| := by
          rw [Complex.sub_re, hre]
      _ ≤ ‖Complex.exp ((x : ℂ) * I) - expI x n‖ := Complex.abs_re_le_norm _
      _ ≤ _ := hb
  · calc |Real.sin x - (expI x n).im| = |(Complex.exp ((x : ℂ) * I) - expI x n).im| := by
          rw [Complex.sub_im, him]
      _ ≤ ‖Complex.exp ((x : ℂ) * I) - expI x n‖ := Complex.abs_im_le_norm _
      _ ≤ _ := hb

theorem expIQ_spec (x : ℚ) (n : ℕ) :
    (((expIQ x n).1 : ℝ) : ℂ) + ((expIQ x n).2.1 : ℝ) * I
        = (((x : ℝ) : ℂ) * I) ^ n / (n.factorial : ℂ) ∧
    (((expIQ x n).2.2.1 : ℝ) : ℂ) + ((expIQ x n).2.2.2 : ℝ) * I = expI (x : ℝ) n := by
  induction n with
  | zero => simp [expIQ, expI]
  | succ n ih =>
    obtain ⟨h1, h2⟩ := ih
    have hn : ((n : ℂ) + 1) ≠ 0 := by exact_mod_cast Nat.succ_ne_zero n
    have hf : (n.factorial : ℂ) ≠ 0 := by exact_mod_cast Nat.factorial_ne_zero n
    constructor
    · simp only [expIQ]
      rw [pow_succ, Nat.factorial_succ]
      push_cast at h1 ⊢
      have : ((x : ℂ) * I) ^ n
          = (n.factorial : ℂ) * (((expIQ x n).1 : ℂ) + ((expIQ x n).2.1 : ℂ) * I) := by
        rw [h1]; field_simp
      rw [this]
      field_simp
      linear_combination (-((expIQ x n).2.1 : ℂ)) * (x : ℂ) * Complex.I_sq
    · have e : expI (x : ℝ) (n + 1)
          = expI (x : ℝ) n + (((x : ℝ) : ℂ) * I) ^ n / (n.factorial : ℂ) := by
        simp [expI, sum_range_succ]
      rw [e, ← h2, ← h1]
      simp only [expIQ]; push_cast; ring

theorem cosT_sinT_bound (x : ℚ) (n : ℕ) (h : |(x : ℝ)| / (n.succ : ℝ) ≤ 1 / 2) :
    |Real.cos x - (cosT x n : ℝ)| ≤ |(x : ℝ)| ^ n / n.factorial * 2 ∧
    |Real.sin x - (sinT x n : ℝ)| ≤ |(x : ℝ)| ^ n / n.factorial * 2 := by
  have hs := (expIQ_spec x n).2
  have hre : (expI (x : ℝ) n).re = (cosT x n : ℝ) := by rw [← hs]; simp [cosT]
  have him : (expI (x : ℝ) n).im = (sinT x n : ℝ) := by rw [← hs]; simp [sinT]
  have := cos_sin_bound (x : ℝ) n h
  rwa [hre, him] at this

/-! ## the remainder bound -/

theorem factQ_eq (n : ℕ) : factQ n = (n.factorial : ℚ) := by
  induction n with
  | zero => simp [factQ]
  | succ n ih => simp only [factQ, ih, Nat.factorial_succ]; push_cast; ring

theorem trigRem_cast (x : ℚ) (n : ℕ) :
    ((trigRem x n : ℚ) : ℝ) = |(x : ℝ)| ^ n / n.factorial * 2 := by
  simp only [trigRem, qabs_eq, factQ_eq]; push_cast; ring

theorem trigRem_nonneg (x : ℚ) (n : ℕ) : 0 ≤ trigRem x n := by
  simp only [trigRem, qabs_eq, factQ_eq]; positivity

/-! ## rounding -/

theorem roundBits_err (q : ℚ) (b : ℕ) :
    0 ≤ q - roundBits q b ∧ q - roundBits q b ≤ 1 / 2 ^ b := by
  have hp : (0 : ℚ) < 2 ^ b := by positivity
  have hfl : (q * (2 : ℚ) ^ b).floor = ⌊q * (2 : ℚ) ^ b⌋ := rfl
  have h1 : ((⌊q * (2 : ℚ) ^ b⌋ : ℤ) : ℚ) ≤ q * 2 ^ b := Int.floor_le _
  have h2 : q * 2 ^ b < ((⌊q * (2 : ℚ) ^ b⌋ : ℤ) : ℚ) + 1 := Int.lt_floor_add_one _
  simp only [roundBits, hfl]
  constructor
  · rw [sub_nonneg, div_le_iff₀ hp]; exact h1
  · rw [sub_le_iff_le_add, ← add_div, le_div_iff₀ hp]; linarith

theorem roundBits_err_real (q : ℚ) (b : ℕ) :
    |((q : ℚ) : ℝ) - ((roundBits q b : ℚ) : ℝ)| ≤ 1 / 2 ^ b := by
  obtain ⟨h1, h2⟩ := roundBits_err q b
  have h1' : (0 : ℝ) ≤ ((q - roundBits q b : ℚ) : ℝ) := by exact_mod_cast h1
  have h2' : ((q - roundBits q b : ℚ) : ℝ) ≤ ((1 / 2 ^ b : ℚ) : ℝ) := by exact_mod_cast h2
  push_cast at h1' h2'
  rw [abs_of_nonneg h1']; exact h2'

/-! ## the enclosure -/

theorem trigEncl_delta_nonneg (x : ℚ) (b : ℕ) : 0 ≤ (trigEncl x b).δ := by
  unfold trigEncl
  simp only []
  split
  · have := trigRem_nonneg x (trigTerms x b ((2 * qabs x).ceil.toNat + 4 * b + 64)
      (2 * qabs x).ceil.toNat)
    have hp : (0 : ℚ) ≤ 1 / 2 ^ b := by positivity
    simp only []
    linarith
  · norm_num

theorem trigEncl_sound (x : ℚ) (b : ℕ) :
    |Real.cos (x : ℝ) - ((trigEncl x b).c : ℝ)| ≤ ((trigEncl x b).δ : ℝ) ∧
    |Real.sin (x : ℝ) - ((trigEncl x b).s : ℝ)| ≤ ((trigEncl x b).δ : ℝ) := by
  unfold trigEncl
  simp only []
  generalize trigTerms x b ((2 * qabs x).ceil.toNat + 4 * b + 64) (2 * qabs x).ceil.toNat = n
  split
  · rename_i hc
    simp only []
    have hc' : 2 * |(x : ℝ)| ≤ (n : ℝ) + 1 := by
      rw [qabs_eq] at hc
      have : ((2 * |x| : ℚ) : ℝ) ≤ (((n + 1 : ℕ) : ℚ) : ℝ) := by exact_mod_cast hc
      push_cast at this
      exact this
    have hpos : (0 : ℝ) < (n.succ : ℝ) := by positivity
    have hside : |(x : ℝ)| / (n.succ : ℝ) ≤ 1 / 2 := by
      rw [div_le_iff₀ hpos]; push_cast; linarith
    obtain ⟨hcos, hsin⟩ := cosT_sinT_bound x n hside
    rw [← trigRem_cast] at hcos hsin
    have rc := roundBits_err_real (cosT x n) b
    have rs := roundBits_err_real (sinT x n) b
    push_cast
    constructor
    · calc |Real.cos (x : ℝ) - ((roundBits (cosT x n) b : ℚ) : ℝ)|
          = |(Real.cos (x : ℝ) - (cosT x n : ℝ))
              + ((cosT x n : ℝ) - ((roundBits (cosT x n) b : ℚ) : ℝ))| := by ring_nf
        _ ≤ _ := (abs_add_le _ _).trans (add_le_add hcos rc)
    · calc |Real.sin (x : ℝ) - ((roundBits (sinT x n) b : ℚ) : ℝ)|
          = |(Real.sin (x : ℝ) - (sinT x n : ℝ))
              + ((sinT x n : ℝ) - ((roundBits (sinT x n) b : ℚ) : ℝ))| := by ring_nf
        _ ≤ _ := (abs_add_le _ _).trans (add_le_add hsin rs)
  · simp only [Rat.cast_zero, sub_zero, Rat.cast_one]
    exact ⟨Real.abs_cos_le_one _, Real.abs_sin_le_one _⟩

/-! ## integer square root -/

theorem sqrtLo_sound (q : ℚ) (b : ℕ) (hq : 0 ≤ q) :
    0 ≤ sqrtLo q b ∧ ((sqrtLo q b : ℚ) : ℝ) ≤ Real.sqrt (q : ℝ) ∧
      Real.sqrt (q : ℝ) ≤ ((sqrtLo q b : ℚ) : ℝ) + 1 / 2 ^ b := by
  unfold sqrtLo
  split
  · rename_i h0
    have : q = 0 := le_antisymm h0 hq
    subst this
    simp
  · rename_i hpos
    have hpos : 0 < q := not_le.mp hpos
    simp only []
    set n : ℕ := (q * (4 : ℚ) ^ b).floor.toNat with hn
    have hfl : (q * (4 : ℚ) ^ b).floor = ⌊q * (4 : ℚ) ^ b⌋ := rfl
    have h4 : (0 : ℚ) < 4 ^ b := by positivity
    have hfn : (0 : ℤ) ≤ ⌊q * (4 : ℚ) ^ b⌋ := Int.floor_nonneg.mpr (by positivity)
    have hnz : ((n : ℕ) : ℤ) = ⌊q * (4 : ℚ) ^ b⌋ := by
      rw [hn, hfl]; exact Int.toNat_of_nonneg hfn
    have h1 : ((n : ℚ)) ≤ q * 4 ^ b := by
      have := Int.floor_le (q * (4 : ℚ) ^ b)
      rw [← hnz] at this; exact_mod_cast this
    have h2 : q * 4 ^ b < (n : ℚ) + 1 := by
      have := Int.lt_floor_add_one (q * (4 : ℚ) ^ b)
      rw [← hnz] at this; exact_mod_cast this
    have h1r : (n : ℝ) ≤ (q : ℝ) * 4 ^ b := by exact_mod_cast h1
    have h2r : (q : ℝ) * 4 ^ b < (n : ℝ) + 1 := by exact_mod_cast h2
    have s1 : ((Nat.sqrt n : ℕ) : ℝ) ^ 2 ≤ (n : ℝ) := by exact_mod_cast Nat.sqrt_le' n
    have s2 : (n : ℝ) + 1 ≤ (((Nat.sqrt n : ℕ) : ℝ) + 1) ^ 2 := by
      have := Nat.lt_succ_sqrt' n
      have : n + 1 ≤ (Nat.sqrt n + 1) ^ 2 := this
      exact_mod_cast this
    have h2p : (0 : ℝ) < 2 ^ b := by positivity
    have h42 : (4 : ℝ) ^ b = (2 ^ b) ^ 2 := by
      rw [← pow_mul, mul_comm, pow_mul]; norm_num
    have hqr : (0 : ℝ) ≤ (q : ℝ) := by exact_mod_cast hq
    refine ⟨by positivity, ?_, ?_⟩
    · push_cast
      rw [Real.le_sqrt (by positivity) hqr, div_pow, div_le_iff₀ (by positivity), ← h42]
      linarith
    · push_cast
      rw [← add_div, Real.sqrt_le_left (by positivity), div_pow, le_div_iff₀ (by positivity),
        ← h42]
      linarith

end QSP

/-
  Property C12 (Jacobian clause), algorithm level — perturbation of `JacImpl.jacImplCore` in its
  inputs, in the Euclidean norm of 3-vectors.  The exact 3×3 factors (`Rz`, `B` at unit pairs, `D`)
  are contractions; a perturbed factor differs from the exact one by at most `ε` in operator norm;
  so the distance `e` between the perturbed and the exact chain obeys `e' + 1 ≤ (1+ε)(e + 1)`.
-/
import QSP.Proofs.JacImplCore
import Mathlib.Analysis.InnerProductSpace.PiL2
import Mathlib.Tactic.Linarith
import Mathlib.Tactic.Positivity
import Mathlib.Tactic.FinCases

namespace QSP
namespace JacImpl

/-! ## Euclidean norm on `V3 ℝ` -/

noncomputable def toE (v : V3 ℝ) : EuclideanSpace ℝ (Fin 3) := !₂[v.1, v.2.1, v.2.2]
/-- Euclidean norm -/
noncomputable def en (v : V3 ℝ) : ℝ := ‖toE v‖
/-- its square -/
def ssq (v : V3 ℝ) : ℝ := v.1 ^ 2 + v.2.1 ^ 2 + v.2.2 ^ 2

theorem en_sq (v : V3 ℝ) : en v ^ 2 = ssq v := by
  unfold en ssq
  rw [EuclideanSpace.norm_sq_eq]
  simp [toE, Fin.sum_univ_three]

theorem en_nonneg (v : V3 ℝ) : 0 ≤ en v := norm_nonneg _

theorem en_add_le (u v : V3 ℝ) : en (u + v) ≤ en u + en v := by
  have : toE (u + v) = toE u + toE v := by ext i; fin_cases i <;> simp [toE]
  unfold en; rw [this]; exact norm_add_le _ _

theorem en_le_mul {u v : V3 ℝ} {ρ : ℝ} (hρ : 0 ≤ ρ) (h : ssq u ≤ ρ ^ 2 * ssq v) :
    en u ≤ ρ * en v := by
  have h2 : en u ^ 2 ≤ (ρ * en v) ^ 2 := by rw [mul_pow, en_sq, en_sq]; exact h
  exact (pow_le_pow_iff_left₀ (en_nonneg u) (mul_nonneg hρ (en_nonneg v)) two_ne_zero).mp h2

theorem en_le_en {u v : V3 ℝ} (h : ssq u ≤ ssq v) : en u ≤ en v := by
  have := en_le_mul (u := u) (v := v) (ρ := 1) zero_le_one (by simpa using h)
  simpa using this

theorem abs_mid_le_en (v : V3 ℝ) : |v.2.1| ≤ en v := by
  refine abs_le_of_sq_le_sq ?_ (en_nonneg v)
  rw [en_sq]; unfold ssq; nlinarith [sq_nonneg v.1, sq_nonneg v.2.2]

/-! ## one step -/

/-- `g0` is a contraction and `g` differs from it by at most `ε` in operator norm -/
def Step (ε : ℝ) (g g0 : V3 ℝ → V3 ℝ) : Prop :=
  (∀ v, en (g0 v) ≤ en v) ∧ ∀ u u0, en (g u - g0 u0) ≤ ε * en u + en (u - u0)

/-- `u0` is in the unit ball and `u` is within `κ − 1` of it -/
def Close (κ : ℝ) (u u0 : V3 ℝ) : Prop := en u0 ≤ 1 ∧ en (u - u0) + 1 ≤ κ

theorem Close.step {ε κ : ℝ} {g g0 : V3 ℝ → V3 ℝ} {u u0 : V3 ℝ} (hε : 0 ≤ ε)
    (hs : Step ε g g0) (hc : Close κ u u0) : Close (κ * (1 + ε)) (g u) (g0 u0) := by
  obtain ⟨h1, h2⟩ := hs
  obtain ⟨c1, c2⟩ := hc
  refine ⟨(h1 u0).trans c1, ?_⟩
  have hu : en u ≤ 1 + en (u - u0) := by
    have := en_add_le u0 (u - u0)
    rw [add_sub_cancel] at this
    linarith
  have he := en_nonneg (u - u0)
  have h3 := h2 u u0
  have h4 : ε * en u ≤ ε * (1 + en (u - u0)) := mul_le_mul_of_nonneg_left hu hε
  have h5 : (en (u - u0) + 1) * (1 + ε) ≤ κ * (1 + ε) :=
    mul_le_mul_of_nonneg_right c2 (by linarith)
  nlinarith

theorem Close.mono {κ κ' : ℝ} {u u0 : V3 ℝ} (h : Close κ u u0) (hk : κ = κ') : Close κ' u u0 :=
  hk ▸ h

/-! ## the three kinds of factors as block rotations -/

/-- `[[a, −b, 0], [b, a, 0], [0, 0, t]]` -/
def rot12 (a b t : ℝ) (v : V3 ℝ) : V3 ℝ := (a * v.1 - b * v.2.1, b * v.1 + a * v.2.1, t * v.2.2)
/-- `[[a, 0, −b], [0, 1, 0], [b, 0, a]]` -/
def rot13 (a b : ℝ) (v : V3 ℝ) : V3 ℝ := (a * v.1 - b * v.2.2, v.2.1, b * v.1 + a * v.2.2)

theorem matVec_rzMat (p : ℝ × ℝ) (v : V3 ℝ) : matVec (rzMat p) v = rot12 p.1 p.2 1 v := by
  simp only [matVec, rzMat, rot12]
  refine Prod.ext ?_ (Prod.ext ?_ ?_) <;> simp only <;> ring

theorem matVec_dMat (p : ℝ × ℝ) (v : V3 ℝ) : matVec (dMat p) v = rot12 (-p.2) p.1 0 v := by
  simp only [matVec, dMat, rot12]
  refine Prod.ext ?_ (Prod.ext ?_ ?_) <;> simp only <;> ring

theorem matVec_bMat (c2 s2 : ℝ) (v : V3 ℝ) : matVec (bMat c2 s2) v = rot13 c2 s2 v := by
  simp only [matVec, bMat, rot13]
  refine Prod.ext ?_ (Prod.ext ?_ ?_) <;> simp only <;> ring

theorem step_rot12 (ε a b a0 b0 t : ℝ) (hε : 0 ≤ ε) (h0 : a0 ^ 2 + b0 ^ 2 = 1) (ht : t ^ 2 ≤ 1)
    (hd : (a - a0) ^ 2 + (b - b0) ^ 2 ≤ ε ^ 2) : Step ε (rot12 a b t) (rot12 a0 b0 t) := by
  have hcon : ∀ v, en (rot12 a0 b0 t v) ≤ en v := by
    intro v
    refine en_le_en ?_
    have e : ssq (rot12 a0 b0 t v)
        = (a0 ^ 2 + b0 ^ 2) * (v.1 ^ 2 + v.2.1 ^ 2) + t ^ 2 * v.2.2 ^ 2 := by
      simp only [ssq, rot12]; ring
    rw [e, h0]
    unfold ssq
    nlinarith [sq_nonneg v.2.2]
  refine ⟨hcon, fun u u0 => ?_⟩
  have e : rot12 a b t u - rot12 a0 b0 t u0
      = rot12 (a - a0) (b - b0) 0 u + rot12 a0 b0 t (u - u0) := by
    simp only [rot12, Prod.mk_sub_mk, Prod.mk_add_mk, Prod.fst_sub, Prod.snd_sub]
    refine Prod.ext ?_ (Prod.ext ?_ ?_) <;> simp only <;> ring
  rw [e]
  refine (en_add_le _ _).trans (add_le_add ?_ (hcon _))
  refine en_le_mul hε ?_
  have e2 : ssq (rot12 (a - a0) (b - b0) 0 u)
      = ((a - a0) ^ 2 + (b - b0) ^ 2) * (u.1 ^ 2 + u.2.1 ^ 2) := by
    simp only [ssq, rot12]; ring
  rw [e2]
  unfold ssq
  have hp : 0 ≤ u.1 ^ 2 + u.2.1 ^ 2 := by positivity
  calc ((a - a0) ^ 2 + (b - b0) ^ 2) * (u.1 ^ 2 + u.2.1 ^ 2)
      ≤ ε ^ 2 * (u.1 ^ 2 + u.2.1 ^ 2) := mul_le_mul_of_nonneg_right hd hp
    _ ≤ ε ^ 2 * (u.1 ^ 2 + u.2.1 ^ 2 + u.2.2 ^ 2) :=
        mul_le_mul_of_nonneg_left (by nlinarith [sq_nonneg u.2.2]) (sq_nonneg ε)

theorem step_rot13 (ε a b a0 b0 : ℝ) (hε : 0 ≤ ε) (h0 : a0 ^ 2 + b0 ^ 2 = 1)
    (hd : (a - a0) ^ 2 + (b - b0) ^ 2 ≤ ε ^ 2) : Step ε (rot13 a b) (rot13 a0 b0) := by
  have hcon : ∀ v, en (rot13 a0 b0 v) ≤ en v := by
    intro v
    refine en_le_en ?_
    have e : ssq (rot13 a0 b0 v)
        = (a0 ^ 2 + b0 ^ 2) * (v.1 ^ 2 + v.2.2 ^ 2) + v.2.1 ^ 2 := by
      simp only [ssq, rot13]; ring
    rw [e, h0]
    unfold ssq
    linarith
  refine ⟨hcon, fun u u0 => ?_⟩
  have e : rot13 a b u - rot13 a0 b0 u0
      = rot12 0 0 0 u + (rot13 (a - a0) (b - b0) u - (0, u.2.1, 0)) + rot13 a0 b0 (u - u0) := by
    simp only [rot12, rot13, Prod.mk_sub_mk, Prod.mk_add_mk, Prod.fst_sub, Prod.snd_sub]
    refine Prod.ext ?_ (Prod.ext ?_ ?_) <;> simp only <;> ring
  rw [e]
  refine (en_add_le _ _).trans (add_le_add ?_ (hcon _))
  refine en_le_mul hε ?_
  have e2 : ssq (rot12 0 0 0 u + (rot13 (a - a0) (b - b0) u - (0, u.2.1, 0)))
      = ((a - a0) ^ 2 + (b - b0) ^ 2) * (u.1 ^ 2 + u.2.2 ^ 2) := by
    simp only [ssq, rot12, rot13, Prod.mk_sub_mk, Prod.mk_add_mk]; ring
  rw [e2]
  unfold ssq
  have hp : 0 ≤ u.1 ^ 2 + u.2.2 ^ 2 := by positivity
  calc ((a - a0) ^ 2 + (b - b0) ^ 2) * (u.1 ^ 2 + u.2.2 ^ 2)
      ≤ ε ^ 2 * (u.1 ^ 2 + u.2.2 ^ 2) := mul_le_mul_of_nonneg_right hd hp
    _ ≤ ε ^ 2 * (u.1 ^ 2 + u.2.1 ^ 2 + u.2.2 ^ 2) :=
        mul_le_mul_of_nonneg_left (by nlinarith [sq_nonneg u.2.1]) (sq_nonneg ε)

/-! ## chains over a list of (perturbed, exact) pairs -/

/-- the exact pair is on the unit circle and the perturbed one is within `δ` componentwise -/
def Good (δ : ℝ) (q : (ℝ × ℝ) × (ℝ × ℝ)) : Prop :=
  q.2.1 ^ 2 + q.2.2 ^ 2 = 1 ∧ |q.1.1 - q.2.1| ≤ δ ∧ |q.1.2 - q.2.2| ≤ δ

theorem Good.dist_sq {δ ε : ℝ} {q : (ℝ × ℝ) × (ℝ × ℝ)} (h : Good δ q) (hδ : 0 ≤ δ)
    (hε : 2 * δ ≤ ε) : (q.1.1 - q.2.1) ^ 2 + (q.1.2 - q.2.2) ^ 2 ≤ ε ^ 2 := by
  obtain ⟨_, h1, h2⟩ := h
  have a1 := sq_le_sq' (neg_le_of_abs_le h1) (le_of_abs_le h1)
  have a2 := sq_le_sq' (neg_le_of_abs_le h2) (le_of_abs_le h2)
  nlinarith

theorem Good.step_rz {δ ε : ℝ} {q : (ℝ × ℝ) × (ℝ × ℝ)} (h : Good δ q) (hδ : 0 ≤ δ)
    (hε : 2 * δ ≤ ε) : Step ε (matVec (rzMat q.1)) (matVec (rzMat q.2)) := by
  have e1 : matVec (rzMat q.1) = rot12 q.1.1 q.1.2 1 := funext (matVec_rzMat q.1)
  have e2 : matVec (rzMat q.2) = rot12 q.2.1 q.2.2 1 := funext (matVec_rzMat q.2)
  rw [e1, e2]
  exact step_rot12 ε _ _ _ _ 1 (by linarith) h.1 (by norm_num) (h.dist_sq hδ hε)

theorem Good.step_d {δ ε : ℝ} {q : (ℝ × ℝ) × (ℝ × ℝ)} (h : Good δ q) (hδ : 0 ≤ δ)
    (hε : 2 * δ ≤ ε) : Step ε (matVec (dMat q.1)) (matVec (dMat q.2)) := by
  have e1 : matVec (dMat q.1) = rot12 (-q.1.2) q.1.1 0 := funext (matVec_dMat q.1)
  have e2 : matVec (dMat q.2) = rot12 (-q.2.2) q.2.1 0 := funext (matVec_dMat q.2)
  rw [e1, e2]
  refine step_rot12 ε _ _ _ _ 0 (by linarith) (by have := h.1; nlinarith) (by norm_num) ?_
  have := h.dist_sq hδ hε
  nlinarith

theorem good_default (δ : ℝ) (hδ : 0 ≤ δ) : Good δ (((1 : ℝ), (0 : ℝ)), ((1 : ℝ), (0 : ℝ))) := by
  refine ⟨by norm_num, ?_, ?_⟩ <;> simpa using hδ

section chain
variable {δ ε : ℝ} (hδ : 0 ≤ δ) (hε : 2 * δ ≤ ε) {B B0 : Mat3 ℝ}
  (hB : Step ε (matVec B) (matVec B0))
include hδ hε hB

theorem vecS_close (qs : List ((ℝ × ℝ) × (ℝ × ℝ))) (hq : ∀ q ∈ qs, Good δ q) {κ : ℝ}
    {v v0 : V3 ℝ} (hc : Close κ v v0) :
    Close (κ * (1 + ε) ^ (2 * qs.length)) (vecS B v (qs.map Prod.fst))
      (vecS B0 v0 (qs.map Prod.snd)) := by
  have hε0 : 0 ≤ ε := by linarith
  induction qs generalizing κ v v0 with
  | nil => simpa [vecS] using hc
  | cons q qs ih =>
    simp only [List.map_cons, vecS, List.length_cons]
    have h1 := hc.step hε0 ((hq q (by simp)).step_rz hδ hε)
    have h2 := h1.step hε0 hB
    exact (ih (fun q' hq' => hq q' (List.mem_cons_of_mem _ hq')) h2).mono (by ring)

theorem vecU_close (qs : List ((ℝ × ℝ) × (ℝ × ℝ))) (hq : ∀ q ∈ qs, Good δ q) {κ : ℝ}
    {v v0 : V3 ℝ} (hc : Close κ v v0) :
    Close (κ * (1 + ε) ^ (2 * qs.length)) (vecU B v (qs.map Prod.fst))
      (vecU B0 v0 (qs.map Prod.snd)) := by
  have hε0 : 0 ≤ ε := by linarith
  induction qs generalizing κ v v0 with
  | nil => simpa [vecU] using hc
  | cons q qs ih =>
    simp only [List.map_cons, vecU, List.length_cons]
    have h1 := hc.step hε0 hB
    have h2 := h1.step hε0 ((hq q (by simp)).step_rz hδ hε)
    exact (ih (fun q' hq' => hq q' (List.mem_cons_of_mem _ hq')) h2).mono (by ring)

end chain

end JacImpl
end QSP

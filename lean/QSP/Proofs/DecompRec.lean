/-
  Proofs for `QSP/Properties/C06f.lean`:
  * the truncation `LAlg.truncate(l * g, -(n - ldeg), n - ldeg)` of `decompose` returns the suffix
    element LITERALLY (same stored lists);
  * the recursion of `angseq` run with exact solutions of the linear systems (`ExactAngSeq`) is
    derivable on every element built from unit pairs, and every derivation rebuilds the element.
-/
import QSP.Proofs.DecompUnique
open LaurentPolynomial
namespace QSP
namespace DS
variable {R : Type} [CommRing R]

/-! ## truncation to the inner window -/

/-- a value stored on `-N .. N` whose denotation is that of a list on `-m .. m` (`m ≤ N`, same
    parity) is truncated to exactly that list -/
theorem truncate_window (cs target : List R) (N m : ℕ) (hlen : cs.length = N + 1) (hm : m ≤ N)
    (hpar : (N - m) % 2 = 0) (htl : target.length = m + 1)
    (hden : denL cs (-(N : ℤ)) = denL target (-(m : ℤ))) :
    (⟨cs, -(N : ℤ), false⟩ : LP R).truncate (-(m : ℤ)) m = .ok ⟨target, -(m : ℤ), false⟩ := by
  have hp : (⟨cs, -(N : ℤ), false⟩ : LP R).WF := ⟨LinSys.ne_nil_of_length hlen, fun h => by cases h⟩
  have hdmax : (⟨cs, -(N : ℤ), false⟩ : LP R).dmax = N := by
    simp only [LP.dmax, hlen]; push_cast; ring
  have h1 : min (-(m : ℤ)) (-(N : ℤ)) = -(N : ℤ) := by omega
  have h2 : max (m : ℤ) (N : ℤ) = N := by omega
  have ha := aligned_nonzero (p := (⟨cs, -(N : ℤ), false⟩ : LP R)) rfl
    (lo := min (-(m : ℤ)) (-(N : ℤ))) (hi := max (m : ℤ) (⟨cs, -(N : ℤ), false⟩ : LP R).dmax + 2)
    (by show min (-(m : ℤ)) (-(N : ℤ)) ≤ -(N : ℤ); omega) (by omega)
  have ht := truncate_eq ha
  obtain ⟨t, ht', -, hco⟩ := truncate_of_parity (⟨cs, -(N : ℤ), false⟩ : LP R) hp rfl (-(m : ℤ)) m
    (by show (-(m : ℤ) - -(N : ℤ)) % 2 = 0; omega)
  rw [ht] at ht'
  have hteq := Except.ok.inj ht'
  rw [ht]
  congr 1
  -- the slice has `m + 1` entries
  set sl := sliceNegEnd (zeros ((-(N : ℤ) - min (-(m : ℤ)) (-(N : ℤ))) / 2).toNat ++ cs ++
      zeros ((max (m : ℤ) (⟨cs, -(N : ℤ), false⟩ : LP R).dmax + 2 -
        (⟨cs, -(N : ℤ), false⟩ : LP R).dmax) / 2).toNat)
      ((-(m : ℤ) - min (-(m : ℤ)) (-(N : ℤ))) / 2)
      (((m : ℤ) - max (m : ℤ) (⟨cs, -(N : ℤ), false⟩ : LP R).dmax) / 2 - 1) with hsl
  have hsllen : sl.length = m + 1 := by
    rw [hsl, hdmax, h1, h2]
    simp only [sliceNegEnd, List.length_append, length_zeros, hlen]
    have e1 : ((-(N : ℤ) - -(N : ℤ)) / 2).toNat = 0 := by simp
    have e2 : (((N : ℤ) + 2 - N) / 2).toNat = 1 := by
      rw [show (N : ℤ) + 2 - N = 2 by ring]; rfl
    rw [e1, e2]
    split
    · omega
    · simp only [List.length_drop, List.length_take, List.length_append, length_zeros, hlen]
      omega
  have hne : sl ≠ [] := LinSys.ne_nil_of_length hsllen
  rw [LinSys.mk'_of_ne_nil hne]
  have hdt : den t = denL sl (-(m : ℤ)) := by rw [← hteq, LinSys.mk'_of_ne_nil hne]; rfl
  have hd : denL sl (-(m : ℤ)) = denL target (-(m : ℤ)) := by
    rw [← hdt]
    apply LaurentPolynomial.ext
    intro k
    rw [hco k]
    split
    · show (denL cs (-(N : ℤ))).coeff k = _
      rw [hden]
    · rename_i hk
      by_cases h : k < -(m : ℤ)
      · exact (denL_coeff_of_lt h).symm
      · exact (denL_coeff_of_gt (by rw [htl]; push_cast; omega)).symm
  rw [LinSys.denL_inj (by rw [hsllen, htl]) hd]


/-- `decompose_solvable`, with the truncation: `LAlg.truncate(l * g, -(n-ldeg), n-ldeg)` IS the
    suffix element (literally the same stored value) -/
theorem decompose_solvable_trunc (ps : List (R × R)) (n ldeg : ℕ) (hlen : ps.length = n + 1)
    (hunit : ∀ c ∈ ps, c.1 ^ 2 + c.2 ^ 2 = 1) (h1 : 1 ≤ ldeg) (h2 : ldeg ≤ n) :
    ∃ g pre suf l r : LA R,
      LA.fromAngles ps = .ok g ∧ LA.fromAngles (splitPrefix ps ldeg) = .ok pre ∧
      LA.fromAngles (splitSuffix ps ldeg) = .ok suf ∧ pre.conj = .ok l ∧ l.conj = .ok pre ∧
      Rng n g ∧ Rng ldeg l ∧ Rng (n - ldeg) suf ∧
      mulVec (linSys g.I.coefs g.X.coefs ldeg).1 (vecOf l.I.coefs l.X.coefs)
        = (linSys g.I.coefs g.X.coefs ldeg).2 ∧
      l.mul g = .ok r ∧
      r.truncate (-((n - ldeg : ℕ) : ℤ)) ((n - ldeg : ℕ) : ℤ) = .ok suf := by
  obtain ⟨g, pre, suf, l, r, a1, a2, a3, a4, a5, rg, rl, rs, hsys, hmul, hden, hrI, hrX⟩ :=
    decompose_solvable ps n ldeg hlen hunit h1 h2
  refine ⟨g, pre, suf, l, r, a1, a2, a3, a4, a5, rg, rl, rs, hsys, hmul, ?_⟩
  obtain ⟨gI, gX, gIl, gXl⟩ := rg.shape
  obtain ⟨lI, lX, lIl, lXl⟩ := rl.shape
  obtain ⟨sI, sX, sIl, sXl⟩ := rs.shape
  have hN : -((n : ℤ) + ldeg) = -((n + ldeg : ℕ) : ℤ) := by push_cast; ring
  have hpar : (n + ldeg - (n - ldeg)) % 2 = 0 := by omega
  have eA := congrArg P2.A hden
  have eB := congrArg P2.B hden
  simp only [pden] at eA eB
  rw [hrI, sI] at eA
  rw [hrX, sX] at eB
  have tI : r.I.truncate (-((n - ldeg : ℕ) : ℤ)) ((n - ldeg : ℕ) : ℤ) = .ok suf.I := by
    rw [hrI, sI, hN]
    exact truncate_window _ _ (n + ldeg) (n - ldeg)
      (LinSys.length_prodI _ _ _ _ n ldeg gIl gXl lIl lXl) (by omega) hpar sIl (by rw [← hN]; exact eA)
  have tX : r.X.truncate (-((n - ldeg : ℕ) : ℤ)) ((n - ldeg : ℕ) : ℤ) = .ok suf.X := by
    rw [hrX, sX, hN]
    exact truncate_window _ _ (n + ldeg) (n - ldeg)
      (LinSys.length_prodX _ _ _ _ n ldeg gIl gXl lIl lXl) (by omega) hpar sXl (by rw [← hN]; exact eB)
  simp only [LA.truncate, tI, tX, bind, Except.bind]
  exact mk'_of_parity rs.1.2.2

/-! ## the recursion of `angseq` with exact solutions -/

/-- `angseq` run in exact arithmetic.  Leaf (`deg == 1`): the read-out `left_and_right_angles` is
    taken as the abstract specification "returns two pairs `[a, b]` with
    `unitary_from_angles([a, b]) = g`".  Node (`deg = n ≥ 2`, `ldeg = n // 2`): ANY exact solution
    `(lI, lX)` of `linear_system(g, ldeg)`, `l = LAlg(LPoly(lI, -ldeg), LPoly(lX, -ldeg))`, recursion
    on `~l` and on `truncate(l * g, -(n - ldeg), n - ldeg)`, glue `a[:-1] + [a[-1] ⋆ b[0]] + b[1:]` -/
inductive ExactAngSeq : LA R → List (R × R) → Prop
  | leaf (g : LA R) (a b : R × R) (h : LA.fromAngles [a, b] = .ok g) : ExactAngSeq g [a, b]
  | node (g lc r rt : LA R) (n : ℕ) (hn : 2 ≤ n) (hg : Rng n g) (lI lX : List R)
      (hlI : lI.length = n / 2 + 1) (hlX : lX.length = n / 2 + 1)
      (hsys : mulVec (linSys g.I.coefs g.X.coefs (n / 2)).1 (vecOf lI lX)
        = (linSys g.I.coefs g.X.coefs (n / 2)).2)
      (hlc : (⟨⟨lI, -((n / 2 : ℕ) : ℤ), false⟩, ⟨lX, -((n / 2 : ℕ) : ℤ), false⟩⟩ : LA R).conj = .ok lc)
      (hr : (⟨⟨lI, -((n / 2 : ℕ) : ℤ), false⟩, ⟨lX, -((n / 2 : ℕ) : ℤ), false⟩⟩ : LA R).mul g = .ok r)
      (hrt : r.truncate (-((n - n / 2 : ℕ) : ℤ)) ((n - n / 2 : ℕ) : ℤ) = .ok rt)
      (a b : List (R × R)) (ha : ExactAngSeq lc a) (hb : ExactAngSeq rt b) :
      ExactAngSeq g (mergePairs a b)

theorem split_lists' (ps : List (R × R)) (n ldeg : ℕ) (hlen : ps.length = n + 1) (h2 : ldeg ≤ n) :
    ∃ as y ys, ps = as ++ y :: ys ∧ as.length = ldeg ∧ ys.length = n - ldeg ∧
      splitPrefix ps ldeg = as ++ [conjPair (rotProd as)] ∧
      splitSuffix ps ldeg = rotMul (rotProd as) y :: ys := by
  obtain ⟨y, ys, hps, hsuf, hys, htake⟩ := split_lists ps n ldeg hlen h2
  exact ⟨ps.take ldeg, y, ys, hps, htake, hys, rfl, hsuf⟩

theorem mem_splitSuffix (ps : List (R × R)) (n ldeg : ℕ) (hlen : ps.length = n + 1) (h2 : ldeg ≤ n)
    (hunit : ∀ c ∈ ps, c.1 ^ 2 + c.2 ^ 2 = 1) : ∀ c ∈ splitSuffix ps ldeg, c.1 ^ 2 + c.2 ^ 2 = 1 := by
  obtain ⟨as, y, ys, rfl, -, -, -, hsuf⟩ := split_lists' ps n ldeg hlen h2
  intro c hc
  rw [hsuf] at hc
  rcases List.mem_cons.mp hc with rfl | hc
  · have hP := rotProd_normSq as fun c hc => hunit c (by simp [hc])
    have hy := hunit y (by simp)
    have := rotMul_normSq (rotProd as) y
    linear_combination this + (y.1 ^ 2 + y.2 ^ 2) * hP + hy
  · exact hunit c (by simp [hc])

theorem merge_split (ps : List (R × R)) (n ldeg : ℕ) (hlen : ps.length = n + 1) (h2 : ldeg ≤ n)
    (hunit : ∀ c ∈ ps, c.1 ^ 2 + c.2 ^ 2 = 1) :
    mergePairs (splitPrefix ps ldeg) (splitSuffix ps ldeg) = ps := by
  obtain ⟨as, y, ys, rfl, -, -, hpre, hsuf⟩ := split_lists' ps n ldeg hlen h2
  have hP := rotProd_normSq as fun c hc => hunit c (by simp [hc])
  rw [hpre, hsuf, mergePairs_concat_cons, conjPair_rotMul hP]

theorem interior_split (ps : List (R × R)) (n ldeg : ℕ) (hlen : ps.length = n + 1)
    (h1 : 1 ≤ ldeg) (h2 : ldeg ≤ n) :
    (∀ c ∈ (splitPrefix ps ldeg).tail.dropLast, c ∈ ps.tail.dropLast) ∧
    (∀ c ∈ (splitSuffix ps ldeg).tail.dropLast, c ∈ ps.tail.dropLast) := by
  obtain ⟨as, y, ys, rfl, has, -, hpre, hsuf⟩ := split_lists' ps n ldeg hlen h2
  cases as with
  | nil => simp at has; omega
  | cons a0 as' =>
    have e : ((a0 :: as') ++ y :: ys).tail.dropLast = as' ++ (y :: ys).dropLast := by
      simp only [List.cons_append, List.tail_cons]
      exact List.dropLast_append_of_ne_nil (by simp)
    rw [e, hpre, hsuf]
    constructor
    · intro c hc
      simp only [List.cons_append, List.tail_cons, List.dropLast_concat] at hc
      exact List.mem_append_left _ hc
    · intro c hc
      simp only [List.tail_cons] at hc
      cases ys with
      | nil => simp at hc
      | cons z zs =>
        rw [List.dropLast_cons_of_ne_nil (by simp)]
        exact List.mem_append_right _ (List.mem_cons_of_mem _ hc)

theorem angP_mergePairs (a b : List (R × R)) (ha : a ≠ []) (hb : b ≠ []) :
    angP (mergePairs a b) = angP a * angP b := by
  obtain ⟨as, x, rfl⟩ := exists_concat_of_ne_nil ha
  obtain ⟨z, ys, rfl⟩ := exists_cons_of_ne_nil' hb
  rw [mergePairs_concat_cons, angP_merge]

theorem Rng_ext {n : ℕ} {g g' : LA R} (h : Rng n g) (h' : Rng n g') (e : pden g = pden g') :
    g = g' := by
  obtain ⟨gI, gX, gIl, gXl⟩ := h.shape
  obtain ⟨gI', gX', gIl', gXl'⟩ := h'.shape
  have eA := congrArg P2.A e
  have eB := congrArg P2.B e
  simp only [pden] at eA eB
  rw [gI, gI'] at eA
  rw [gX, gX'] at eB
  have hI := LinSys.denL_inj (by rw [gIl, gIl']) eA
  have hX := LinSys.denL_inj (by rw [gXl, gXl']) eB
  calc g = ⟨g.I, g.X⟩ := rfl
    _ = ⟨g'.I, g'.X⟩ := by rw [gI, gX, gI', gX', hI, hX]
    _ = g' := rfl

theorem Rng_unique {n m : ℕ} {g : LA R} (h : Rng n g) (h' : Rng m g) : n = m := by
  have := h.2.1; have := h'.2.1; omega

theorem ok_inj {α : Type} {a b : α} {x : Except Err α} (h1 : x = .ok a) (h2 : x = .ok b) : a = b :=
  Except.ok.inj (h1.symm.trans h2)

/-- TOTALITY: the exact recursion is derivable on every element built from `n + 1 ≥ 2` unit
    pairs (with `out = ps`) -/
theorem exact_total : ∀ (n : ℕ) (ps : List (R × R)), 1 ≤ n → ps.length = n + 1 →
    (∀ c ∈ ps, c.1 ^ 2 + c.2 ^ 2 = 1) → ∃ g, LA.fromAngles ps = .ok g ∧ ExactAngSeq g ps := by
  intro n
  induction n using Nat.strong_induction_on with
  | _ n ih =>
    intro ps hn hlen hunit
    by_cases h1 : n = 1
    · subst h1
      obtain ⟨g, hg, -, -⟩ := fromAngles_spec ps 1 hlen
      match ps, hlen with
      | [a, b], _ => exact ⟨g, hg, ExactAngSeq.leaf g a b hg⟩
    · have hl1 : 1 ≤ n / 2 := by omega
      have hl2 : n / 2 ≤ n := by omega
      obtain ⟨g, pre, suf, l, r, a1, a2, a3, a4, a5, rg, rl, rs, hsys, hmul, htr⟩ :=
        decompose_solvable_trunc ps n (n / 2) hlen hunit hl1 hl2
      obtain ⟨as, y, ys, hps, has, hys, hpre, hsuf⟩ := split_lists' ps n (n / 2) hlen hl2
      obtain ⟨g1, hg1, e1⟩ := ih (n / 2) (by omega) (splitPrefix ps (n / 2)) hl1
        (by rw [hpre]; simp [has]) (mem_splitPrefix ps (n / 2) hunit)
      obtain ⟨g2, hg2, e2⟩ := ih (n - n / 2) (by omega) (splitSuffix ps (n / 2)) (by omega)
        (by rw [hsuf]; simp [hys]) (mem_splitSuffix ps n (n / 2) hlen hl2 hunit)
      cases ok_inj a2 hg1
      cases ok_inj a3 hg2
      obtain ⟨lI, lX, lIl, lXl⟩ := rl.shape
      have hleq : l = ⟨⟨l.I.coefs, -((n / 2 : ℕ) : ℤ), false⟩, ⟨l.X.coefs, -((n / 2 : ℕ) : ℤ), false⟩⟩ :=
        (congrArg₂ LA.mk lI lX : (⟨l.I, l.X⟩ : LA R) = _)
      refine ⟨g, a1, ?_⟩
      have := ExactAngSeq.node g pre r suf n (by omega) rg l.I.coefs l.X.coefs lIl lXl hsys
        (by rw [← hleq]; exact a5) (by rw [← hleq]; exact hmul) htr _ _ e1 e2
      rwa [merge_split ps n (n / 2) hlen hl2 hunit] at this

/-- SOUNDNESS: every derivation (whatever solutions of the linear systems were taken) started on
    `g = fromAngles ps`, `ps` with regular interior cosines, returns a list `out` of the same length
    with `fromAngles out = g` — the SAME stored element -/
theorem exact_sound {g : LA R} {out : List (R × R)} (h : ExactAngSeq g out) :
    ∀ (n : ℕ) (ps : List (R × R)), ps.length = n + 1 → (∀ c ∈ ps, c.1 ^ 2 + c.2 ^ 2 = 1) →
      (∀ c ∈ ps.tail.dropLast, ∀ x : R, x * c.1 = 0 → x = 0) → LA.fromAngles ps = .ok g →
      LA.fromAngles out = .ok g ∧ out.length = n + 1 := by
  induction h with
  | leaf g a b hfa =>
    intro n ps hlen _ _ hg
    obtain ⟨g', hg', -, rg⟩ := fromAngles_spec ps n hlen
    cases ok_inj hg hg'
    obtain ⟨g'', hg'', -, rg'⟩ := fromAngles_spec [a, b] 1 rfl
    cases ok_inj hfa hg''
    have := Rng_unique rg rg'
    subst this
    exact ⟨hfa, rfl⟩
  | node g lc r rt n hn hrng lI lX hlI hlX hsys hlc hr hrt a b _ _ iha ihb =>
    intro n' ps hlen hunit hreg hg
    obtain ⟨g', hg', dg, rg⟩ := fromAngles_spec ps n' hlen
    cases ok_inj hg hg'
    have := Rng_unique rg hrng
    subst this
    have hl1 : 1 ≤ n' / 2 := by omega
    have hl2 : n' / 2 ≤ n' := by omega
    obtain ⟨g0, pre, suf, l0, r0, a1, a2, a3, a4, a5, -, rl, rs, -, hmul, htr⟩ :=
      decompose_solvable_trunc ps n' (n' / 2) hlen hunit hl1 hl2
    cases ok_inj hg a1
    obtain ⟨u1, u2⟩ := decompose_unique ps n' (n' / 2) hlen hunit hreg hl1 hl2 g pre l0 hg a2 a4
      lI lX hlI hlX hsys
    obtain ⟨l0I, l0X, -, -⟩ := rl.shape
    have hleq : l0 = ⟨⟨lI, -((n' / 2 : ℕ) : ℤ), false⟩, ⟨lX, -((n' / 2 : ℕ) : ℤ), false⟩⟩ := by
      rw [u1, u2]; exact (congrArg₂ LA.mk l0I l0X : (⟨l0.I, l0.X⟩ : LA R) = _)
    rw [← hleq] at hlc hr
    cases ok_inj hlc a5
    cases ok_inj hr hmul
    cases ok_inj hrt htr
    obtain ⟨as, y, ys, hps, has, hys, hpre, hsuf⟩ := split_lists' ps n' (n' / 2) hlen hl2
    obtain ⟨i1, i2⟩ := interior_split ps n' (n' / 2) hlen hl1 hl2
    have hprelen : (splitPrefix ps (n' / 2)).length = n' / 2 + 1 := by rw [hpre]; simp [has]
    have hsuflen : (splitSuffix ps (n' / 2)).length = n' - n' / 2 + 1 := by rw [hsuf]; simp [hys]
    obtain ⟨fa, la⟩ := iha (n' / 2) (splitPrefix ps (n' / 2)) hprelen
      (mem_splitPrefix ps (n' / 2) hunit) (fun c hc => hreg c (i1 c hc)) a2
    obtain ⟨fb, lb⟩ := ihb (n' - n' / 2) (splitSuffix ps (n' / 2)) hsuflen
      (mem_splitSuffix ps n' (n' / 2) hlen hl2 hunit) (fun c hc => hreg c (i2 c hc)) a3
    have hane : a ≠ [] := by intro h; rw [h] at la; simp at la
    have hbne : b ≠ [] := by intro h; rw [h] at lb; simp at lb
    have hml : (mergePairs a b).length = n' + 1 := by
      have := length_mergePairs a b hane hbne
      omega
    obtain ⟨g2, hg2, dg2, rg2⟩ := fromAngles_spec (mergePairs a b) n' hml
    obtain ⟨ga, hga, dga, -⟩ := fromAngles_spec a (n' / 2) la
    obtain ⟨gb, hgb, dgb, -⟩ := fromAngles_spec b (n' - n' / 2) lb
    cases ok_inj fa hga
    cases ok_inj fb hgb
    obtain ⟨gp, hgp, dgp, -⟩ := fromAngles_spec _ (n' / 2) hprelen
    obtain ⟨gs, hgs, dgs, -⟩ := fromAngles_spec _ (n' - n' / 2) hsuflen
    cases ok_inj a2 hgp
    cases ok_inj a3 hgs
    have e : pden g2 = pden g := by
      rw [dg2, angP_mergePairs a b hane hbne, ← dga, ← dgb, dgp, dgs,
        ← angP_split ps n' (n' / 2) hlen hl2 hunit, dg]
    cases Rng_ext rg2 rg e
    exact ⟨hg2, hml⟩

end DS
end QSP

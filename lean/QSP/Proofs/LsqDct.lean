/-
  Proofs for property C16b: discrete orthogonality of the Chebyshev polynomials at the
  first-kind Chebyshev nodes `x_j = cos (π (2j+1) / (2N))`, `j = 0..N-1`, and its consequence:
  the least-squares Chebyshev fit of degree `n < N` on those nodes (what
  `numpy.polynomial.chebyshev.chebfit(x, y, n)` computes) is given by the closed
  discrete-cosine-transform formula `dctCoef`.

  Everything is phrased through `T_k (cos t) = cos (k t)`, i.e. the value of `Σ_k c_k T_k` at the
  node `x_j = cos (θ N j)` is `Σ_k c_k cos (k θ N j)`.
-/
import Mathlib.Analysis.SpecialFunctions.Trigonometric.Basic
import Mathlib.Analysis.SpecialFunctions.Trigonometric.Chebyshev.Basic
import Mathlib.Algebra.BigOperators.Intervals
import Mathlib.Algebra.BigOperators.Field
import Mathlib.Algebra.Order.BigOperators.Group.Finset
import Mathlib.Tactic.Ring
import Mathlib.Tactic.Linarith
import Mathlib.Tactic.FieldSimp
import Mathlib.Tactic.LinearCombination
import Mathlib.Tactic.Positivity
import Mathlib.Tactic.NormNum
import Mathlib.Tactic.Push
open Finset

namespace QSP

/-! ### definitions -/

/-- angle of the `j`-th first-kind Chebyshev node among `N`: `x_j = cos (θ N j)` -/
noncomputable def θ (N j : ℕ) : ℝ := Real.pi * (2 * (j : ℝ) + 1) / (2 * (N : ℝ))

/-- the closed (DCT-II) formula for the `k`-th Chebyshev coefficient of the samples `y` -/
noncomputable def dctCoef (N : ℕ) (y : ℕ → ℝ) (k : ℕ) : ℝ :=
  (if k = 0 then 1 else 2) / (N : ℝ) * ∑ j ∈ range N, y j * Real.cos ((k : ℝ) * θ N j)

/-- value at node `j` of `Σ_{k ≤ n} c_k T_k`, using `T_k (cos t) = cos (k t)` -/
noncomputable def fitVal (N : ℕ) (c : ℕ → ℝ) (n j : ℕ) : ℝ :=
  ∑ k ∈ range (n + 1), c k * Real.cos ((k : ℝ) * θ N j)

/-- sum of squared residuals of the degree-`n` Chebyshev series `c` against the samples `y` -/
noncomputable def resid (N : ℕ) (y c : ℕ → ℝ) (n : ℕ) : ℝ :=
  ∑ j ∈ range N, (fitVal N c n j - y j) ^ 2

/-- the Gram weights: `Σ_j T_k(x_j)^2` -/
noncomputable def gramW (N k : ℕ) : ℝ := if k = 0 then (N : ℝ) else (N : ℝ) / 2

theorem gramW_pos (N k : ℕ) (hN : 0 < N) : 0 < gramW N k := by
  have : (0 : ℝ) < N := by exact_mod_cast hN
  unfold gramW; split_ifs <;> positivity

/-- `fitVal` really is the value of the Chebyshev series at the node `cos (θ N j)` -/
theorem fitVal_eq_chebyshev (N : ℕ) (c : ℕ → ℝ) (n j : ℕ) :
    fitVal N c n j = ∑ k ∈ range (n + 1),
      c k * (Polynomial.Chebyshev.T ℝ (k : ℤ)).eval (Real.cos (θ N j)) := by
  unfold fitVal
  refine sum_congr rfl fun k _ => ?_
  rw [Polynomial.Chebyshev.T_real_cos]; push_cast; rfl

/-! ### (1) the cosine sum over the nodes -/

theorem two_sin_mul_cos (a b : ℝ) :
    2 * Real.sin a * Real.cos b = Real.sin (b + a) - Real.sin (b - a) := by
  rw [Real.sin_add, Real.sin_sub]; ring

theorem sum_cos_nodes (N m : ℕ) (hN : 0 < N) (hm : 0 < m) (hm2 : m < 2 * N) :
    ∑ j ∈ range N, Real.cos ((m : ℝ) * θ N j) = 0 := by
  have hNr : (0 : ℝ) < N := by exact_mod_cast hN
  have hmr : (0 : ℝ) < m := by exact_mod_cast hm
  have hm2r : (m : ℝ) < 2 * N := by exact_mod_cast hm2
  set a : ℝ := (m : ℝ) * Real.pi / (2 * N) with ha
  have ha0 : 0 < a := by rw [ha]; have := Real.pi_pos; positivity
  have hapi : a < Real.pi := by
    rw [ha, div_lt_iff₀ (by positivity)]
    have := Real.pi_pos
    nlinarith
  have hs : Real.sin a ≠ 0 := (Real.sin_pos_of_pos_of_lt_pi ha0 hapi).ne'
  -- telescoping
  have htel : ∀ j : ℕ, 2 * Real.sin a * Real.cos ((m : ℝ) * θ N j)
      = Real.sin (a * (2 * ((j + 1 : ℕ) : ℝ))) - Real.sin (a * (2 * (j : ℝ))) := by
    intro j
    rw [two_sin_mul_cos]
    congr 1 <;> congr 1
    · rw [ha, θ]; push_cast; field_simp; ring
    · rw [ha, θ]; field_simp; ring
  have hsum : 2 * Real.sin a * ∑ j ∈ range N, Real.cos ((m : ℝ) * θ N j) = 0 := by
    rw [mul_sum]
    rw [sum_congr rfl (fun j _ => htel j)]
    rw [sum_range_sub (fun j : ℕ => Real.sin (a * (2 * (j : ℝ))))]
    have : a * (2 * (N : ℝ)) = (m : ℝ) * Real.pi := by rw [ha]; field_simp
    rw [this, Real.sin_nat_mul_pi]; simp
  rcases mul_eq_zero.mp hsum with h | h
  · exfalso; rcases mul_eq_zero.mp h with h | h
    · norm_num at h
    · exact hs h
  · exact h

/-- the same with a real difference `k - l` of two distinct indices below `N` -/
theorem sum_cos_nodes_sub (N k l : ℕ) (hN : 0 < N) (hk : k < N) (hl : l < N) (hkl : k ≠ l) :
    ∑ j ∈ range N, Real.cos (((k : ℝ) - (l : ℝ)) * θ N j) = 0 := by
  rcases Nat.lt_or_gt_of_ne hkl with h | h
  · have := sum_cos_nodes N (l - k) hN (by omega) (by omega)
    rw [← this]
    refine sum_congr rfl fun j _ => ?_
    rw [Nat.cast_sub h.le, ← Real.cos_neg]; congr 1; ring
  · have := sum_cos_nodes N (k - l) hN (by omega) (by omega)
    rw [← this]
    refine sum_congr rfl fun j _ => ?_
    rw [Nat.cast_sub h.le]

/-! ### (2) the Gram matrix of `T_0 .. T_{N-1}` on the nodes -/

theorem gram (N k l : ℕ) (hN : 0 < N) (hk : k < N) (hl : l < N) :
    ∑ j ∈ range N, Real.cos ((k : ℝ) * θ N j) * Real.cos ((l : ℝ) * θ N j)
      = if k = l then (if k = 0 then (N : ℝ) else (N : ℝ) / 2) else 0 := by
  have hprod : ∀ j : ℕ, Real.cos ((k : ℝ) * θ N j) * Real.cos ((l : ℝ) * θ N j)
      = (Real.cos (((k : ℝ) - (l : ℝ)) * θ N j) + Real.cos (((k + l : ℕ) : ℝ) * θ N j)) / 2 := by
    intro j
    have e1 : ((k : ℝ) - (l : ℝ)) * θ N j = (k : ℝ) * θ N j - (l : ℝ) * θ N j := by ring
    have e2 : ((k + l : ℕ) : ℝ) * θ N j = (k : ℝ) * θ N j + (l : ℝ) * θ N j := by
      push_cast; ring
    rw [e1, e2, Real.cos_sub, Real.cos_add]; ring
  rw [sum_congr rfl (fun j _ => hprod j), ← sum_div, sum_add_distrib]
  by_cases hkl : k = l
  · subst hkl
    simp only [sub_self, zero_mul, Real.cos_zero, sum_const, card_range, nsmul_eq_mul, mul_one,
      if_true]
    by_cases hk0 : k = 0
    · subst hk0; simp
    · rw [sum_cos_nodes N (k + k) hN (by omega) (by omega)]
      simp [hk0]
  · rw [sum_cos_nodes_sub N k l hN hk hl hkl, sum_cos_nodes N (k + l) hN (by omega) (by omega)]
    simp [hkl]

theorem gram' (N k l : ℕ) (hN : 0 < N) (hk : k < N) (hl : l < N) :
    ∑ j ∈ range N, Real.cos ((k : ℝ) * θ N j) * Real.cos ((l : ℝ) * θ N j)
      = if k = l then gramW N k else 0 := gram N k l hN hk hl

/-! ### analysis (node values → coefficients) of a Chebyshev series of degree `n < N` -/

/-- the node values of a degree-`n < N` series determine its coefficients -/
theorem sum_fitVal_mul_cos (N n : ℕ) (hn : n < N) (c : ℕ → ℝ) (k : ℕ) (hk : k ≤ n) :
    ∑ j ∈ range N, fitVal N c n j * Real.cos ((k : ℝ) * θ N j) = gramW N k * c k := by
  have hN : 0 < N := by omega
  simp only [fitVal, sum_mul]
  rw [sum_comm]
  have : ∀ l ∈ range (n + 1),
      ∑ j ∈ range N, c l * Real.cos ((l : ℝ) * θ N j) * Real.cos ((k : ℝ) * θ N j)
        = if l = k then gramW N k * c k else 0 := by
    intro l hl
    have hl' : l < N := by have := mem_range.mp hl; omega
    simp only [mul_assoc, ← mul_sum]
    rw [gram' N l k hN hl' (by omega)]
    split_ifs with h
    · subst h; ring
    · ring
  rw [sum_congr rfl this, sum_ite_eq' (range (n + 1)) k]
  simp [mem_range, Nat.lt_succ_of_le hk]

theorem gramW_mul_dctCoef (N : ℕ) (hN : 0 < N) (y : ℕ → ℝ) (k : ℕ) :
    gramW N k * dctCoef N y k = ∑ j ∈ range N, y j * Real.cos ((k : ℝ) * θ N j) := by
  have hNr : (N : ℝ) ≠ 0 := by exact_mod_cast hN.ne'
  unfold gramW dctCoef
  split_ifs <;> field_simp

theorem fitVal_sub (N : ℕ) (c d : ℕ → ℝ) (n j : ℕ) :
    fitVal N (fun k => c k - d k) n j = fitVal N c n j - fitVal N d n j := by
  simp only [fitVal, ← sum_sub_distrib]
  exact sum_congr rfl fun k _ => by ring

/-! ### (3) normal equations -/

theorem normal_eqs (N n : ℕ) (hn : n < N) (y : ℕ → ℝ) :
    ∀ k ≤ n, ∑ j ∈ range N,
      (fitVal N (dctCoef N y) n j - y j) * Real.cos ((k : ℝ) * θ N j) = 0 := by
  intro k hk
  simp only [sub_mul, sum_sub_distrib]
  rw [sum_fitVal_mul_cos N n hn _ k hk, gramW_mul_dctCoef N (by omega)]
  exact sub_self _

/-- the optimal residual vector is orthogonal to every series of degree `≤ n` -/
theorem resid_orth (N n : ℕ) (hn : n < N) (y d : ℕ → ℝ) :
    ∑ j ∈ range N, fitVal N d n j * (fitVal N (dctCoef N y) n j - y j) = 0 := by
  have : ∀ j ∈ range N, fitVal N d n j * (fitVal N (dctCoef N y) n j - y j)
      = ∑ k ∈ range (n + 1),
          d k * ((fitVal N (dctCoef N y) n j - y j) * Real.cos ((k : ℝ) * θ N j)) := by
    intro j _
    rw [fitVal, sum_mul]
    exact sum_congr rfl fun k _ => by ring
  rw [sum_congr rfl this, sum_comm]
  refine sum_eq_zero fun k hk => ?_
  rw [← mul_sum, normal_eqs N n hn y k (by have := mem_range.mp hk; omega), mul_zero]

/-! ### (4) Pythagoras and optimality -/

theorem resid_pythagoras (N n : ℕ) (hn : n < N) (y c : ℕ → ℝ) :
    resid N y c n = resid N y (dctCoef N y) n
      + ∑ j ∈ range N, (fitVal N c n j - fitVal N (dctCoef N y) n j) ^ 2 := by
  have h := resid_orth N n hn y (fun k => c k - dctCoef N y k)
  simp only [fitVal_sub] at h
  simp only [resid]
  rw [← sum_add_distrib]
  have e : ∀ j ∈ range N, (fitVal N c n j - y j) ^ 2
      = ((fitVal N (dctCoef N y) n j - y j) ^ 2
          + (fitVal N c n j - fitVal N (dctCoef N y) n j) ^ 2)
        + 2 * ((fitVal N c n j - fitVal N (dctCoef N y) n j)
            * (fitVal N (dctCoef N y) n j - y j)) := by
    intro j _; ring
  rw [sum_congr rfl e, sum_add_distrib, ← mul_sum, h]; ring

theorem resid_optimal (N n : ℕ) (hn : n < N) (y c : ℕ → ℝ) :
    resid N y (dctCoef N y) n ≤ resid N y c n := by
  rw [resid_pythagoras N n hn y c]
  have : 0 ≤ ∑ j ∈ range N, (fitVal N c n j - fitVal N (dctCoef N y) n j) ^ 2 :=
    sum_nonneg fun j _ => sq_nonneg _
  linarith

/-! ### (5) Parseval on the nodes and uniqueness of the minimiser -/

theorem parseval (N n : ℕ) (hn : n < N) (d : ℕ → ℝ) :
    ∑ j ∈ range N, fitVal N d n j ^ 2 = ∑ k ∈ range (n + 1), gramW N k * d k ^ 2 := by
  have : ∀ j ∈ range N, fitVal N d n j ^ 2
      = ∑ k ∈ range (n + 1), d k * (fitVal N d n j * Real.cos ((k : ℝ) * θ N j)) := by
    intro j _
    rw [sq]
    nth_rewrite 1 [fitVal]
    rw [sum_mul]
    exact sum_congr rfl fun k _ => by ring
  rw [sum_congr rfl this, sum_comm]
  refine sum_congr rfl fun k hk => ?_
  rw [← mul_sum, sum_fitVal_mul_cos N n hn d k (by have := mem_range.mp hk; omega)]; ring

theorem resid_excess (N n : ℕ) (hn : n < N) (y c : ℕ → ℝ) :
    resid N y c n = resid N y (dctCoef N y) n
      + ∑ k ∈ range (n + 1), gramW N k * (c k - dctCoef N y k) ^ 2 := by
  rw [resid_pythagoras N n hn y c, ← parseval N n hn]
  simp only [fitVal_sub]

theorem resid_unique (N n : ℕ) (hn : n < N) (y c : ℕ → ℝ)
    (h : resid N y c n = resid N y (dctCoef N y) n) :
    ∀ k ≤ n, c k = dctCoef N y k := by
  intro k hk
  have hN : 0 < N := by omega
  have h0 : ∑ k ∈ range (n + 1), gramW N k * (c k - dctCoef N y k) ^ 2 = 0 := by
    have := resid_excess N n hn y c; linarith
  have hnn : ∀ k ∈ range (n + 1), 0 ≤ gramW N k * (c k - dctCoef N y k) ^ 2 :=
    fun k _ => mul_nonneg (gramW_pos N k hN).le (sq_nonneg _)
  have := (sum_eq_zero_iff_of_nonneg hnn).mp h0 k (mem_range.mpr (by omega))
  rcases mul_eq_zero.mp this with h1 | h1
  · exact absurd h1 (gramW_pos N k hN).ne'
  · exact sub_eq_zero.mp ((pow_eq_zero_iff two_ne_zero).mp h1)

/-! ### (6) parity -/

theorem θ_reflect (N j : ℕ) (hj : j < N) : θ N (N - 1 - j) = Real.pi - θ N j := by
  have hNr : (N : ℝ) ≠ 0 := by exact_mod_cast (by omega : N ≠ 0)
  have : ((N - 1 - j : ℕ) : ℝ) = (N : ℝ) - 1 - j := by
    rw [Nat.sub_sub, Nat.cast_sub (by omega)]; push_cast; ring
  rw [θ, θ, this]; field_simp; ring

theorem cos_reflect (N k j : ℕ) (hj : j < N) :
    Real.cos ((k : ℝ) * θ N (N - 1 - j)) = (-1) ^ k * Real.cos ((k : ℝ) * θ N j) := by
  rw [θ_reflect N j hj, mul_sub, Real.cos_nat_mul_pi_sub]

/-- reflecting the samples multiplies the `k`-th coefficient by `(-1)^k` -/
theorem dctCoef_reflect (N : ℕ) (y : ℕ → ℝ) (k : ℕ) :
    dctCoef N (fun j => y (N - 1 - j)) k = (-1) ^ k * dctCoef N y k := by
  have hr := sum_range_reflect (δ := ℝ) (fun j : ℕ => y j * Real.cos ((k : ℝ) * θ N j)) N
  beta_reduce at hr
  have hs : ∑ j ∈ range N, y (N - 1 - j) * Real.cos ((k : ℝ) * θ N j)
      = (-1) ^ k * ∑ j ∈ range N, y j * Real.cos ((k : ℝ) * θ N j) := by
    rw [← hr, mul_sum]
    refine sum_congr rfl fun j hj => ?_
    have h1 : ((-1 : ℝ) ^ k) * ((-1) ^ k) = 1 := by
      rw [← pow_add, ← two_mul]; exact Even.neg_one_pow (even_two_mul k)
    rw [cos_reflect N k j (mem_range.mp hj)]
    linear_combination (-(y (N - 1 - j) * Real.cos ((k : ℝ) * θ N j))) * h1
  simp only [dctCoef]
  rw [hs]; ring

theorem dctCoef_congr (N : ℕ) (y z : ℕ → ℝ) (h : ∀ j < N, y j = z j) (k : ℕ) :
    dctCoef N y k = dctCoef N z k := by
  unfold dctCoef
  congr 1
  exact sum_congr rfl fun j hj => by rw [h j (mem_range.mp hj)]

theorem dctCoef_neg (N : ℕ) (y : ℕ → ℝ) (k : ℕ) :
    dctCoef N (fun j => - y j) k = - dctCoef N y k := by
  unfold dctCoef
  simp only [neg_mul, sum_neg_distrib, mul_neg]

theorem dctCoef_even (N : ℕ) (y : ℕ → ℝ) (hy : ∀ j < N, y (N - 1 - j) = y j)
    (k : ℕ) (hk : Odd k) : dctCoef N y k = 0 := by
  have h1 := dctCoef_reflect N y k
  rw [dctCoef_congr N _ y hy k, hk.neg_one_pow] at h1
  linarith

theorem dctCoef_odd (N : ℕ) (y : ℕ → ℝ) (hy : ∀ j < N, y (N - 1 - j) = - y j)
    (k : ℕ) (hk : Even k) : dctCoef N y k = 0 := by
  have h1 := dctCoef_reflect N y k
  rw [dctCoef_congr N _ (fun j => - y j) hy k, dctCoef_neg, hk.neg_one_pow] at h1
  linarith

end QSP

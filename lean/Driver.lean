/-
  Line-protocol driver over the executable model (`qspdrv`).  One request per input line,
  one result line per request.  No Mathlib anywhere below this file.
-/
import QSP.Model.Proto
import QSP.Model.Hist
import QSP.Model.Cheb
import QSP.Model.Ball
import QSP.Model.Validators
import QSP.Model.SymQSP
import QSP.Model.Jacobian
import QSP.Model.Generators
import QSP.Model.Accuracy
import QSP.Model.FPSearch
import QSP.Model.Pipeline
import QSP.Model.Cli
import QSP.Model.Interleave
import QSP.Model.Completion
import QSP.Model.PQCompletion
import QSP.Model.Decomp
import QSP.Model.DecompSplit
import QSP.Model.LinSys
import QSP.Model.JacErr
import QSP.Model.JacImpl
import QSP.Model.JacImplErr
open QSP QSP.Proto

def bad : String := "bad-op"

def withLP (s : String) (f : LP Rat → String) : String :=
  match parseLP s with | some p => f p | none => bad
def withLP2 (s t : String) (f : LP Rat → LP Rat → String) : String :=
  match parseLP s, parseLP t with | some p, some q => f p q | _, _ => bad
def withLA (i x : String) (f : LA Rat → String) : String :=
  match parseLP i, parseLP x with | some p, some q => f ⟨p, q⟩ | _, _ => bad
def withInt2 (a b : String) (f : Int → Int → String) : String :=
  match a.toInt?, b.toInt? with | some x, some y => f x y | _, _ => bad

def showLAE : Except Err (LA Rat) → String := showExcept showLA
def showLPE : Except Err (LP Rat) → String := showExcept showLP

def showV : Except Err VOut → String
  | .ok v => s!"{v.ok} {v.stage} {showRat v.bound} {v.evals}"
  | .error e => showErr e

def showGen : Except Err GenOut → String
  | .ok (.coefs c) => s!"coefs {showRatList c}"
  | .ok (.withScale c sc) => s!"scale {showRatList c} {showRat sc}"
  | .error e => showErr e

def parseOpts (eb rs cb : String) : GenOpts := ⟨eb = "1", rs = "1", cb = "1"⟩

/-- decimal literal `[+-]digits[.digits][e[+-]digits]` (blanks around it ignored) -/
def parseDec (cs : List Char) : Option Rat :=
  let s := (String.ofList cs).trimAscii.toString
  if s.isEmpty then none else
  let (mant, ex) := match s.toLower.splitOn "e" with
    | [m] => (m, some (0 : Int))
    | [m, e] => (m, (if e.startsWith "+" then (e.drop 1).toString else e).toInt?)
    | _ => ("", none)
  match ex with
  | none => none
  | some e =>
    let neg := mant.startsWith "-"
    let body := if mant.startsWith "-" || mant.startsWith "+" then (mant.drop 1).toString else mant
    let parts := body.splitOn "."
    let digits? : Option (String × String) := match parts with
      | [a] => some (a, "")
      | [a, b] => some (a, b)
      | _ => none
    match digits? with
    | none => none
    | some (a, b) =>
      if (a ++ b).isEmpty || !(a ++ b).all Char.isDigit then none else
      let n : Nat := (a ++ b).toNat!
      let q : Rat := (n : Rat) / (10 : Rat) ^ b.length * (10 : Rat) ^ e
      some (if neg then -q else q)

def hexVal (c : Char) : Nat :=
  if c.isDigit then c.toNat - 48 else if 'a' ≤ c && c ≤ 'f' then c.toNat - 87 else 0

def unhex : List Char → List Char
  | a :: b :: rest => Char.ofNat (hexVal a * 16 + hexVal b) :: unhex rest
  | _ => []

def parseOp (s : String) : Option (Op Rat) :=
  match s.splitOn ":" with
  | ["mul", d, a, b] => do some (.mul (← d.toNat?) (← a.toNat?) (← b.toNat?))
  | ["add", d, a, b] => do some (.add (← d.toNat?) (← a.toNat?) (← b.toNat?))
  | ["sub", d, a, b] => do some (.sub (← d.toNat?) (← a.toNat?) (← b.toNat?))
  | ["neg", d, a] => do some (.neg (← d.toNat?) (← a.toNat?))
  | ["inv", d, a] => do some (.inv (← d.toNat?) (← a.toNat?))
  | ["smul", d, a, c] => do some (.smul (← d.toNat?) (← a.toNat?) (← parseRat c))
  | ["trunc", d, a, lo, hi] => do some (.trunc (← d.toNat?) (← a.toNat?) (← lo.toInt?) (← hi.toInt?))
  | ["zero", d] => do some (.zero (← d.toNat?))
  | _ => none

def zeroValued (p : LP Rat) : Bool := p.coefs.all (· == 0)

/-- is the operation inside the domain on which C09 is stated?  A truncation window must have
    the parity of the operand (`TruncGuard` of `den_truncate'`), and sums whose refusal would
    only be due to the parity carried by a zero-valued, unflagged operand are left open. -/
def opInDomain (env : List (LP Rat)) : Op Rat → Bool
  | .trunc _ a lo _ => let p := rd env a; zeroValued p || (lo - p.dmin) % 2 == 0
  | .add _ a b => let p := rd env a; let q := rd env b
      !((zeroValued p && !p.iszero) || (zeroValued q && !q.iszero)) || p.parity == q.parity
  | .sub _ a b => let p := rd env a; let q := rd env b
      !((zeroValued p && !p.iszero) || (zeroValued q && !q.iszero)) || p.parity == q.parity
  | _ => true

/-- run a history, reporting the index of the failing op on error; `outside i` when op `i`
    leaves the domain of the property -/
def runIdx : List (Op Rat) → List (LP Rat) → Nat → Except (String × Nat) (List (LP Rat))
  | [], env, _ => .ok env
  | op :: ops, env, i =>
    if !opInDomain env op then .error ("outside", i)
    else match step env op with
    | .ok e => runIdx ops e (i + 1)
    | .error er => .error (showErr er, i)

def handle (toks : List String) : String :=
  match toks with
  | ["ping"] => "pong"
  -- Laurent polynomials -------------------------------------------------------------
  | ["lp.mul", p, q] => withLP2 p q fun p q => showLP (p.mul q)
  | ["lp.add", p, q] => withLP2 p q fun p q => showLPE (p.add q)
  | ["lp.sub", p, q] => withLP2 p q fun p q => showLPE (p.sub q)
  | ["lp.neg", p] => withLP p fun p => showLP p.neg
  | ["lp.inv", p] => withLP p fun p => showLP p.inv
  | ["lp.smul", c, p] =>
    match parseRat c with | some c => withLP p fun p => showLP (LP.smul c p) | none => bad
  | ["lp.get", p, k] =>
    match k.toInt? with | some k => withLP p fun p => showRat (p.getItem k) | none => bad
  | ["lp.aligned", p, lo, hi] =>
    withInt2 lo hi fun lo hi => withLP p fun p => showExcept showRatList (p.aligned lo hi)
  | ["lp.trunc", p, lo, hi] =>
    withInt2 lo hi fun lo hi => withLP p fun p => showLPE (p.truncate lo hi)
  | ["lp.poshalf", p] => withLP p fun p => showLP p.posHalf
  | ["lp.neghalf", p] => withLP p fun p => showLP p.negHalf
  | ["lp.attrs", p] =>
    withLP p fun p => s!"{p.dmin} {p.dmax} {p.degree} {p.parity} {if p.iszero then 1 else 0} {p.coefs.length}"
  | ["lp.normsq", p] => withLP p fun p => showRat p.normSq
  | ["lp.round", t, p] =>
    match parseRat t with | some t => withLP p fun p => showLP (p.roundZeros t) | none => bad
  | ["lp.evalc", p, t] =>
    match parseRat t with
    | some t => withLP p fun p =>
        if p.iszero then "0;0"
        else showCQ (evalCayley (p.coefs.map fun c => (c, 0)) p.dmin t).1
    | none => bad
  | "lp.hist" :: n :: rest =>
    match n.toNat? with
    | none => bad
    | some n =>
      match (rest.take n).mapM parseLP, (rest.drop n).mapM parseOp with
      | some env, some ops =>
        match runIdx ops env 0 with
        | .ok e => "ok " ++ " ".intercalate (e.map showLP)
        | .error (er, i) => s!"{er}@{i}"
      | _, _ => bad
  -- Low algebra ------------------------------------------------------------------------
  | ["la.mul", i1, x1, i2, x2] => withLA i1 x1 fun g => withLA i2 x2 fun h => showLAE (g.mul h)
  | ["la.mulr", i, x, p] => withLA i x fun g => withLP p fun p => showLAE (g.mulR p)
  | ["la.mull", p, i, x] => withLA i x fun g => withLP p fun p => showLAE (LA.mulL p g)
  | ["la.smul", c, i, x] =>
    match parseRat c with | some c => withLA i x fun g => showLAE (LA.smul c g) | none => bad
  | ["la.add", i1, x1, i2, x2] => withLA i1 x1 fun g => withLA i2 x2 fun h => showLAE (g.add h)
  | ["la.addp", i, x, p] => withLA i x fun g => withLP p fun p => showLAE (g.addP p)
  | ["la.sub", i1, x1, i2, x2] => withLA i1 x1 fun g => withLA i2 x2 fun h => showLAE (g.sub h)
  | ["la.neg", i, x] => withLA i x fun g => showLAE g.neg
  | ["la.conj", i, x] => withLA i x fun g => showLAE g.conj
  | ["la.pnorm", i, x] => withLA i x fun g => showLPE g.pnorm
  | ["la.trunc", i, x, lo, hi] =>
    withInt2 lo hi fun lo hi => withLA i x fun g => showLAE (g.truncate lo hi)
  | ["la.attrs", i, x] => withLA i x fun g => s!"{g.degree} {g.parity}"
  | ["la.fromangles", bits, phis] =>
    match bits.toNat?, parseRatList phis with
    | some b, some ph =>
      match fromAnglesBall (enclList b ph) with
      | .ok (g, e) => s!"{showLA g} {showRat e}"
      | .error er => showErr er
    | _, _ => bad
  | ["la.fromconj", bits, phis] =>
    match bits.toNat?, parseRatList phis with
    | some b, some ph =>
      let es := enclList b ph
      match LA.fromConjugations (es.map Encl.pair) with
      | .ok g =>
        -- each generator is a product of two rotations: bound via the doubled list
        let e := (prodErr ((es.map Encl.rotBound) ++ (es.map Encl.rotBound)) (1, 0)).2
        s!"{showLA g} {showRat e}"
      | .error er => showErr er
    | _, _ => bad
  | ["trig", bits, x] =>
    match bits.toNat?, parseRat x with
    | some b, some x => let e := trigEncl x b; s!"{showRat e.c} {showRat e.s} {showRat e.δ}"
    | _, _ => bad
  -- response ---------------------------------------------------------------------------
  | ["resp", so, meas, bits, a, phis] =>
    match bits.toNat?, parseRat a, parseRatList phis with
    | some b, some a, some ph =>
      let m : Option String := if meas = "-" then none else some meas
      match respBall so m b a ph with
      | .ok (z, e) => s!"{showCx z} {showRat e}"
      | .error er => showErr er
    | _, _, _ => bad
  -- basis conversions ------------------------------------------------------------------
  | ["cheb.c2p", kind, l] =>
    match parseRatList l with
    | some l => showRatList (cheb2poly (kind = "U") l)
    | none => bad
  | ["cheb.p2c", kind, l] =>
    match parseRatList l with
    | some l => showRatList (poly2cheb (kind = "U") l)
    | none => bad
  | ["cheb.p2l", thr, l] =>
    match parseRat thr, parseRatList l with
    | some t, some l => showExcept showRatList (poly2laurentNp t l)
    | _, _ => bad
  | ["cheb.p2lf", l] =>
    match parseRatList l with
    | some l => showLPE (polyToLaurentForm l)
    | none => bad
  -- validators ---------------------------------------------------------------------------
  | ["valid.c01", bits, depth, eps, suc, tol, p, phis] =>
    match bits.toNat?, depth.toNat?, parseRat eps, parseRat suc, parseRat tol, parseRatList p, parseRatList phis with
    | some b, some dp, some e, some s, some t, some p, some ph => showV (validC01 p e s t ph b dp)
    | _, _, _, _, _, _, _ => bad
  | ["valid.c02", bits, depth, tol, pre, pim, phis] =>
    match bits.toNat?, depth.toNat?, parseRat tol, parseRatList pre, parseRatList pim, parseRatList phis with
    | some b, some dp, some t, some pr, some pi, some ph => showV (validC02 pr pi t ph b dp)
    | _, _, _, _, _, _ => bad
  | ["valid.c04", tol, f, g] =>
    match parseRat tol, parseRatList f, parseRatList g with
    | some t, some f, some g => showV (validC04 f g t)
    | _, _, _ => bad
  | ["valid.c05", depth, tol, pre, pim, f, g] =>
    match depth.toNat?, parseRat tol, parseRatList pre, parseRatList pim, parseRatList f, parseRatList g with
    | some dp, some t, some pr, some pi, some f, some g => showV (validC05 pr pi f g t dp)
    | _, _, _, _, _, _ => bad
  | ["valid.c06", bits, tolE, tolG, phis, phis2] =>
    match bits.toNat?, parseRat tolE, parseRat tolG, parseRatList phis, parseRatList phis2 with
    | some b, some te, some tg, some ph, some ph2 => showV (validC06 ph ph2 te tg b)
    | _, _, _, _, _ => bad
  | ["valid.c07", bits, depth, eps, suc, p, phis] =>
    match bits.toNat?, depth.toNat?, parseRat eps, parseRat suc, parseRatList p, parseRatList phis with
    | some b, some dp, some e, some s, some p, some ph => showV (validC07 p e s ph b dp)
    | _, _, _, _, _, _ => bad
  | ["valid.c13", bits, depth, budget, par, c, phis] =>
    match bits.toNat?, depth.toNat?, parseRat budget, par.toNat?, parseRatList c, parseRatList phis with
    | some b, some dp, some bu, some pa, some c, some ph => showV (validC13 c pa ph bu b dp)
    | _, _, _, _, _, _ => bad
  | ["cheb.suple", bnd, depth, c] =>
    match parseRat bnd, depth.toNat?, parseRatList c with
    | some b, some dp, some c => let r := chebSupLe c b dp; s!"{r.1} {r.2}"
    | _, _, _ => bad
  | ["cheb.eval", c, x] =>
    match parseRatList c, parseRat x with
    | some c, some x => showRat (chebEval c x)
    | _, _ => bad
  -- symmetric QSP ------------------------------------------------------------------------
  | "sym.hist" :: par :: lists =>
    -- parity `-` = None; first list = constructor argument, the others = update history
    let p : Option Int := if par = "-" then none else par.toInt?
    match lists.mapM parseRatList with
    | some (r0 :: hist) =>
      let s := hist.foldl Proto.update (Proto.init r0 p)
      match s.full, s.deg with
      | some f, some d => s!"{showRatList f} {d} {showRatList s.reduced}"
      | _, _ => s!"none none {showRatList s.reduced}"
    | _ => bad
  | ["sym.jac", par, bits, r] =>
    match par.toNat?, bits.toNat?, parseRatList r with
    | some p, some b, some r =>
      match jacSpec p b r with
      | .ok (f, cols) => s!"{showRatList f} {" ".intercalate (cols.map showRatList)}"
      | .error e => showErr e
    | _, _, _ => bad
  | ["sym.jacerr", par, bits, r] =>
    match par.toNat?, bits.toNat?, parseRatList r with
    | some p, some b, some r => showRat (jacErr p b r)
    | _, _, _ => bad
  | ["sym.jacf", par, bits, r] =>
    match par.toNat?, bits.toNat?, parseRatList r with
    | some p, some b, some r => showExcept showRatList (jacF p b r)
    | _, _, _ => bad
  | ["sym.jaccol", par, bits, j, r] =>
    match par.toNat?, bits.toNat?, j.toNat?, parseRatList r with
    | some p, some b, some j, some r => showExcept showRatList (jacCol p b r j)
    | _, _, _, _ => bad
  | ["sym.jacimpl", par, pairs2, ct, st] =>
    -- `gen_poly_jacobian_components`: pairs2 = list of `cos2phi;sin2phi`, (ct, st) = (cos t, sin t)
    match par.toNat?, parseList parseCx pairs2, parseRat ct, parseRat st with
    | some p, some ps, some c, some s =>
      showRatList (JacImpl.jacImplPt p (ps.map fun z => (z.re, z.im)) c s)
    | _, _, _, _ => bad
  | ["sym.jacimplerr", n, delta] =>
    match n.toNat?, parseRat delta with
    | some n, some d => showRat (JacImpl.jacImplErr n d)
    | _, _ => bad
  | ["sym.jacasm", par, d, cosTab, rows] =>
    -- `gen_jacobian` assembly: rows = the (d+1) sampled rows separated by `;`
    match par.toNat?, d.toNat?, parseRatList cosTab, (rows.splitOn ";").mapM parseRatList with
    | some p, some d, some ct, some M =>
      let r := JacImpl.jacAssemble p d ct ((4 * d : Nat) : Rat) M
      s!"{showRatList r.1} {";".intercalate (r.2.map showRatList)}"
    | _, _, _, _ => bad
  | ["lin.sys", ldeg, ai, ax] =>
    match ldeg.toNat?, parseRatList ai, parseRatList ax with
    | some l, some ai, some ax =>
      let r := linSysQ ai ax l
      s!"{";".intercalate (r.1.map showRatList)} {showRatList r.2}"
    | _, _, _ => bad
  | ["seq.merge", a, b] =>
    match parseRatList a, parseRatList b with
    | some a, some b => showRatList (mergeAnglesQ a b)
    | _, _ => bad
  -- decomp.split <ldeg> <pairs> : pairs = comma separated `cos;sin` rationals.  Answer:
  -- `l.I l.X suf.I suf.X sufpairs` with l = ~fromAngles(splitPrefixQ ps ldeg),
  -- suf = fromAngles(splitSuffixQ ps ldeg), sufpairs = splitSuffixQ ps ldeg
  | ["decomp.split", ldeg, pairs] =>
    match ldeg.toNat?, parseList parseCQ pairs with
    | some l, some ps =>
      let sp := splitSuffixQ ps l
      match (LA.fromAngles (splitPrefixQ ps l)) >>= LA.conj, LA.fromAngles sp with
      | .ok lc, .ok suf => s!"{showLA lc} {showLA suf} {showList showCQ sp}"
      | .error er, _ => showErr er
      | _, .error er => showErr er
    | _, _ => bad
  | ["newton.exit", crit, maxiter, errs] =>
    match parseRat crit, parseRat maxiter, parseRatList errs with
    | some c, some m, some es =>
      match newtonExit c m es with
      | some (k, e, .maxiter) => s!"{k} {showRat e} maxiter"
      | some (k, e, .crit) => s!"{k} {showRat e} crit"
      | none => "none"
    | _, _, _ => bad
  -- generators -----------------------------------------------------------------------------
  | ["gen.erf", par, degree, eb, rs, cb, maxScale, pmAbs, fit] =>
    match par.toNat?, degree.toNat?, parseRat maxScale, parseRat pmAbs, parseRatList fit with
    | some p, some d, some ms, some pm, some f => showGen (erfGenerate p d (parseOpts eb rs cb) ms f pm)
    | _, _, _, _, _ => bad
  | ["gen.cos", eb, rs, cb, j] =>
    match parseRatList j with
    | some j => showGen (.ok (cosGenerate (parseOpts eb rs cb) j))
    | none => bad
  | ["gen.sin", eb, rs, cb, j] =>
    match parseRatList j with
    | some j => showGen (.ok (sinGenerate (parseOpts eb rs cb) j))
    | none => bad
  | ["gen.inv", eb, rs, cb, pmAbs, g] =>
    match parseRat pmAbs, parseRatList g with
    | some pm, some g => showGen (.ok (invGenerate (parseOpts eb rs cb) g pm))
    | _, _ => bad
  | ["gen.invrect", rs, s1, s2, ci, cr] =>
    match parseRat s1, parseRat s2, parseRatList ci, parseRatList cr with
    | some s1, some s2, some ci, some cr => showGen (.ok (invRectGenerate (rs = "1") ci cr s1 s2))
    | _, _, _, _ => bad
  -- accuracy certificates -----------------------------------------------------------------
  | ["valid.trig", kind, tau, eps, scale, n, depth, c] =>
    match parseRat tau, parseRat eps, parseRat scale, n.toNat?, depth.toNat?, parseRatList c with
    | some t, some e, some sc, some n, some dp, some c => showV (.ok (validTrig (kind = "sin") t e sc n c dp))
    | _, _, _, _, _, _ => bad
  | ["valid.inv", kappa, eps, scale, b, c] =>
    match parseRat kappa, parseRat eps, parseRat scale, b.toNat?, parseRatList c with
    | some k, some e, some sc, some b, some c => showV (.ok (validInv k e sc b c))
    | _, _, _, _, _ => bad
  | ["cheb.m2c", a] =>
    match parseRatList a with
    | some a => showRatList (monoToCheb a)
    | none => bad
  -- fixed-point search ---------------------------------------------------------------------
  | ["fp.layout", avec] =>
    match parseRatList avec with
    | some a => showRatList (fpLayout a)
    | none => bad
  | ["fp.tl", l, x] =>
    match l.toNat?, parseRat x with
    | some l, some x => showRat (chebTAt l x)
    | _, _ => bad
  | ["valid.fp", bits, d, x, tol, phis] =>
    match bits.toNat?, d.toNat?, parseRat x, parseRat tol, parseRatList phis with
    | some b, some d, some x, some t, some ph => showV (validFP d ph x t b)
    | _, _, _, _, _ => bad
  -- decision logic of the entry points --------------------------------------------------------
  | ["pipe.qsp", so, meas, method, p, c, v] =>
    let m : Option String := if meas = "-" then none else some meas
    match qspPhases so m method ⟨p = "1", c = "1", v = "1"⟩ with
    | .phases => "phases"
    | .tf => "tf"
    | .err e => "err:" ++ e.name
  | ["pipe.completion", ct, a, b] =>
    match completionDispatch ct (a = "1") (b = "1") with
    | .ok r => "ok:" ++ r
    | .error e => "err:" ++ e.name
  -- command line ---------------------------------------------------------------------------
  | ["cli.floatlist", hex] =>
    match floatList parseDec (unhex hex.toList) with
    | some l => "ok " ++ showRatList l
    | none => "err:parse"
  | ["cli.dispatch", cmd, name] =>
    match dispatchNamed cmd (if name = "-" then none else some name) with
    | none => "help"
    | some d => s!"{",".intercalate d.generators}|{d.argsFrom}|{",".intercalate (d.genKw.map fun kv => kv.1 ++ "=" ++ kv.2)}|{d.callsPhaseFinder}"
  | ["pq.interleave", pre, pim, qre, qim] =>
    match parseRatList pre, parseRatList pim, parseRatList qre, parseRatList qim with
    | some a, some b, some c, some d => let r := interleavePQ a b c d; s!"{showRatList r.1} {showRatList r.2}"
    | _, _, _, _ => bad
  | ["fg.complete", thr, norm, seed, roots] =>
    match parseRat thr, parseRat norm, parseList parseCQ roots with
    | some t, some n, some rs =>
      let sd : List Bool := if seed = "-" then [] else seed.toList.map (· == '1')
      match completeFG t rs sd n with
      | some (g, ratio) => s!"{showRatList g} {showRat ratio}"
      | none => "none"
    | _, _, _ => bad
  | ["pq.complete", tol, roots, lead] =>
    match parseRat tol, parseList parseCQ roots, parseRat lead with
    | some t, some rs, some ld =>
      match pqSelect t rs, pqComplete t rs ld with
      | some (re, im, cx), some (q, ratio) =>
        s!"{showRatList re} {showRatList im} {showList showCQ cx} {showList showCQ q} {showRat ratio}"
      | _, _ => "none"
    | _, _, _ => bad
  -- sup-norm certificate -----------------------------------------------------------------
  | ["sup.real", bnd, depth, d, l] =>
    match parseRat bnd, depth.toNat?, d.toInt?, parseRatList l with
    | some b, some dp, some d, some l => let r := supLeReal l d b dp; s!"{r.1} {r.2}"
    | _, _, _, _ => bad
  | ["sup.cplx", bnd, depth, d, l] =>
    match parseRat bnd, depth.toNat?, d.toInt?, parseList parseCQ l with
    | some b, some dp, some d, some l => let r := supLeC l d b dp; s!"{r.1} {r.2}"
    | _, _, _, _ => bad
  | ["sup.point", d, l, t] =>
    match d.toInt?, parseList parseCQ l, parseRat t with
    | some d, some l, some t => showRat (evalCayley l d t).1.normSq
    | _, _, _ => bad
  | _ => bad

partial def loop (h : IO.FS.Stream) (out : IO.FS.Stream) : IO Unit := do
  let line ← h.getLine
  if line.isEmpty then return ()
  let toks := (line.trimAscii.toString.splitOn " ").filter (· ≠ "")
  out.putStrLn (handle toks)
  out.flush
  loop h out

def main : IO Unit := do
  let out ← IO.getStdout
  loop (← IO.getStdin) out
  out.flush
